import sys
def tlv(t,b):
    l=len(b)
    if l<128: return bytes([t,l])+b
    s=l.to_bytes((l.bit_length()+7)//8,'big'); return bytes([t,0x80|len(s)])+s+b
def integer(x):
    b=x.to_bytes((x.bit_length()+8)//8 or 1,'big'); return tlv(2,b)
def parse(b,i=0):
    t=b[i]; l=b[i+1]; i+=2
    if l&0x80: n=l&0x7f; l=int.from_bytes(b[i:i+n],'big'); i+=n
    return t,b[i:i+l],i+l
cmd=sys.argv[1]
if cmd=='sig2der':
    s=bytes.fromhex(sys.argv[2]); sys.stdout.buffer.write(tlv(0x30,integer(int.from_bytes(s[:32],'big'))+integer(int.from_bytes(s[32:],'big'))))
elif cmd=='der2sig':
    b=open(sys.argv[2],'rb').read(); t,body,_=parse(b); t,r,i=parse(body,0); t,s,_=parse(body,i)
    print((int.from_bytes(r,'big')).to_bytes(32,'big').hex()+(int.from_bytes(s,'big')).to_bytes(32,'big').hex())
elif cmd=='der2ct':
    b=open(sys.argv[2],'rb').read(); t,body,_=parse(b); t,x,i=parse(body,0); t,y,i=parse(body,i); t,c3,i=parse(body,i); t,c2,i=parse(body,i)
    print('04'+int.from_bytes(x,'big').to_bytes(32,'big').hex()+int.from_bytes(y,'big').to_bytes(32,'big').hex()+c3.hex()+c2.hex())
elif cmd=='ct2der':
    c=bytes.fromhex(sys.argv[2]); sys.stdout.buffer.write(tlv(0x30,integer(int.from_bytes(c[1:33],'big'))+integer(int.from_bytes(c[33:65],'big'))+tlv(4,c[65:97])+tlv(4,c[97:])))
