# Design-phase prototype (not part of the checks): textbook SM9 R-ate pairing with Python integers.
# Reproduces GM/T 0044.5 Annex A g = e(P1, Ppub-s) exactly, in the standard 384-byte coefficient order,
# and checks bilinearity / non-degeneracy / order N. The Rust reference in harness/src/refimpl is a
# transliteration of this construction (see DESIGN.md section 3).
import sys, time
t = 0x600000000058F98A
p = 36*t**4 + 36*t**3 + 24*t**2 + 6*t + 1
N = 36*t**4 + 36*t**3 + 18*t**2 + 6*t + 1
assert p == 0xB640000002A3A6F1D603AB4FF58EC74521F2934B1A7AEEDBE56F9B27E351457D
assert N == 0xB640000002A3A6F1D603AB4FF58EC74449F2934B18EA8BEEE56EE19CD69ECF25
assert p % 12 == 1
# Fp2 = Fp[u]/(u^2+2) as tuples (c0,c1)
def f2add(a,b): return ((a[0]+b[0])%p,(a[1]+b[1])%p)
def f2sub(a,b): return ((a[0]-b[0])%p,(a[1]-b[1])%p)
def f2mul(a,b): return ((a[0]*b[0]-2*a[1]*b[1])%p,(a[0]*b[1]+a[1]*b[0])%p)
def f2inv(a):
    d=pow(a[0]*a[0]+2*a[1]*a[1],-1,p); return (a[0]*d%p,(-a[1]*d)%p)
def f2conj(a): return (a[0],(-a[1])%p)
def f2scal(a,k): return (a[0]*k%p,a[1]*k%p)
# Fp12 = Fp[w]/(w^12+2) list of 12
def f12mul(a,b):
    r=[0]*23
    for i,x in enumerate(a):
        if x==0: continue
        for j,y in enumerate(b):
            r[i+j]+=x*y
    for k in range(22,11,-1):
        r[k-12]-=2*r[k]
    return [x%p for x in r[:12]]
def f12pow(a,e):
    r=[1]+[0]*11
    for bit in bin(e)[2:]:
        r=f12mul(r,r)
        if bit=='1': r=f12mul(r,a)
    return r
ONE=[1]+[0]*11
# curves
P1=(0x93DE051D62BF718FF5ED0704487D01D6E1E4086909DC3280E8C4E4817C66DDDD,0x21FE8DDA4F21E607631065125C395BBC1C1C00CBFA6024350C464CD70A3EA616)
P2=((0x3722755292130B08D2AAB97FD34EC120EE265948D19C17ABF9B7213BAF82D65B,0x85AEF3D078640C98597B6027B441A01FF1DD2C190F5E93C454806C11D8806141),
    (0xA7CF28D519BE3DA65F3170153D278FF247EFBA98A71A08116215BBA5C999A7C7,0x17509B092E845C1266BA0D262CBEE6ED0736A96FA347C8BD856DC76B84EBEB96))
assert (P1[1]**2 - P1[0]**3 - 5) % p == 0
B2=(0,5)
lhs=f2mul(P2[1],P2[1]); rhs=f2add(f2mul(f2mul(P2[0],P2[0]),P2[0]),B2)
assert lhs==rhs, "P2 on twist y^2=x^3+5u"
def g1add(A,B):
    if A is None: return B
    if B is None: return A
    if A[0]==B[0]:
        if (A[1]+B[1])%p==0: return None
        l=3*A[0]*A[0]*pow(2*A[1],-1,p)%p
    else: l=(B[1]-A[1])*pow(B[0]-A[0],-1,p)%p
    x=(l*l-A[0]-B[0])%p; return (x,(l*(A[0]-x)-A[1])%p)
def g1mul(k,A):
    R=None
    for bit in bin(k)[2:]:
        R=g1add(R,R)
        if bit=='1': R=g1add(R,A)
    return R
def g2slope_add(A,B):
    if A[0]==B[0]:
        if f2add(A[1],B[1])==(0,0): return None
        return f2mul(f2scal(f2mul(A[0],A[0]),3),f2inv(f2scal(A[1],2)))
    return f2mul(f2sub(B[1],A[1]),f2inv(f2sub(B[0],A[0])))
def g2add(A,B):
    if A is None: return B
    if B is None: return A
    l=g2slope_add(A,B)
    if l is None: return None
    x=f2sub(f2sub(f2mul(l,l),A[0]),B[0]); return (x,f2sub(f2mul(l,f2sub(A[0],x)),A[1]))
def g2mul(k,A):
    R=None
    for bit in bin(k)[2:]:
        R=g2add(R,R)
        if bit=='1': R=g2add(R,A)
    return R
def g2neg(A): return (A[0],((-A[1][0])%p,(-A[1][1])%p))
assert g1mul(N,P1) is None and g2mul(N,P2) is None
# line through T (twist) with slope l (Fp2), evaluated at P (G1), scaled by w^3:
# yP*w^3 - l*xP*w^2 + (l*xT - yT)
def line(T,l,P):
    c=f2sub(f2mul(l,T[0]),T[1])
    r=[0]*12
    r[0]=c[0]; r[6]=c[1]
    r[3]=P[1]%p
    r[2]=(-l[0]*P[0])%p; r[8]=(-l[1]*P[0])%p
    return r
gam=pow(-2,(p-1)//12,p)
gam2=pow(-2,(p*p-1)//12,p)
def frob1(Q): return (f2scal(f2conj(Q[0]),pow(gam,-2,p)),f2scal(f2conj(Q[1]),pow(gam,-3,p)))
def frob2(Q): return (f2scal(Q[0],pow(gam2,-2,p)),f2scal(Q[1],pow(gam2,-3,p)))
def on_twist(Q): return f2mul(Q[1],Q[1])==f2add(f2mul(f2mul(Q[0],Q[0]),Q[0]),B2)
FE=(p**12-1)//N
def pairing(P,Q):
    a=6*t+2
    T=Q; f=ONE
    for bit in bin(a)[3:]:
        l=g2slope_add(T,T); f=f12mul(f12mul(f,f),line(T,l,P)); T=g2add(T,T)
        if bit=='1':
            l=g2slope_add(T,Q); f=f12mul(f,line(T,l,P)); T=g2add(T,Q)
    Q1=frob1(Q); Q2=g2neg(frob2(Q))
    assert on_twist(Q1) and on_twist(Q2)
    l=g2slope_add(T,Q1); f=f12mul(f,line(T,l,P)); T=g2add(T,Q1)
    l=g2slope_add(T,Q2); f=f12mul(f,line(T,l,P)); T=g2add(T,Q2)
    return f12pow(f,FE)
def enc(f):
    # standard order: Fp12=(c2,c1,c0) over Fp4 (w^2,w^1,w^0); Fp4=(b1,b0) over v=w^3; Fp2=(a1,a0) over u=w^6 ; exponent = i+3j+6k
    out=[]
    for i in (2,1,0):
        for j in (1,0):
            for k in (1,0):
                out.append('%064X'%f[i+3*j+6*k])
    return out
t0=time.time()
ks=0x000130E78459D78545CB54C587E02CF480CE0B66340F319F348A1D5B1F2DC5F4
Ppubs=g2mul(ks,P2)
print("Ppubs x1",'%064X'%Ppubs[0][1]); print("Ppubs x0",'%064X'%Ppubs[0][0])
g=pairing(P1,Ppubs)
print("pairing time",time.time()-t0)
for s in enc(g): print(s)
# bilinearity
e11=pairing(P1,P2)
e23=pairing(g1mul(2,P1),g2mul(3,P2))
print("bilinear:", e23==f12pow(e11,6), " nondegenerate:", e11!=ONE, " order N:", f12pow(e11,N)==ONE)
