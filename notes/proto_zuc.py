# Design-phase prototype: ZUC-128 / 128-EEA3 / 128-EIA3 from the specification, S-boxes generated algebraically.
import subprocess, random, sys
def gmul(a,b,poly):
    r=0
    while b:
        if b&1: r^=a
        a<<=1
        if a&0x100: a^=poly
        b>>=1
    return r
# S1 = M * x^-1 + 0x55 in GF(2^8)/0x18B
inv=[0]*256
for a in range(1,256):
    for b in range(1,256):
        if gmul(a,b,0x18B)==1: inv[a]=b;break
cols=[0x97,0x3e,0x6d,0xcb,0xee,0xdd,0xbb,0x77]
def M(v):
    y=0
    for i in range(8):
        if (v>>i)&1: y^=cols[i]
    return y
S1=[M(inv[x])^0x55 for x in range(256)]
P1=[9,15,0,14,15,15,2,10,0,4,0,12,7,5,3,9]
P2=[8,13,6,5,7,0,12,4,11,1,14,10,15,3,9,2]
P3=[2,6,10,6,0,13,10,15,3,3,13,5,0,9,12,13]
def rotl8(x,k): return ((x<<k)|(x>>(8-k)))&0xff
def s0(x):
    x1,x2=x>>4,x&15
    w1=x1^P1[x2]; w2=x2^P2[w1]; y1=w1^P3[w2]
    return rotl8((y1<<4)|w2,5)
S0=[s0(x) for x in range(256)]
assert sorted(S0)==list(range(256)) and sorted(S1)==list(range(256))
D=[0x44D7,0x26BC,0x626B,0x135E,0x5789,0x35E2,0x7135,0x09AF,0x4D78,0x2F13,0x6BC4,0x1AF1,0x5E26,0x3C4D,0x789A,0x47AC]
Pm=(1<<31)-1
def rotl32(x,k): return ((x<<k)|(x>>(32-k)))&0xffffffff
class Zuc:
    def __init__(s,k,iv):
        s.s=[(k[i]<<23)|(D[i]<<8)|iv[i] for i in range(16)]; s.r1=s.r2=0
        for _ in range(32):
            x=s.br(); w=s.F(x); s.lfsr(w>>1)
        x=s.br(); s.F(x); s.lfsr(None)
    def br(s):
        S=s.s
        return [((S[15]>>15)<<16)|(S[14]&0xffff), ((S[11]&0xffff)<<16)|(S[9]>>15), ((S[7]&0xffff)<<16)|(S[5]>>15), ((S[2]&0xffff)<<16)|(S[0]>>15)]
    def F(s,x):
        W=((x[0]^s.r1)+s.r2)&0xffffffff; W1=(s.r1+x[1])&0xffffffff; W2=s.r2^x[2]
        def L1(v): return v^rotl32(v,2)^rotl32(v,10)^rotl32(v,18)^rotl32(v,24)
        def L2(v): return v^rotl32(v,8)^rotl32(v,14)^rotl32(v,22)^rotl32(v,30)
        def Sb(v): return (S0[v>>24]<<24)|(S1[(v>>16)&255]<<16)|(S0[(v>>8)&255]<<8)|S1[v&255]
        s.r1=Sb(L1(((W1<<16)|(W2>>16))&0xffffffff)); s.r2=Sb(L2(((W2<<16)|(W1>>16))&0xffffffff)); return W
    def lfsr(s,u):
        S=s.s
        v=((1<<15)*S[15]+(1<<17)*S[13]+(1<<21)*S[10]+(1<<20)*S[4]+(1+(1<<8))*S[0])%Pm
        if u is not None: v=(v+u)%Pm
        if v==0: v=Pm
        s.s=S[1:]+[v]
    def gen(s,n):
        out=[]
        for _ in range(n):
            x=s.br(); out.append(s.F(x)^x[3]); s.lfsr(None)
        return out
def ks(k,iv,n): return Zuc(k,iv).gen(n)
z=ks([0]*16,[0]*16,2); assert z==[0x27bede74,0x018082da],[hex(v) for v in z]
z=ks([255]*16,[255]*16,2); assert z==[0x0657cfa0,0x7096398b]
z=ks(list(bytes.fromhex('3d4c4be96a82fdaeb58f641db17b455b')),list(bytes.fromhex('84319aa8de6915ca1f6bda6bfbd8c766')),2); assert z==[0x14f1c272,0x3279c419]
z=ks(list(bytes.fromhex('4d320bfad4c285bfd6b8bd00f39d8b41')),list(bytes.fromhex('52959daba0bf176ece2dc315049eb574')),2000); assert (z[0],z[1],z[1999])==(0xed4400e7,0x0633e5c5,0x7a574cdb),[hex(z[0]),hex(z[1]),hex(z[1999])]
print("official ZUC vectors: OK with algebraically generated S-boxes")
def eea(key,count,bearer,dr,length,m):
    iv=[0]*16; iv[0:4]=list(count.to_bytes(4,'big')); iv[4]=((bearer<<3)|(dr<<2))&0xfc; iv[8:13]=iv[0:5]
    L=(length+31)//32; z=ks(key,iv,L); o=[m[i]^z[i] for i in range(L)]
    if length%32: o[-1]&=(0xffffffff<<(32-length%32))&0xffffffff
    return o
def eia(key,count,bearer,dr,length,m):
    iv=[0]*16; iv[0:4]=list(count.to_bytes(4,'big')); iv[4]=(bearer<<3)&0xf8; iv[8:13]=iv[0:5]; iv[8]^=(dr<<7); iv[14]^=(dr<<7)
    L=(length+31)//32+2; z=ks(key,iv,L)
    bits=0
    for w in z: bits=(bits<<32)|w
    tot=32*L
    def word(i): return (bits>>(tot-i-32))&0xffffffff
    T=0
    for i in range(length):
        if (m[i>>5]>>(31-(i&31)))&1: T^=word(i)
    T^=word(length); return T^z[L-1]
assert eia([0]*16,0,0,0,1,[0])==0xc8a9595e
assert eia(list(bytes.fromhex('47054125561eb2dda94059da05097850')),0x561eb2dd,0x14,0,90,[0,0,0])==0x6719a088
print("official EIA3 test sets 1,2: OK")
rnd=random.Random(12345); bad=0; tot=0
P='/root/scratch/probe/target/release/probe'
def run(*a): return subprocess.check_output([P]+[str(x) for x in a]).decode().strip()
for _ in range(40):
    k=[rnd.randrange(256) for _ in range(16)]; iv=[rnd.randrange(256) for _ in range(16)]; n=rnd.choice([1,2,5,33,100,1000])
    tot+=1
    if run('ks',bytes(k).hex(),bytes(iv).hex(),n)!=''.join('%08x'%w for w in ks(k,iv,n)): bad+=1
for length in list(range(0,130))+[192,193,256,577,600,1024,2047,2048]:
    k=[rnd.randrange(256) for _ in range(16)]; count=rnd.getrandbits(32); bearer=rnd.randrange(32); dr=rnd.randrange(2)
    L=(length+31)//32; m=[rnd.getrandbits(32) for _ in range(L+1)]; mh=''.join('%08x'%w for w in m)
    tot+=1
    if length>0:
        if run('eea',bytes(k).hex(),'%x'%count,bearer,dr,length,mh)!=''.join('%08x'%w for w in eea(k,count,bearer,dr,length,m)): bad+=1; print("EEA mismatch len",length)
    if run('eia',bytes(k).hex(),'%x'%count,bearer,dr,length,mh)!='%08x'%eia(k,count,bearer,dr,length,m): bad+=1; print("EIA mismatch len",length,bearer,dr)
print("library vs prototype: mismatches",bad,"of",tot)
