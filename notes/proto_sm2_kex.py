# Design-phase prototype (not part of the checks): GB/T 32918.3 key agreement on affine big integers.
# Reproduces the GM/T 0003.5 Annex K, S_B, S_A with ONE-byte tags 0x02/0x03; with the two-byte tags
# that gm-sm2/src/exchange.rs writes (write_u16) the confirmation values differ (finding 11).
import struct
def rotl(x,n): n%=32; return ((x<<n)|(x>>(32-n)))&0xffffffff
def sm3(m):
    IV=[0x7380166f,0x4914b2b9,0x172442d7,0xda8a0600,0xa96f30bc,0x163138aa,0xe38dee4d,0xb0fb0e4e]
    l=len(m)*8; m=m+b'\x80'; m+=b'\x00'*((56-len(m))%64); m+=struct.pack('>Q',l)
    V=IV[:]
    for o in range(0,len(m),64):
        W=list(struct.unpack('>16I',m[o:o+64]))
        P1=lambda x:x^rotl(x,15)^rotl(x,23)
        for j in range(16,68): W.append(P1(W[j-16]^W[j-9]^rotl(W[j-3],15))^rotl(W[j-13],7)^W[j-6])
        W1=[W[j]^W[j+4] for j in range(64)]
        A,B,C,D,E,F,G,H=V
        for j in range(64):
            T=0x79cc4519 if j<16 else 0x7a879d8a
            SS1=rotl((rotl(A,12)+E+rotl(T,j))&0xffffffff,7); SS2=SS1^rotl(A,12)
            FF=(A^B^C) if j<16 else ((A&B)|(A&C)|(B&C)); GG=(E^F^G) if j<16 else ((E&F)|(~E&G&0xffffffff))
            TT1=(FF+D+SS2+W1[j])&0xffffffff; TT2=(GG+H+SS1+W[j])&0xffffffff
            D=C;C=rotl(B,9);B=A;A=TT1;H=G;G=rotl(F,19);F=E;E=TT2^rotl(TT2,9)^rotl(TT2,17)
        V=[a^b for a,b in zip(V,[A,B,C,D,E,F,G,H])]
    return b''.join(struct.pack('>I',x) for x in V)
assert sm3(b'abc').hex()=='66c7f0f462eeedd9d1f2d46bdc10e4e24167c4875cf2f7a2297da02b8f4ba8e0'
p=0xFFFFFFFEFFFFFFFFFFFFFFFFFFFFFFFFFFFFFFFF00000000FFFFFFFFFFFFFFFF
a=p-3; b=0x28E9FA9E9D9F5E344D5A9E4BCF6509A7F39789F515AB8F92DDBCBD414D940E93
n=0xFFFFFFFEFFFFFFFFFFFFFFFFFFFFFFFF7203DF6B21C6052B53BBF40939D54123
G=(0x32C4AE2C1F1981195F9904466A39C9948FE30BBFF2660BE1715A4589334C74C7,0xBC3736A2F4F6779C59BDCEE36B692153D0A9877CC62A474002DF32E52139F0A0)
def add(A,B):
    if A is None: return B
    if B is None: return A
    if A[0]==B[0]:
        if (A[1]+B[1])%p==0: return None
        l=(3*A[0]*A[0]+a)*pow(2*A[1],-1,p)%p
    else: l=(B[1]-A[1])*pow(B[0]-A[0],-1,p)%p
    x=(l*l-A[0]-B[0])%p; return (x,(l*(A[0]-x)-A[1])%p)
def mul(k,A):
    R=None
    for bit in bin(k)[2:]:
        R=add(R,R)
        if bit=='1': R=add(R,A)
    return R
i2b=lambda x:x.to_bytes(32,'big')
def za(id,P): return sm3(struct.pack('>H',len(id)*8)+id+i2b(a)+i2b(b)+i2b(G[0])+i2b(G[1])+i2b(P[0])+i2b(P[1]))
def kdf(z,klen):
    out=b'';ct=1
    while len(out)<klen: out+=sm3(z+struct.pack('>I',ct));ct+=1
    return out[:klen]
dA=0x81EB26E941BB5AF16DF116495F90695272AE2CD63D6C4AE1678418BE48230029
dB=0x785129917D45A9EA5437A59356B82338EAADDA6CEB199088F14AE10DEFA229B5
rA=0xD4DE15474DB74D06491C440D305E012400990F3E390C7E87153C12DB2EA60BB3
rB=0x7E07124814B309489125EAED101113164EBF0F3458C5BD88335C1F9D596243D6
ID=b'1234567812345678'
PA=mul(dA,G);PB=mul(dB,G);ZA=za(ID,PA);ZB=za(ID,PB)
RA=mul(rA,G);RB=mul(rB,G)
w=127
xb=lambda x:(1<<w)+(x&((1<<w)-1))
tB=(dB+xb(RB[0])*rB)%n
V=mul(tB,add(PA,mul(xb(RA[0]),RA)))
K=kdf(i2b(V[0])+i2b(V[1])+ZA+ZB,16)
inner=sm3(i2b(V[0])+ZA+ZB+i2b(RA[0])+i2b(RA[1])+i2b(RB[0])+i2b(RB[1]))
for tagname,t2,t3 in (("1-byte",b'\x02',b'\x03'),("2-byte",b'\x00\x02',b'\x00\x03')):
    SB=sm3(t2+i2b(V[1])+inner); SA=sm3(t3+i2b(V[1])+inner)
    print(tagname,"SB",SB.hex().upper()); print(tagname,"SA",SA.hex().upper())
print("K",K.hex().upper())
print("expect K 6C89347354DE2484C60B4AB1FDE4C6E5")
print("expect SB D3A0FE15DEE185CEAE907A6B595CC32A266ED7B3367E9983A896DC32FA20F8EB")
print("expect SA 18C7894B3816DF16CF07B05C5EC0BEF5D655D58F779CC1B400A4F3884644DB88")
