#!/bin/bash
# Thorough-tier libFuzzer stage for one property:  fuzz/run_fuzz.sh <ID>
# Builds the property's target(s) in harness/fuzz (cargo-fuzz, libFuzzer, no sanitizer: the crates contain no unsafe code),
# runs each under a wall-clock budget on a fresh corpus seeded with valid artefacts, merges the campaign statistics into
# evidence/<ID>.json, and turns a crash into "VIOLATION property=<ID> replay=<artifact>".
# A budget hit is normal termination; a build failure is inconclusive (exit 2).
set -u
ID="$1"
ROOT=/verif
BUDGET="${VERIF_FUZZ_SECONDS:-120}"
WORKERS="${VERIF_FUZZ_WORKERS:-16}"
SEED="${VERIF_SEED:-1}"
case "$ID" in
  C01) TARGETS="c01_sm3" ;;
  C02) TARGETS="c02_sm4_block" ;;
  C04) TARGETS="c04_sm2_verify" ;;
  C06) TARGETS="c06_sm2_decrypt" ;;
  C07) TARGETS="c07_sm4_modes" ;;
  C08) TARGETS="c08_zuc_split" ;;
  C10) TARGETS="c10_sm9_decrypt" ;;
  C18) TARGETS="c18_eea_eia" ;;
  C19) TARGETS="c19_decoders" ;;
  C20) TARGETS="c20_entries c19_decoders" ;;
  *) exit 0 ;;
esac
export CARGO_NET_OFFLINE=true
export RUSTFLAGS="--cfg gm_rs_verif"
cd "$ROOT/harness" || exit 2
# the replay binary must come from the same tree as the fuzz target
cargo build --release --offline >/dev/null 2>&1 || { echo "INCONCLUSIVE harness build failed"; exit 2; }
code=0
for T in $TARGETS; do
  LOG=$(mktemp)
  if ! cargo +nightly fuzz build -s none "$T" >"$LOG" 2>&1; then
    # fall back to what the proptest engine already explored in this tier; say so in the evidence
    echo "NOTE fuzz target $T does not build with cargo +nightly fuzz; libFuzzer stage skipped"; grep -E "^error" -A5 "$LOG" | head -20; rm -f "$LOG"
    python3 - "$ID" "$T" <<'PY'
import json, sys
p = f'/verif/evidence/{sys.argv[1]}.json'
try:
    ev = json.load(open(p)); ev['coverage'].setdefault('fuzz', {})[sys.argv[2]] = {'skipped': 'cargo +nightly fuzz build failed; thorough tier ran the proptest engine only'}; json.dump(ev, open(p, 'w'), indent=2)
except Exception:
    pass
PY
    continue
  fi
  rm -f "$LOG"
  BIN="$ROOT/harness/fuzz/target/x86_64-unknown-linux-gnu/release/$T"
  CORPUS="$ROOT/fuzz/corpus-run/$T"; ART="$ROOT/fuzz/artifacts/$T"
  rm -rf "$CORPUS" "$ART"; mkdir -p "$CORPUS" "$ART"
  "$ROOT/harness/target/release/gmverif" fuzz-seed-corpus "$T" "$CORPUS"
  OUT="$ROOT/fuzz/corpus-run/$T.log"
  ( cd "$ROOT/fuzz/corpus-run" && "$BIN" "$CORPUS" -artifact_prefix="$ART/" -max_total_time="$BUDGET" -seed="$SEED" -len_control=0 -max_len=2048 \
      -jobs="$WORKERS" -workers="$WORKERS" -print_final_stats=1 >"$OUT" 2>&1 )
  # per-job logs fuzz-N.log are written into the cwd
  EXECS=$(cat "$ROOT"/fuzz/corpus-run/fuzz-*.log 2>/dev/null | grep -E "^stat::number_of_executed_units" | awk '{s+=$2} END {print s+0}')
  UNITS=$(ls "$CORPUS" | wc -l)
  FEATS=$(cat "$ROOT"/fuzz/corpus-run/fuzz-*.log 2>/dev/null | grep -oE "ft: [0-9]+" | awk '{if ($2>m) m=$2} END {print m+0}')
  CRASHES=$(ls "$ART" 2>/dev/null | grep -cE "^(crash|oom|timeout)-")
  python3 - "$ID" "$T" "$EXECS" "$UNITS" "$FEATS" "$CRASHES" "$BUDGET" "$WORKERS" <<'PY'
import json, sys
pid, t, execs, units, feats, crashes, budget, workers = sys.argv[1:9]
p = f'/verif/evidence/{pid}.json'
try:
    ev = json.load(open(p))
except Exception:
    sys.exit(0)
fz = ev['coverage'].setdefault('fuzz', {})
fz[t] = {'engine': 'libFuzzer (cargo-fuzz, -s none)', 'execs': int(execs), 'corpus_size': int(units), 'features': int(feats), 'crashes': int(crashes), 'budget_s': int(budget), 'workers': int(workers),
         'oracle': 'the same check function as the property engine, on a case decoded from the bytes (harness/src/fuzzdec.rs)'}
ev['coverage']['evaluations'] = int(ev['coverage']['evaluations']) + int(execs)
json.dump(ev, open(p, 'w'), indent=2)
PY
  rm -f "$ROOT"/fuzz/corpus-run/fuzz-*.log
  echo "FUZZ property=$ID target=$T execs=$EXECS corpus=$UNITS features=$FEATS crashes=$CRASHES budget_s=$BUDGET"
  for f in "$ART"/crash-* "$ART"/oom-* "$ART"/timeout-*; do
    [ -e "$f" ] || continue
    case "$f" in
      *crash-*)
        # confirm outside libFuzzer; known findings are tolerated inside the target already
        if "$ROOT/harness/target/release/gmverif" fuzz-replay "$T" "$f" | grep -q "^VIOLATION"; then
          mkdir -p "$ROOT/replays/fuzz/$T"; cp "$f" "$ROOT/replays/fuzz/$T/"
          echo "VIOLATION property=$ID replay=$ROOT/replays/fuzz/$T/$(basename "$f")"
          "$ROOT/harness/target/release/gmverif" fuzz-replay "$T" "$f" | tail -2
          code=1
        else
          echo "NOTE crash artifact $f does not reproduce as a violation outside libFuzzer (ignored)"
        fi ;;
      *) echo "INCONCLUSIVE $(basename "$f") (resource limit inside libFuzzer); not a violation" ;;
    esac
  done
done
exit $code
