//! Byte strings that serialise as hex (replay files, samples).

use serde::{Deserialize, Deserializer, Serialize, Serializer};
use std::fmt;

#[derive(Clone, PartialEq, Eq, Hash, PartialOrd, Ord, Default)]
pub struct Hex(pub Vec<u8>);

impl Hex {
    pub fn as_slice(&self) -> &[u8] {
        &self.0
    }
}

impl fmt::Debug for Hex {
    fn fmt(&self, f: &mut fmt::Formatter<'_>) -> fmt::Result {
        if self.0.len() > 80 {
            write!(f, "Hex({}…[{} bytes])", hex::encode(&self.0[..64]), self.0.len())
        } else {
            write!(f, "Hex({})", hex::encode(&self.0))
        }
    }
}

impl std::ops::Deref for Hex {
    type Target = [u8];
    fn deref(&self) -> &[u8] {
        &self.0
    }
}

impl From<Vec<u8>> for Hex {
    fn from(v: Vec<u8>) -> Hex {
        Hex(v)
    }
}

impl From<&[u8]> for Hex {
    fn from(v: &[u8]) -> Hex {
        Hex(v.to_vec())
    }
}

impl Serialize for Hex {
    fn serialize<S: Serializer>(&self, s: S) -> Result<S::Ok, S::Error> {
        s.serialize_str(&hex::encode(&self.0))
    }
}

impl<'de> Deserialize<'de> for Hex {
    fn deserialize<D: Deserializer<'de>>(d: D) -> Result<Hex, D::Error> {
        let s = String::deserialize(d)?;
        hex::decode(&s).map(Hex).map_err(serde::de::Error::custom)
    }
}

pub fn hx(b: &[u8]) -> String {
    if b.len() > 96 {
        format!("{}…[{} bytes]", hex::encode(&b[..64]), b.len())
    } else {
        hex::encode(b)
    }
}
