//! KNOWN_FINDINGS.txt: line-oriented, never written at run time.
//!
//!   open: property=<ID> key=<signature> <what fails>
//!   fixed: property=<ID> <commit> <what failed>
//!
//! `key=` runs up to the first " :: " separator; the rest is the description.

use std::collections::BTreeMap;

pub struct KnownFindings {
    /// (property, key) -> description
    open: BTreeMap<(String, String), String>,
}

impl KnownFindings {
    pub fn load() -> KnownFindings {
        let path = format!("{}/KNOWN_FINDINGS.txt", super::VERIF_ROOT);
        let text = std::fs::read_to_string(&path).unwrap_or_default();
        KnownFindings::parse(&text)
    }

    pub fn parse(text: &str) -> KnownFindings {
        let mut open = BTreeMap::new();
        for line in text.lines() {
            let line = line.trim();
            if let Some(rest) = line.strip_prefix("open:") {
                let rest = rest.trim();
                let Some(rest) = rest.strip_prefix("property=") else { continue };
                let Some((prop, rest)) = rest.split_once(' ') else { continue };
                let Some(rest) = rest.trim().strip_prefix("key=") else { continue };
                let (key, desc) = match rest.split_once(" :: ") {
                    Some((k, d)) => (k.trim(), d.trim()),
                    None => (rest.trim(), ""),
                };
                open.insert((prop.to_string(), key.to_string()), desc.to_string());
            }
        }
        KnownFindings { open }
    }

    pub fn is_open(&self, prop: &str, key: &str) -> bool {
        self.open.contains_key(&(prop.to_string(), key.to_string()))
    }

    pub fn describe(&self, prop: &str, key: &str) -> String {
        self.open
            .get(&(prop.to_string(), key.to_string()))
            .cloned()
            .unwrap_or_default()
    }
}
