//! Engine shared by all twenty property checks: seeded proptest batches,
//! exhaustive enumerations, counters, shrinking, replay files, known findings,
//! evidence.

use std::collections::hash_map::DefaultHasher;
use std::collections::{BTreeMap, HashSet};
use std::fmt::Debug;
use std::hash::{Hash, Hasher};
use std::panic::{catch_unwind, AssertUnwindSafe};
use std::path::PathBuf;
use std::sync::atomic::{AtomicU64, Ordering};
use std::sync::{Arc, Mutex};
use std::time::Instant;

use proptest::strategy::Strategy;
use proptest::test_runner::{Config, RngAlgorithm, RngSeed, TestCaseError, TestError, TestRunner};
use rayon::prelude::*;
use serde::de::DeserializeOwned;
use serde::Serialize;
use serde_json::{json, Value};

pub mod hexs;
pub mod known;

pub use hexs::Hex;

pub const VERIF_ROOT: &str = "/verif";

#[derive(Clone, Copy, PartialEq, Eq, Debug)]
pub enum Tier {
    Quick,
    Thorough,
}

impl Tier {
    pub fn name(self) -> &'static str {
        match self {
            Tier::Quick => "quick",
            Tier::Thorough => "thorough",
        }
    }
    /// pick a size by tier
    pub fn pick<T>(self, quick: T, thorough: T) -> T {
        match self {
            Tier::Quick => quick,
            Tier::Thorough => thorough,
        }
    }
}

/// What a checked case reports when the property held on it.
#[derive(Clone, Debug)]
pub struct Pass {
    /// non-trivial by the property's stated rule
    pub nt: bool,
    /// class label for the distribution histogram
    pub class: String,
}

/// Run `f` over the steps in order inside one case (one thread, one process): state that a library keeps between calls
/// (thread-local memos, lazily filled caches) is carried from step to step. The first failing step is the failure of the case.
pub fn seq<C>(steps: &[C], f: impl Fn(&C) -> CaseResult) -> CaseResult {
    for (i, c) in steps.iter().enumerate() {
        f(c).map_err(|mut e| {
            e.detail = format!("step {} of a sequence of {} related cases on one thread: {}", i, steps.len(), e.detail);
            e
        })?;
    }
    pass(true, format!("sequence-of-{}", steps.len()))
}

/// Run `f` over the steps *simultaneously*, one thread per step, released together by a barrier. Used inside cold-start cases so that
/// several threads make their first library call at the same moment (racy lazy initialisation). The first failure (by step index) wins.
pub fn par<C: Sync>(steps: &[C], f: impl Fn(&C) -> CaseResult + Sync) -> CaseResult {
    let barrier = std::sync::Barrier::new(steps.len().max(1));
    let results: Vec<CaseResult> = std::thread::scope(|s| {
        let hs: Vec<_> = steps
            .iter()
            .map(|c| {
                let (b, f) = (&barrier, &f);
                s.spawn(move || {
                    b.wait();
                    match catch(|| f(c)) {
                        Ok(r) => r,
                        Err(p) => Err(Fail { key: format!("harness-uncaught-panic site={}", panic_site(&p)), detail: p }),
                    }
                })
            })
            .collect();
        hs.into_iter().map(|h| h.join().unwrap_or_else(|_| Err(Fail { key: "harness-thread-join".into(), detail: "".into() }))).collect()
    });
    for (i, r) in results.into_iter().enumerate() {
        r.map_err(|mut e| {
            e.detail = format!("thread {} of {} started together: {}", i, steps.len(), e.detail);
            e
        })?;
    }
    pass(true, format!("concurrent-{}", steps.len()))
}

pub fn pass(nt: bool, class: impl Into<String>) -> CaseResult {
    Ok(Pass {
        nt,
        class: class.into(),
    })
}

/// What a checked case reports when the property is violated on it.
#[derive(Clone, Debug)]
pub struct Fail {
    /// signature: entry point + input class + outcome; compared with KNOWN_FINDINGS.txt
    pub key: String,
    /// human-readable expected vs observed
    pub detail: String,
}

pub fn fail(key: impl Into<String>, detail: impl Into<String>) -> CaseResult {
    Err(Fail {
        key: key.into(),
        detail: detail.into(),
    })
}

pub type CaseResult = Result<Pass, Fail>;

/// `ensure!(cond, key, fmt...)` — return a Fail unless cond.
#[macro_export]
macro_rules! ensure {
    ($cond:expr, $key:expr, $($arg:tt)*) => {
        if !($cond) {
            return Err($crate::engine::Fail { key: ($key).to_string(), detail: format!($($arg)*) });
        }
    };
}

// ---------------------------------------------------------------- panic capture

thread_local! {
    static LAST_PANIC: std::cell::RefCell<Option<String>> = std::cell::RefCell::new(None);
}

pub fn install_silent_panic_hook() {
    std::panic::set_hook(Box::new(|info| {
        let msg = if let Some(s) = info.payload().downcast_ref::<&str>() {
            s.to_string()
        } else if let Some(s) = info.payload().downcast_ref::<String>() {
            s.clone()
        } else {
            "<non-string panic>".to_string()
        };
        let loc = info
            .location()
            .map(|l| format!("{}:{}", l.file(), l.line()))
            .unwrap_or_default();
        LAST_PANIC.with(|p| *p.borrow_mut() = Some(format!("{} @ {}", msg, loc)));
    }));
}

/// Outcome class of a library call that may see untrusted data.
#[derive(Debug, Clone, PartialEq, Eq)]
pub enum Outcome<T> {
    Ok(T),
    Err(String),
    Panic(String),
}

impl<T> Outcome<T> {
    pub fn class(&self) -> &'static str {
        match self {
            Outcome::Ok(_) => "ok",
            Outcome::Err(_) => "err",
            Outcome::Panic(_) => "panic",
        }
    }
    pub fn is_ok(&self) -> bool {
        matches!(self, Outcome::Ok(_))
    }
    pub fn is_err(&self) -> bool {
        matches!(self, Outcome::Err(_))
    }
    pub fn is_panic(&self) -> bool {
        matches!(self, Outcome::Panic(_))
    }
    pub fn ok(self) -> Option<T> {
        match self {
            Outcome::Ok(v) => Some(v),
            _ => None,
        }
    }
    pub fn describe(&self) -> String {
        match self {
            Outcome::Ok(_) => "Ok".into(),
            Outcome::Err(e) => format!("Err({})", e),
            Outcome::Panic(p) => format!("Panic({})", p),
        }
    }
}

/// Run `f` under panic capture.
pub fn catch<T>(f: impl FnOnce() -> T) -> Result<T, String> {
    LAST_PANIC.with(|p| *p.borrow_mut() = None);
    match catch_unwind(AssertUnwindSafe(f)) {
        Ok(v) => Ok(v),
        Err(_) => Err(LAST_PANIC
            .with(|p| p.borrow_mut().take())
            .unwrap_or_else(|| "<panic>".into())),
    }
}

/// Run a fallible library call under panic capture and classify.
pub fn outcome<T, E: Debug>(f: impl FnOnce() -> Result<T, E>) -> Outcome<T> {
    match catch(f) {
        Ok(Ok(v)) => Outcome::Ok(v),
        Ok(Err(e)) => Outcome::Err(format!("{:?}", e)),
        Err(p) => Outcome::Panic(p),
    }
}

/// Shorten a panic message to the part that is stable across inputs (for signatures).
pub fn panic_site(p: &str) -> String {
    // keep "file:line" only
    match p.rfind(" @ ") {
        Some(i) => {
            let loc = &p[i + 3..];
            // strip absolute prefix up to the crate directory
            match loc.find("gm-") {
                Some(j) => loc[j..].to_string(),
                None => loc.to_string(),
            }
        }
        None => p.to_string(),
    }
}

// ---------------------------------------------------------------- hashing / seeds

pub fn hash64<T: Hash + ?Sized>(v: &T) -> u64 {
    let mut h = DefaultHasher::new();
    v.hash(&mut h);
    h.finish()
}

pub fn derive_seed(seed: u64, prop: &str, sub: &str, batch: u64) -> u64 {
    hash64(&(seed, prop, sub, batch))
}

/// Deterministic byte stream (splitmix64) for content that is *derived from a
/// generated seed* (so the generated value stays small and shrinkable).
pub fn expand_bytes(seed: u64, len: usize) -> Vec<u8> {
    let mut out = Vec::with_capacity(len + 8);
    let mut x = seed;
    while out.len() < len {
        x = x.wrapping_add(0x9E3779B97F4A7C15);
        let mut z = x;
        z = (z ^ (z >> 30)).wrapping_mul(0xBF58476D1CE4E5B9);
        z = (z ^ (z >> 27)).wrapping_mul(0x94D049BB133111EB);
        z ^= z >> 31;
        out.extend_from_slice(&z.to_le_bytes());
    }
    out.truncate(len);
    out
}

// ---------------------------------------------------------------- sub-check recorder

const MAX_SAMPLES: usize = 4;

pub struct Sub {
    pub name: String,
    pub exhaustive: bool,
    pub rule: String,
    evaluations: AtomicU64,
    distinct: Mutex<HashSet<u64>>,
    distinct_nt: Mutex<HashSet<u64>>,
    classes: Mutex<BTreeMap<String, u64>>,
    /// (hash, json) — the NT cases with the smallest hashes, deterministic under any schedule
    samples: Mutex<Vec<(u64, Value)>>,
    excluded_known: AtomicU64,
    extra_violations: AtomicU64,
}

impl Sub {
    fn new(name: &str, exhaustive: bool, rule: &str) -> Sub {
        Sub {
            name: name.to_string(),
            exhaustive,
            rule: rule.to_string(),
            evaluations: AtomicU64::new(0),
            distinct: Mutex::new(HashSet::new()),
            distinct_nt: Mutex::new(HashSet::new()),
            classes: Mutex::new(BTreeMap::new()),
            samples: Mutex::new(Vec::new()),
            excluded_known: AtomicU64::new(0),
            extra_violations: AtomicU64::new(0),
        }
    }

    fn record<C: Serialize + Hash>(&self, case: &C, p: &Pass) {
        self.evaluations.fetch_add(1, Ordering::Relaxed);
        let h = hash64(case);
        self.distinct.lock().unwrap().insert(h);
        *self
            .classes
            .lock()
            .unwrap()
            .entry(p.class.clone())
            .or_insert(0) += 1;
        if p.nt {
            let fresh = self.distinct_nt.lock().unwrap().insert(h);
            if fresh {
                let mut s = self.samples.lock().unwrap();
                if s.len() < MAX_SAMPLES || h < s.last().map(|x| x.0).unwrap_or(u64::MAX) {
                    let v = truncate_value(serde_json::to_value(case).unwrap_or(Value::Null));
                    s.push((h, v));
                    s.sort_by_key(|x| x.0);
                    s.truncate(MAX_SAMPLES);
                }
            }
        }
    }

    fn to_json(&self) -> Value {
        json!({
            "name": self.name,
            "rule": self.rule,
            "exhaustive": self.exhaustive,
            "evaluations": self.evaluations.load(Ordering::Relaxed),
            "distinct": self.distinct.lock().unwrap().len(),
            "distinct_nontrivial": self.distinct_nt.lock().unwrap().len(),
            "classes": *self.classes.lock().unwrap(),
            "excluded_known": self.excluded_known.load(Ordering::Relaxed),
        })
    }
}

fn truncate_value(v: Value) -> Value {
    match v {
        Value::String(s) if s.len() > 160 => {
            Value::String(format!("{}…(+{} chars)", &s[..128], s.len() - 128))
        }
        Value::Array(a) => {
            let n = a.len();
            let mut out: Vec<Value> = a.into_iter().take(24).map(truncate_value).collect();
            if n > 24 {
                out.push(Value::String(format!("…(+{} items)", n - 24)));
            }
            Value::Array(out)
        }
        Value::Object(m) => Value::Object(m.into_iter().map(|(k, v)| (k, truncate_value(v))).collect()),
        other => other,
    }
}

// ---------------------------------------------------------------- context

#[derive(Clone, Debug)]
pub struct ViolationRec {
    pub sub: String,
    pub key: String,
    pub detail: String,
    pub case: Value,
    pub replay_path: String,
}

pub struct Ctx {
    pub prop: &'static str,
    pub tier: Tier,
    pub seed: u64,
    pub known: known::KnownFindings,
    /// replay mode: only the named sub-check runs, on exactly this case
    pub replay: Option<(String, Value)>,
    pub replay_result: Mutex<Option<CaseResult>>,
    subs: Mutex<Vec<Arc<Sub>>>,
    violations: Mutex<Vec<ViolationRec>>,
    known_hits: Mutex<BTreeMap<String, u64>>,
    assumptions: Mutex<Vec<String>>,
    extra: Mutex<BTreeMap<String, Value>>,
    rule: Mutex<String>,
    start: Instant,
    /// cases the machinery could not run (reported as inconclusive, exit 2, never as a violation)
    harness_errors: AtomicU64,
    /// restrict to sub-checks whose name contains this (debugging aid: VERIF_ONLY)
    only: Option<String>,
}

impl Ctx {
    pub fn new(prop: &'static str, tier: Tier, seed: u64) -> Ctx {
        Ctx {
            prop,
            tier,
            seed,
            known: known::KnownFindings::load(),
            replay: None,
            replay_result: Mutex::new(None),
            subs: Mutex::new(Vec::new()),
            violations: Mutex::new(Vec::new()),
            known_hits: Mutex::new(BTreeMap::new()),
            assumptions: Mutex::new(Vec::new()),
            extra: Mutex::new(BTreeMap::new()),
            rule: Mutex::new(String::new()),
            start: Instant::now(),
            harness_errors: AtomicU64::new(0),
            only: std::env::var("VERIF_ONLY").ok().filter(|s| !s.is_empty()),
        }
    }

    pub fn is_replay(&self) -> bool {
        self.replay.is_some()
    }

    pub fn set_rule(&self, rule: &str) {
        *self.rule.lock().unwrap() = rule.to_string();
    }

    pub fn assume(&self, a: &str) {
        self.assumptions.lock().unwrap().push(a.to_string());
    }

    pub fn extra(&self, k: &str, v: Value) {
        self.extra.lock().unwrap().insert(k.to_string(), v);
    }

    fn wants(&self, name: &str) -> bool {
        match (&self.replay, &self.only) {
            (Some((s, _)), _) => s == name,
            (None, Some(o)) => name.contains(o.as_str()),
            (None, None) => true,
        }
    }

    /// Should an expensive set-up for sub-check `name` be performed at all?
    pub fn enabled(&self, name: &str) -> bool {
        self.wants(name)
    }

    fn new_sub(&self, name: &str, exhaustive: bool, rule: &str) -> Arc<Sub> {
        let s = Arc::new(Sub::new(name, exhaustive, rule));
        self.subs.lock().unwrap().push(s.clone());
        s
    }

    /// Evaluate one case: classify known findings, record counters.
    /// Returns Some(fail) if this is a *new* violation.
    fn eval<C: Serialize + Hash>(
        &self,
        sub: &Sub,
        case: &C,
        f: &(impl Fn(&C) -> CaseResult + ?Sized),
        count: bool,
    ) -> Option<Fail> {
        let r = match catch(|| f(case)) {
            Ok(r) => r,
            Err(p) => Err(Fail {
                key: format!("harness-uncaught-panic site={}", panic_site(&p)),
                detail: format!("uncaught panic while checking the case: {}", p),
            }),
        };
        match r {
            Ok(p) => {
                if count {
                    sub.record(case, &p);
                }
                None
            }
            Err(fl) => {
                if self.known.is_open(self.prop, &fl.key) {
                    if count {
                        sub.excluded_known.fetch_add(1, Ordering::Relaxed);
                        *self
                            .known_hits
                            .lock()
                            .unwrap()
                            .entry(fl.key.clone())
                            .or_insert(0) += 1;
                    }
                    None
                } else {
                    Some(fl)
                }
            }
        }
    }

    fn record_violation<C: Serialize>(&self, sub: &Sub, case: &C, fl: Fail) {
        if fl.key.starts_with("harness-cold-start-child-error") {
            // the machinery itself failed (could not start or understand a child process): that says nothing about the property
            println!("INCONCLUSIVE property={} sub={} the check could not run a case: {}", self.prop, sub.name, truncate_str(&fl.detail, 600));
            self.harness_errors.fetch_add(1, Ordering::Relaxed);
            return;
        }
        let mut v = self.violations.lock().unwrap();
        if v.iter().any(|x| x.sub == sub.name && x.key == fl.key) {
            sub.extra_violations.fetch_add(1, Ordering::Relaxed);
            return;
        }
        let case_v = serde_json::to_value(case).unwrap_or(Value::Null);
        let doc = json!({
            "property": self.prop,
            "sub": sub.name,
            "key": fl.key,
            "detail": fl.detail,
            "case": case_v,
        });
        let h = hash64(&doc.to_string());
        let dir = PathBuf::from(VERIF_ROOT).join("replays");
        let _ = std::fs::create_dir_all(&dir);
        let path = dir.join(format!("{}-{:016x}.json", self.prop, h));
        let _ = std::fs::write(&path, serde_json::to_string_pretty(&doc).unwrap());
        let path_s = path.to_string_lossy().to_string();
        println!("VIOLATION property={} replay={}", self.prop, path_s);
        println!("  sub={} key={}", sub.name, fl.key);
        println!("  detail={}", truncate_str(&fl.detail, 1500));
        v.push(ViolationRec {
            sub: sub.name.clone(),
            key: fl.key,
            detail: fl.detail,
            case: case_v,
            replay_path: path_s,
        });
    }

    fn replay_case<C: DeserializeOwned>(&self) -> Option<C> {
        let (_, v) = self.replay.as_ref()?;
        match serde_json::from_value::<C>(v.clone()) {
            Ok(c) => Some(c),
            Err(e) => {
                println!("REPLAY-ERROR cannot decode case: {}", e);
                None
            }
        }
    }

    fn do_replay<C: Serialize + DeserializeOwned + Hash>(
        &self,
        name: &str,
        f: &(impl Fn(&C) -> CaseResult + ?Sized),
    ) {
        if let Some(c) = self.replay_case::<C>() {
            let r = match catch(|| f(&c)) {
                Ok(r) => r,
                Err(p) => Err(Fail {
                    key: format!("harness-uncaught-panic site={}", panic_site(&p)),
                    detail: p,
                }),
            };
            let _ = name;
            *self.replay_result.lock().unwrap() = Some(r);
        }
    }

    /// Enumerate a finite space completely (in parallel). `cases` is only called when the
    /// sub-check actually runs (not in replay mode for another sub-check).
    pub fn exhaustive<C, F>(&self, name: &str, rule: &str, cases: impl FnOnce() -> Vec<C>, f: F)
    where
        C: Serialize + DeserializeOwned + Hash + Send + Sync,
        F: Fn(&C) -> CaseResult + Sync,
    {
        self.enumerate(name, rule, true, cases, f)
    }

    /// A fixed list of constructed cases that does not claim to exhaust a space.
    pub fn listed<C, F>(&self, name: &str, rule: &str, cases: impl FnOnce() -> Vec<C>, f: F)
    where
        C: Serialize + DeserializeOwned + Hash + Send + Sync,
        F: Fn(&C) -> CaseResult + Sync,
    {
        self.enumerate(name, rule, false, cases, f)
    }

    fn enumerate<C, F>(
        &self,
        name: &str,
        rule: &str,
        exhaustive: bool,
        cases: impl FnOnce() -> Vec<C>,
        f: F,
    ) where
        C: Serialize + DeserializeOwned + Hash + Send + Sync,
        F: Fn(&C) -> CaseResult + Sync,
    {
        if !self.wants(name) {
            return;
        }
        if self.is_replay() {
            self.do_replay::<C>(name, &f);
            return;
        }
        let t0 = Instant::now();
        let sub = self.new_sub(name, exhaustive, rule);
        let cases = cases();
        // first failure by index per key, deterministic
        let fails: Vec<(usize, Fail)> = cases
            .par_iter()
            .enumerate()
            .filter_map(|(i, c)| self.eval(&sub, c, &f, true).map(|fl| (i, fl)))
            .collect();
        let mut seen = HashSet::new();
        for (i, fl) in fails {
            if seen.insert(fl.key.clone()) {
                self.record_violation(&sub, &cases[i], fl);
            } else {
                sub.extra_violations.fetch_add(1, Ordering::Relaxed);
            }
        }
        self.progress(&sub, t0);
    }

    /// Cold-start variant: every case is checked in a *fresh process* (this binary, `replay <file>`), so the library call the check
    /// function makes first really is the first library call of that process — lazily initialised tables, caches and thread-locals are
    /// in their initial state. In the child (and when a violation is replayed) `f` runs directly.
    pub fn cold<C, F>(&self, name: &str, rule: &str, cases: impl FnOnce() -> Vec<C>, f: F)
    where
        C: Serialize + DeserializeOwned + Hash + Send + Sync,
        F: Fn(&C) -> CaseResult + Sync,
    {
        if !self.wants(name) {
            return;
        }
        if self.is_replay() {
            self.do_replay::<C>(name, &f);
            return;
        }
        let prop = self.prop;
        let sub_name = name.to_string();
        self.enumerate(name, rule, false, cases, move |c: &C| cold_child(prop, &sub_name, c));
    }

    /// Sequential variant for cases that are individually huge / internally parallel.
    pub fn listed_seq<C, F>(&self, name: &str, rule: &str, cases: impl FnOnce() -> Vec<C>, f: F)
    where
        C: Serialize + DeserializeOwned + Hash,
        F: Fn(&C) -> CaseResult,
    {
        if !self.wants(name) {
            return;
        }
        if self.is_replay() {
            self.do_replay::<C>(name, &f);
            return;
        }
        let t0 = Instant::now();
        let sub = self.new_sub(name, false, rule);
        for c in cases() {
            if let Some(fl) = self.eval(&sub, &c, &f, true) {
                self.record_violation(&sub, &c, fl);
            }
        }
        self.progress(&sub, t0);
    }

    /// Generated search: `n` cases from `strat`, in parallel batches with derived seeds,
    /// shrinking on failure.
    pub fn generated<C, S, F>(&self, name: &str, rule: &str, n: u64, strat: impl Fn() -> S + Sync, f: F)
    where
        C: Serialize + DeserializeOwned + Hash + Debug + Clone + Send,
        S: Strategy<Value = C>,
        F: Fn(&C) -> CaseResult + Sync,
    {
        if !self.wants(name) {
            return;
        }
        if self.is_replay() {
            self.do_replay::<C>(name, &f);
            return;
        }
        let t0 = Instant::now();
        let sub = self.new_sub(name, false, rule);
        let threads = rayon::current_num_threads() as u64;
        let batches = (threads * 4).min(n.max(1));
        let per = n / batches;
        let rem = n % batches;
        // shrinking budget: about 60 s of single-threaded case evaluations per distinct failure signature (set after phase 1 from the measured cost)
        let shrink_iters = std::sync::atomic::AtomicU32::new(1500);
        let config = |b: u64, shrink: bool| {
            let mut cfg = Config::default();
            cfg.cases = (per + if b < rem { 1 } else { 0 }) as u32;
            cfg.failure_persistence = None;
            cfg.rng_algorithm = RngAlgorithm::ChaCha;
            cfg.rng_seed = RngSeed::Fixed(derive_seed(self.seed, self.prop, name, b));
            cfg.max_shrink_iters = if shrink { shrink_iters.load(Ordering::Relaxed) } else { 0 };
            cfg.max_shrink_time = 0;
            cfg.verbose = 0;
            cfg.source_file = None;
            cfg
        };
        // phase 1: search, no shrinking; every batch is a pure function of (seed, sub-check, batch index)
        let found: Vec<Option<(u64, C, Fail)>> = (0..batches)
            .into_par_iter()
            .map(|b| {
                let cfg = config(b, false);
                if cfg.cases == 0 {
                    return None;
                }
                let mut runner = TestRunner::new(cfg);
                let first: Mutex<Option<(C, Fail)>> = Mutex::new(None);
                let res = runner.run(&strat(), |case| {
                    if first.lock().unwrap().is_some() {
                        return Ok(()); // after the first failure nothing is counted or evaluated
                    }
                    match self.eval(&sub, &case, &f, true) {
                        None => Ok(()),
                        Some(fl) => {
                            *first.lock().unwrap() = Some((case.clone(), fl.clone()));
                            Err(TestCaseError::fail(fl.key))
                        }
                    }
                });
                if let Err(TestError::Abort(r)) = &res {
                    println!("NOTE sub={} batch={} aborted: {}", name, b, r);
                }
                first.into_inner().unwrap().map(|(c, fl)| (b, c, fl))
            })
            .collect();
        {
            let evals = sub.evaluations.load(Ordering::Relaxed).max(1) as f64;
            let per_case = t0.elapsed().as_secs_f64() * threads as f64 / evals;
            shrink_iters.store(((60.0 / per_case.max(1e-6)) as u64).clamp(40, 1500) as u32, Ordering::Relaxed);
        }
        // phase 2: for every distinct failure signature, shrink in the lowest-numbered batch that showed it
        let mut by_key: BTreeMap<String, (u64, C, Fail)> = BTreeMap::new();
        for (b, c, fl) in found.into_iter().flatten() {
            let e = by_key.entry(fl.key.clone());
            match e {
                std::collections::btree_map::Entry::Vacant(v) => {
                    v.insert((b, c, fl));
                }
                std::collections::btree_map::Entry::Occupied(mut o) => {
                    sub.extra_violations.fetch_add(1, Ordering::Relaxed);
                    if b < o.get().0 {
                        o.insert((b, c, fl));
                    }
                }
            }
        }
        let shrunk: Vec<(C, Fail)> = by_key
            .into_par_iter()
            .map(|(key, (b, orig_case, orig_fail))| {
                let mut runner = TestRunner::new(config(b, true));
                let res = runner.run(&strat(), |case| match self.eval(&sub, &case, &f, false) {
                    Some(fl) if fl.key == key => Err(TestCaseError::fail(fl.key)),
                    _ => Ok(()),
                });
                match res {
                    Err(TestError::Fail(_, small)) => match self.eval(&sub, &small, &f, false) {
                        Some(fl) if fl.key == key => (small, fl),
                        _ => (orig_case, Fail { key: orig_fail.key, detail: format!("{} [not reproducible from the case alone: the check involves the library's own RNG]", orig_fail.detail) }),
                    },
                    _ => (orig_case, Fail { key: orig_fail.key, detail: format!("{} [did not reproduce in the shrinking pass: the check involves the library's own RNG]", orig_fail.detail) }),
                }
            })
            .collect();
        for (c, fl) in shrunk {
            self.record_violation(&sub, &c, fl);
        }
        self.progress(&sub, t0);
    }

    fn progress(&self, sub: &Sub, t0: Instant) {
        if std::env::var("VERIF_VERBOSE").is_ok() {
            eprintln!(
                "[{}] {:<34} evals={:<9} nt={:<8} known={:<5} {:.1}s",
                self.prop,
                sub.name,
                sub.evaluations.load(Ordering::Relaxed),
                sub.distinct_nt.lock().unwrap().len(),
                sub.excluded_known.load(Ordering::Relaxed),
                t0.elapsed().as_secs_f64()
            );
        }
    }

    pub fn violations(&self) -> usize {
        self.violations.lock().unwrap().len()
    }

    /// Write evidence, print KNOWN-FINDING lines, return the exit code.
    pub fn finish(&self) -> i32 {
        // known findings: one line per open finding of this property that was hit
        let hits = self.known_hits.lock().unwrap().clone();
        for (key, n) in &hits {
            let what = self.known.describe(self.prop, key);
            println!(
                "KNOWN-FINDING: property={} {} [key={} cases={}]",
                self.prop, what, key, n
            );
        }
        let subs = self.subs.lock().unwrap();
        let mut evaluations = 0u64;
        let mut nt = 0u64;
        let mut samples: Vec<Value> = Vec::new();
        let mut sub_json = Vec::new();
        let mut exhaustive_subspaces = Vec::new();
        let mut excluded = 0u64;
        for s in subs.iter() {
            evaluations += s.evaluations.load(Ordering::Relaxed);
            nt += s.distinct_nt.lock().unwrap().len() as u64;
            excluded += s.excluded_known.load(Ordering::Relaxed);
            if s.exhaustive {
                exhaustive_subspaces.push(format!("{}: {}", s.name, s.rule));
            }
            for (_, v) in s.samples.lock().unwrap().iter().take(2) {
                samples.push(json!({"sub": s.name, "case": v}));
            }
            sub_json.push(s.to_json());
        }
        let viol = self.violations.lock().unwrap();
        let mut coverage = json!({
            "evaluations": evaluations,
            "distinct_nontrivial": nt,
            "rule": *self.rule.lock().unwrap(),
            "samples": samples,
            "exhaustive": false,
            "exhaustive_subspaces": exhaustive_subspaces,
            "subchecks": sub_json,
            "excluded_known": excluded,
            "known_findings_hit": hits,
            "violation_records": viol.iter().map(|v| json!({"sub": v.sub, "key": v.key, "replay": v.replay_path})).collect::<Vec<_>>(),
        });
        for (k, v) in self.extra.lock().unwrap().iter() {
            coverage[k] = v.clone();
        }
        let ev = json!({
            "property_id": self.prop,
            "tier": self.tier.name(),
            "seed": self.seed,
            "level": "exploration",
            "coverage": coverage,
            "assumptions": *self.assumptions.lock().unwrap(),
            "wall_s": (self.start.elapsed().as_secs_f64() * 100.0).round() / 100.0,
            "violations": viol.len(),
        });
        let dir = PathBuf::from(VERIF_ROOT).join("evidence");
        let _ = std::fs::create_dir_all(&dir);
        let path = dir.join(format!("{}.json", self.prop));
        std::fs::write(&path, serde_json::to_string_pretty(&ev).unwrap()).expect("write evidence");
        println!(
            "RESULT property={} tier={} seed={} evaluations={} distinct_nontrivial={} excluded_known={} violations={} wall_s={:.1}",
            self.prop,
            self.tier.name(),
            self.seed,
            evaluations,
            nt,
            excluded,
            viol.len(),
            self.start.elapsed().as_secs_f64()
        );
        if !viol.is_empty() {
            1
        } else if self.harness_errors.load(Ordering::Relaxed) > 0 {
            2
        } else {
            0
        }
    }
}

pub fn truncate_str(s: &str, n: usize) -> String {
    if s.len() <= n {
        s.to_string()
    } else {
        let mut end = n;
        while !s.is_char_boundary(end) {
            end -= 1;
        }
        format!("{}…", &s[..end])
    }
}

/// Watchdog: a wall-clock backstop. Expiry is "inconclusive" (exit 2), never a violation.
pub fn start_watchdog(secs: u64, prop: &'static str) {
    std::thread::spawn(move || {
        std::thread::sleep(std::time::Duration::from_secs(secs));
        println!(
            "INCONCLUSIVE property={} watchdog expired after {} s (hang or budget exceeded); not a violation",
            prop, secs
        );
        std::process::exit(2);
    });
}

/// Run one case of `sub` in a fresh process and translate the child's report back into a CaseResult.
fn cold_child<C: Serialize>(prop: &str, sub: &str, case: &C) -> CaseResult {
    use std::sync::atomic::AtomicU64;
    static N: AtomicU64 = AtomicU64::new(0);
    let doc = json!({ "property": prop, "sub": sub, "case": serde_json::to_value(case).unwrap_or(Value::Null) });
    let path = std::env::temp_dir().join(format!("gmverif-cold-{}-{}.json", std::process::id(), N.fetch_add(1, Ordering::Relaxed)));
    let harness_err = |what: String| Err(Fail { key: "harness-cold-start-child-error".into(), detail: what });
    if let Err(e) = std::fs::write(&path, doc.to_string()) {
        return harness_err(format!("cannot write {}: {}", path.display(), e));
    }
    // /proc/self/exe names the running image itself, so the child is this very build even if the file on disk was replaced meanwhile
    let exe = if std::path::Path::new("/proc/self/exe").exists() {
        std::path::PathBuf::from("/proc/self/exe")
    } else {
        match std::env::current_exe() {
            Ok(e) => e,
            Err(e) => return harness_err(format!("current_exe: {}", e)),
        }
    };
    let out = std::process::Command::new(exe).arg("replay").arg(&path).env("VERIF_COLD_CHILD", "1").output();
    let _ = std::fs::remove_file(&path);
    let out = match out {
        Ok(o) => o,
        Err(e) => return harness_err(format!("spawn: {}", e)),
    };
    let text = String::from_utf8_lossy(&out.stdout).to_string();
    match out.status.code() {
        Some(0) => {
            let class = text.lines().find_map(|l| l.split(" class=").nth(1)).unwrap_or("known-finding").to_string();
            let nt = !text.contains(" nt=false");
            Ok(Pass { nt, class: format!("cold/{}", class) })
        }
        Some(1) => {
            let key = text.lines().find_map(|l| l.split_once(" key=").filter(|_| l.trim_start().starts_with("sub=")).map(|(_, k)| k.to_string())).unwrap_or_else(|| "unparsed".into());
            let detail = text.lines().find_map(|l| l.trim_start().strip_prefix("detail=")).unwrap_or("").to_string();
            Err(Fail { key: format!("{} input=first-call-of-a-fresh-process", key), detail: format!("in a fresh process: {}", detail) })
        }
        code => harness_err(format!("child exit {:?}: {} {}", code, truncate_str(&text, 600), truncate_str(&String::from_utf8_lossy(&out.stderr), 600))),
    }
}
