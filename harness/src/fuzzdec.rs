//! Byte-level fuzz targets: the fuzzer's bytes are decoded into structured cases (arbitrary::Unstructured)
//! and handed to the same check functions the property engine uses, so the semantic oracle lives inside
//! the target. `run_target` is shared by the libFuzzer binaries (fuzz/fuzz_targets/*.rs) and by
//! `gmverif fuzz-replay <target> <file>`.

use arbitrary::Unstructured;

use crate::engine::*;
use crate::props::*;

pub const TARGETS: &[(&str, &str)] = &[
    ("c01_sm3", "C01"),
    ("c02_sm4_block", "C02"),
    ("c04_sm2_verify", "C04"),
    ("c06_sm2_decrypt", "C06"),
    ("c07_sm4_modes", "C07"),
    ("c08_zuc_split", "C08"),
    ("c10_sm9_decrypt", "C10"),
    ("c18_eea_eia", "C18"),
    ("c19_decoders", "C19"),
    ("c20_entries", "C20"),
];

pub fn property_of(target: &str) -> Option<&'static str> {
    TARGETS.iter().find(|t| t.0 == target).map(|t| t.1)
}

fn bytes16(u: &mut Unstructured) -> Hex {
    let mut b = [0u8; 16];
    let _ = u.fill_buffer(&mut b);
    Hex(b.to_vec())
}

fn fixed_sm2_base(sel: u8) -> c04::Base {
    c04::Base { d: Hex(expand_bytes(0xf0 + (sel % 3) as u64, 32)), id: (sel as usize / 3) % 4, msg_len: [0usize, 5, 64, 100][(sel % 4) as usize], msg_seed: sel as u64 % 4, k: Hex(expand_bytes(0xf8 + (sel % 4) as u64, 32)) }
}

fn fixed_sm2_ct_base(sel: u8) -> c06::Base {
    c06::Base { d: Hex(expand_bytes(0xe0 + (sel % 2) as u64, 32)), msg_len: [1usize, 16, 33, 64][(sel as usize / 4) % 4], msg_seed: 7, compressed: sel & 1 == 1, c1c3c2: sel & 2 == 2, k: Hex(expand_bytes(0xe8, 32)) }
}

fn multi_from(a: u32, b: u8) -> crate::props::multi::Multi {
    use crate::props::multi::Multi;
    let (i, j, m) = ((a >> 8) as u8, (a >> 16) as u8, (a >> 24) as u8);
    match a % 9 {
        0 => Multi::XorPair(i, j, if m == 0 { 1 } else { m }),
        1 => Multi::AddSub(i, j, if m == 0 { 1 } else { m }),
        2 => Multi::Rotate(i),
        3 => Multi::Shuffle(i % 6),
        4 => Multi::Random(a as u64 ^ ((b as u64) << 32)),
        5 => Multi::Complement,
        6 => Multi::Fill(i),
        7 => Multi::KeepPrefix(i),
        _ => Multi::KeepSuffix(i),
    }
}

/// Decode and check one fuzz input. Ok(()) also for inputs that decode to nothing useful.
pub fn run_target(target: &str, data: &[u8]) -> Result<(), Fail> {
    let mut u = Unstructured::new(data);
    let r: CaseResult = match target {
        "c01_sm3" => {
            let want = crate::refimpl::sm3::sm3(data);
            match catch(|| gm_sm3::sm3_hash(data)) {
                Ok(d) if d == want => pass(true, "fuzz"),
                Ok(d) => fail("entry=sm3_hash outcome=wrong-digest", format!("len={} library={} reference={}", data.len(), hex::encode(d), hex::encode(want))),
                Err(p) => fail("entry=sm3_hash outcome=panic", p),
            }
        }
        "c02_sm4_block" => c02::check_kb(&c02::KB { key: bytes16(&mut u), block: bytes16(&mut u) }),
        "c04_sm2_verify" => {
            let sel: u8 = u.arbitrary().unwrap_or(0);
            let kind: u8 = u.arbitrary().unwrap_or(0);
            let a: u16 = u.arbitrary().unwrap_or(0);
            let b: u8 = u.arbitrary().unwrap_or(0);
            let tamper = match kind % 14 {
                12 => c04::Tamper::AltEncoding(b % 12),
                13 => c04::Tamper::DisplacedR(b % 32),
                11 => c04::Tamper::Multi(b, multi_from((a as u32).wrapping_mul(65537).wrapping_add(b as u32), b)),
                0 => c04::Tamper::FlipBit(a % 512),
                1 => c04::Tamper::SetComponent(b % 2, (a % 8) as u8),
                2 => c04::Tamper::SEqualsNMinusR,
                3 => c04::Tamper::SwapRS,
                4 => c04::Tamper::MsgFlipBit(a as u32),
                5 => c04::Tamper::MsgExtend(b),
                6 => c04::Tamper::OtherId(b),
                7 => c04::Tamper::KeyNeg,
                8 => c04::Tamper::KeyOther(a as u64),
                9 => c04::Tamper::Length((a % 131) as u8, b % 3),
                10 => c04::Tamper::RandomRS(a as u64 * 256 + b as u64),
                _ => c04::Tamper::None,
            };
            c04::check(&c04::Case { base: fixed_sm2_base(sel), tamper })
        }
        "c06_sm2_decrypt" => {
            // selector byte, then the ciphertext bytes themselves: the fuzzer mutates real ciphertexts from the seed corpus
            let sel: u8 = u.arbitrary().unwrap_or(0);
            let kind: u8 = u.arbitrary().unwrap_or(0);
            let a: u32 = u.arbitrary().unwrap_or(0);
            let b: u8 = u.arbitrary().unwrap_or(0);
            let tamper = match kind % 12 {
                11 => c06::Tamper::C1NearCurveForged(a as u16),
                9 => c06::Tamper::Multi(b, multi_from(a, b)),
                0 => c06::Tamper::FlipBit(a),
                1 => c06::Tamper::Truncate(a as u16),
                2 => c06::Tamper::Extend(b, a as u8),
                3 => c06::Tamper::C1OffCurveForged(a as u64),
                4 => c06::Tamper::C1Nudged(b % 8),
                5 => c06::Tamper::C1NonResidue(a as u64),
                6 => c06::Tamper::C1XPlusP(b % 16),
                7 => c06::Tamper::Prefix(b),
                8 => c06::Tamper::WrongKind,
                _ => c06::Tamper::None,
            };
            c06::check(&c06::Case { base: fixed_sm2_ct_base(sel), tamper })
        }
        "c07_sm4_modes" => {
            let mode: u8 = u.arbitrary().unwrap_or(0);
            let dir: bool = u.arbitrary().unwrap_or(false);
            let (key, iv) = (bytes16(&mut u), bytes16(&mut u));
            let case = c07::MC { mode, key, iv, data: Hex(u.take_rest().to_vec()) };
            if dir {
                c07::check_valid(&case)
            } else {
                c07::check_decrypt_any(&case)
            }
        }
        "c08_zuc_split" => {
            let (key, iv) = (bytes16(&mut u), bytes16(&mut u));
            let requests: Vec<u32> = u.take_rest().iter().take(48).map(|b| (*b % 40) as u32).collect();
            c08::check_split(&c08::Split { key, iv, requests })
        }
        "c10_sm9_decrypt" => {
            let kind: u8 = u.arbitrary().unwrap_or(0);
            let a: u32 = u.arbitrary().unwrap_or(0);
            let b: u8 = u.arbitrary().unwrap_or(0);
            let tamper = match kind % 9 {
                7 => c10::Tamper::Multi(b, multi_from(a, b)),
                0 => c10::Tamper::FlipBit(a),
                1 => c10::Tamper::Truncate(a as u16),
                2 => c10::Tamper::Extend(a as u16, b),
                3 => c10::Tamper::C1OffCurveForged(a as u64),
                4 => c10::Tamper::Prefix(b),
                5 => c10::Tamper::C1Nudged,
                6 => c10::Tamper::C1XPlusP,
                _ => c10::Tamper::OtherIdentity,
            };
            let base = c10::Base { ke: Hex(vec![0; 32]), ke_rel: 0, id_len: 3, id_seed: 5, msg_len: 1 + (b as usize % 40), msg_seed: b as u64 % 4, r: Hex(expand_bytes(b as u64 % 4, 32)) };
            c10::check_tamper(&c10::TCase { base, tamper })
        }
        "c18_eea_eia" => {
            let which: bool = u.arbitrary().unwrap_or(false);
            let key = bytes16(&mut u);
            let count: u32 = u.arbitrary().unwrap_or(0);
            let bearer: u8 = u.arbitrary().unwrap_or(0);
            let length: u16 = u.arbitrary().unwrap_or(1);
            let seed: u64 = u.arbitrary().unwrap_or(0);
            // the remaining bytes are the leading message words themselves, so that the fuzzer controls message content
            let explicit: Vec<u32> = u.take_rest().chunks(4).filter(|c| c.len() == 4).take(128).map(|c| u32::from_be_bytes([c[0], c[1], c[2], c[3]])).collect();
            let case = c18::EC { key, count, bearer: (bearer % 32) as u32, direction: (bearer >> 7) as u32, length: (length % 4096) as u32 + if which { 1 } else { 0 }, seed, surplus: bearer % 3, content: (seed >> 56) as u8, explicit };
            if which {
                c18::check_eea(&case)
            } else {
                c18::check_eia(&case)
            }
        }
        "c19_decoders" => {
            let sel: u8 = u.arbitrary().unwrap_or(0);
            let rest = u.take_rest().to_vec();
            match sel % 3 {
                0 => c19::check_point_bytes(&c19::PointBytes { bytes: Hex(rest) }),
                1 => c19::check_sk_bytes(&c19::SkBytes { bytes: Hex(rest) }),
                _ => {
                    // raw bytes straight into the DER / PEM decoders: no panic; what is accepted is a valid key
                    c20::check_call(&c20::Call { entry: ["sm2.pk.from_public_key_der", "sm2.sk.from_pkcs8_der", "sm2.decrypt_asn1", "sm2.pk.from_public_key_pem"][(sel as usize / 3) % 4].to_string(), input: Hex(rest) })
                }
            }
        }
        "c20_entries" => {
            let sel: u8 = u.arbitrary().unwrap_or(0);
            c20::check_call(&c20::Call { entry: c20::ENTRIES[sel as usize % c20::ENTRIES.len()].to_string(), input: Hex(u.take_rest().to_vec()) })
        }
        _ => fail("unknown-target", target.to_string()),
    };
    r.map(|_| ())
}

/// Seed inputs for a target's corpus directory (valid artefacts behind the selector bytes).
pub fn seed_corpus(target: &str) -> Vec<Vec<u8>> {
    let mut v: Vec<Vec<u8>> = vec![vec![], vec![0u8; 64], expand_bytes(1, 200)];
    match target {
        "c20_entries" => {
            for (i, e) in c20::ENTRIES.iter().enumerate() {
                if let Some(good) = c20::valid_artefact(e) {
                    let mut b = vec![i as u8];
                    b.extend_from_slice(&good);
                    v.push(b);
                }
                v.push(vec![i as u8; 17]);
            }
        }
        "c19_decoders" => {
            for (sel, e) in [(2u8, "sm2.pk.from_public_key_der"), (5, "sm2.sk.from_pkcs8_der"), (8, "sm2.decrypt_asn1"), (11, "sm2.pk.from_public_key_pem"), (0, "sm2.pk.new"), (1, "sm2.sk.new")] {
                if let Some(good) = c20::valid_artefact(e) {
                    let mut b = vec![sel];
                    b.extend_from_slice(&good);
                    v.push(b);
                }
            }
        }
        "c07_sm4_modes" => {
            for m in 0..4u8 {
                for dir in 0..2u8 {
                    let mut b = vec![m, dir];
                    b.extend_from_slice(&expand_bytes(m as u64, 32 + 48));
                    v.push(b);
                }
            }
        }
        _ => {
            for i in 0..8u64 {
                v.push(expand_bytes(i, 8 + 16 * i as usize));
            }
        }
    }
    v
}
