//! Reference prime-field and quadratic-extension arithmetic on `num-bigint` integers.
//! No Montgomery form, no limbs: values are canonical residues.

use num_bigint::{BigInt, BigUint, Sign};
use num_traits::{One, Zero};
use std::fmt::Debug;

pub fn big(hex_str: &str) -> BigUint {
    BigUint::parse_bytes(hex_str.replace([' ', '_'], "").as_bytes(), 16).expect("hex")
}

pub fn to32(v: &BigUint) -> [u8; 32] {
    let b = v.to_bytes_be();
    assert!(b.len() <= 32, "value does not fit in 32 bytes");
    let mut o = [0u8; 32];
    o[32 - b.len()..].copy_from_slice(&b);
    o
}

pub fn from_be(b: &[u8]) -> BigUint {
    BigUint::from_bytes_be(b)
}

/// little-endian 64-bit limbs (the library's U256 layout)
pub fn to_limbs(v: &BigUint) -> [u64; 4] {
    let d = v.to_u64_digits();
    assert!(d.len() <= 4);
    let mut o = [0u64; 4];
    for (i, x) in d.iter().enumerate() {
        o[i] = *x;
    }
    o
}

pub fn from_limbs(l: &[u64]) -> BigUint {
    let mut v = BigUint::zero();
    for x in l.iter().rev() {
        v = (v << 64) + BigUint::from(*x);
    }
    v
}

/// modular inverse by the extended Euclidean algorithm; None for 0 (or non-coprime)
pub fn mod_inv(a: &BigUint, m: &BigUint) -> Option<BigUint> {
    let a = a % m;
    if a.is_zero() {
        return None;
    }
    let (mut r0, mut r1) = (BigInt::from_biguint(Sign::Plus, m.clone()), BigInt::from_biguint(Sign::Plus, a));
    let (mut t0, mut t1) = (BigInt::zero(), BigInt::one());
    while !r1.is_zero() {
        let q = &r0 / &r1;
        let r2 = &r0 - &q * &r1;
        let t2 = &t0 - &q * &t1;
        r0 = r1;
        r1 = r2;
        t0 = t1;
        t1 = t2;
    }
    if !r0.is_one() {
        return None;
    }
    let mm = BigInt::from_biguint(Sign::Plus, m.clone());
    let t = ((t0 % &mm) + &mm) % &mm;
    Some(t.to_biguint().unwrap())
}

/// Field interface used by the generic curve code.
pub trait Fld: Clone + PartialEq + Debug + Send + Sync {
    fn add(&self, o: &Self) -> Self;
    fn sub(&self, o: &Self) -> Self;
    fn mul(&self, o: &Self) -> Self;
    fn neg(&self) -> Self;
    fn inv(&self) -> Option<Self>;
    fn is_zero(&self) -> bool;
    fn from_u64_like(&self, v: u64) -> Self;
    fn sqr(&self) -> Self {
        self.mul(self)
    }
}

#[derive(Clone, PartialEq, Eq)]
pub struct Fp {
    pub v: BigUint,
    pub p: &'static BigUint,
}

impl Debug for Fp {
    fn fmt(&self, f: &mut std::fmt::Formatter<'_>) -> std::fmt::Result {
        write!(f, "{:064x}", self.v)
    }
}

impl Fp {
    pub fn new(v: BigUint, p: &'static BigUint) -> Fp {
        Fp { v: v % p, p }
    }
    pub fn pow(&self, e: &BigUint) -> Fp {
        Fp { v: self.v.modpow(e, self.p), p: self.p }
    }
    pub fn bytes(&self) -> [u8; 32] {
        to32(&self.v)
    }
    /// square root for any odd prime (Tonelli-Shanks); None if not a residue
    pub fn sqrt_any(&self) -> Option<Fp> {
        use num_traits::Zero;
        let one = BigUint::one();
        if self.v.is_zero() {
            return Some(self.clone());
        }
        let pm1 = self.p - &one;
        if self.pow(&(&pm1 >> 1)).v != one {
            return None;
        }
        let mut q = pm1.clone();
        let mut s = 0u32;
        while !q.bit(0) {
            q >>= 1;
            s += 1;
        }
        // a non-residue
        let mut z = Fp { v: BigUint::from(2u32), p: self.p };
        while z.pow(&(&pm1 >> 1)).v == one {
            z = Fp { v: &z.v + &one, p: self.p };
        }
        let mut m = s;
        let mut c = z.pow(&q);
        let mut t = self.pow(&q);
        let mut r = self.pow(&((&q + &one) >> 1));
        while t.v != one {
            let mut i = 0u32;
            let mut t2 = t.clone();
            while t2.v != one {
                t2 = t2.sqr();
                i += 1;
            }
            let mut b = c.clone();
            for _ in 0..(m - i - 1) {
                b = b.sqr();
            }
            m = i;
            c = b.sqr();
            t = t.mul(&c);
            r = r.mul(&b);
        }
        if r.sqr() == *self {
            Some(r)
        } else {
            None
        }
    }
    /// square root for p = 3 (mod 4); None if not a residue
    pub fn sqrt_3mod4(&self) -> Option<Fp> {
        let e = (self.p + BigUint::one()) >> 2;
        let r = self.pow(&e);
        if r.sqr() == *self {
            Some(r)
        } else {
            None
        }
    }
}

impl Fld for Fp {
    fn add(&self, o: &Fp) -> Fp {
        Fp { v: (&self.v + &o.v) % self.p, p: self.p }
    }
    fn sub(&self, o: &Fp) -> Fp {
        Fp { v: (&self.v + self.p - &o.v) % self.p, p: self.p }
    }
    fn mul(&self, o: &Fp) -> Fp {
        Fp { v: (&self.v * &o.v) % self.p, p: self.p }
    }
    fn neg(&self) -> Fp {
        Fp { v: (self.p - &self.v) % self.p, p: self.p }
    }
    fn inv(&self) -> Option<Fp> {
        mod_inv(&self.v, self.p).map(|v| Fp { v, p: self.p })
    }
    fn is_zero(&self) -> bool {
        self.v.is_zero()
    }
    fn from_u64_like(&self, v: u64) -> Fp {
        Fp::new(BigUint::from(v), self.p)
    }
}

/// Fp2 = Fp[u] / (u^2 + 2)   (the SM9 quadratic extension): element c0 + c1*u
#[derive(Clone, PartialEq, Eq)]
pub struct Fp2 {
    pub c0: Fp,
    pub c1: Fp,
}

impl Debug for Fp2 {
    fn fmt(&self, f: &mut std::fmt::Formatter<'_>) -> std::fmt::Result {
        write!(f, "({:?} + {:?}u)", self.c0, self.c1)
    }
}

impl Fld for Fp2 {
    fn add(&self, o: &Fp2) -> Fp2 {
        Fp2 { c0: self.c0.add(&o.c0), c1: self.c1.add(&o.c1) }
    }
    fn sub(&self, o: &Fp2) -> Fp2 {
        Fp2 { c0: self.c0.sub(&o.c0), c1: self.c1.sub(&o.c1) }
    }
    fn mul(&self, o: &Fp2) -> Fp2 {
        // (a0 + a1 u)(b0 + b1 u) = a0 b0 - 2 a1 b1 + (a0 b1 + a1 b0) u
        let two = self.c0.from_u64_like(2);
        Fp2 {
            c0: self.c0.mul(&o.c0).sub(&two.mul(&self.c1.mul(&o.c1))),
            c1: self.c0.mul(&o.c1).add(&self.c1.mul(&o.c0)),
        }
    }
    fn neg(&self) -> Fp2 {
        Fp2 { c0: self.c0.neg(), c1: self.c1.neg() }
    }
    fn inv(&self) -> Option<Fp2> {
        // 1/(a0 + a1 u) = (a0 - a1 u) / (a0^2 + 2 a1^2)
        let two = self.c0.from_u64_like(2);
        let n = self.c0.sqr().add(&two.mul(&self.c1.sqr()));
        let ni = n.inv()?;
        Some(Fp2 { c0: self.c0.mul(&ni), c1: self.c1.neg().mul(&ni) })
    }
    fn is_zero(&self) -> bool {
        self.c0.is_zero() && self.c1.is_zero()
    }
    fn from_u64_like(&self, v: u64) -> Fp2 {
        Fp2 { c0: self.c0.from_u64_like(v), c1: self.c0.from_u64_like(0) }
    }
}

impl Fp2 {
    /// 64 bytes in the standard's order: higher coefficient first (c1 || c0)
    pub fn bytes(&self) -> [u8; 64] {
        let mut o = [0u8; 64];
        o[..32].copy_from_slice(&self.c1.bytes());
        o[32..].copy_from_slice(&self.c0.bytes());
        o
    }
}
