//! Independent reference implementations, written from the standards' text.
pub mod der;
pub mod ec;
pub mod field;
pub mod sm2;
pub mod sm3;
pub mod sm4;
pub mod sm9;
pub mod zuc;

pub fn self_test_all() -> Result<usize, String> {
    let mut n = 0;
    sm3::self_test()?;
    n += 3;
    sm4::self_test()?;
    n += 4;
    zuc::self_test()?;
    n += 9;
    sm2::self_test()?;
    n += 9;
    der::self_test()?;
    n += 12;
    sm9::self_test()?;
    n += 14;
    Ok(n)
}

/// Self-tests needed before property `prop` is believed.
pub fn self_test_for(prop: &str) -> Result<(), String> {
    sm3::self_test()?;
    if matches!(prop, "C02" | "C07" | "C20") {
        sm4::self_test()?;
    }
    if matches!(prop, "C03" | "C04" | "C05" | "C06" | "C11" | "C14" | "C15" | "C19" | "C20") {
        sm2::self_test()?;
    }
    if matches!(prop, "C09" | "C10" | "C12" | "C13" | "C14" | "C16" | "C17" | "C20") {
        sm9::self_test()?;
    }
    if matches!(prop, "C19" | "C20") {
        der::self_test()?;
    }
    if matches!(prop, "C08" | "C18" | "C20") {
        zuc::self_test()?;
    }
    Ok(())
}
