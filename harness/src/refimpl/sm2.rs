//! Reference SM2 (GB/T 32918.2/.3/.4) on the affine big-integer curve: ZA, signature,
//! verification, public-key encryption, decryption and key agreement, step by step from the standard.

use super::ec::{Curve, Pt};
use super::field::{big, from_be, mod_inv, to32, Fld, Fp};
use super::sm3::{kdf, sm3, sm3_parts};
use num_bigint::BigUint;
use num_traits::{One, Zero};
use std::sync::OnceLock;

pub struct Params {
    pub p: &'static BigUint,
    pub n: BigUint,
    pub a: BigUint,
    pub b: BigUint,
    pub gx: BigUint,
    pub gy: BigUint,
    pub curve: Curve<Fp>,
    pub g: Pt<Fp>,
}

pub fn p_static() -> &'static BigUint {
    static P: OnceLock<BigUint> = OnceLock::new();
    P.get_or_init(|| big("FFFFFFFE FFFFFFFF FFFFFFFF FFFFFFFF FFFFFFFF 00000000 FFFFFFFF FFFFFFFF"))
}

pub fn params() -> &'static Params {
    static PR: OnceLock<Params> = OnceLock::new();
    PR.get_or_init(|| {
        let p = p_static();
        let a = p - BigUint::from(3u32);
        let b = big("28E9FA9E 9D9F5E34 4D5A9E4B CF6509A7 F39789F5 15AB8F92 DDBCBD41 4D940E93");
        let gx = big("32C4AE2C 1F198119 5F990446 6A39C994 8FE30BBF F2660BE1 715A4589 334C74C7");
        let gy = big("BC3736A2 F4F6779C 59BDCEE3 6B692153 D0A9877C C62A4740 02DF32E5 2139F0A0");
        Params {
            p,
            n: big("FFFFFFFE FFFFFFFF FFFFFFFF FFFFFFFF 7203DF6B 21C6052B 53BBF409 39D54123"),
            curve: Curve { a: Fp::new(a.clone(), p), b: Fp::new(b.clone(), p) },
            g: Some((Fp::new(gx.clone(), p), Fp::new(gy.clone(), p))),
            a,
            b,
            gx,
            gy,
        }
    })
}

pub fn fp(v: &BigUint) -> Fp {
    Fp::new(v.clone(), p_static())
}

pub fn pt(x: &BigUint, y: &BigUint) -> Pt<Fp> {
    Some((fp(x), fp(y)))
}

/// [k]G: additions of cached [2^i]G (still the affine law; the cache only removes the doublings).
pub fn g_mul(k: &BigUint) -> Pt<Fp> {
    static POW: OnceLock<Vec<Pt<Fp>>> = OnceLock::new();
    let pr = params();
    let pow = POW.get_or_init(|| {
        let mut v = Vec::with_capacity(256);
        let mut q = pr.g.clone();
        for _ in 0..256 {
            v.push(q.clone());
            q = pr.curve.dbl(&q);
        }
        v
    });
    if k.bits() > 256 {
        return pr.curve.mul(k, &pr.g);
    }
    let mut r: Pt<Fp> = None;
    for i in 0..k.bits() {
        if k.bit(i) {
            r = pr.curve.add(&r, &pow[i as usize]);
        }
    }
    r
}

/// [k]G by plain double-and-add (used by the self-test to cross-check the cached variant)
pub fn g_mul_plain(k: &BigUint) -> Pt<Fp> {
    let pr = params();
    pr.curve.mul(k, &pr.g)
}

pub fn xy(p: &Pt<Fp>) -> Option<([u8; 32], [u8; 32])> {
    p.as_ref().map(|(x, y)| (x.bytes(), y.bytes()))
}

/// 04 || x || y
pub fn encode_uncompressed(p: &Pt<Fp>) -> Vec<u8> {
    let (x, y) = xy(p).expect("finite point");
    let mut v = vec![4u8];
    v.extend_from_slice(&x);
    v.extend_from_slice(&y);
    v
}

pub fn encode_compressed(p: &Pt<Fp>) -> Vec<u8> {
    let (x, y) = xy(p).expect("finite point");
    let mut v = vec![2 | (y[31] & 1)];
    v.extend_from_slice(&x);
    v
}

/// Strict SEC1 decoding with full validation: prefix, length, coordinates < p, on curve.
pub fn decode_point(b: &[u8]) -> Option<Pt<Fp>> {
    let pr = params();
    match b.first()? {
        4 if b.len() == 65 => {
            let (x, y) = (from_be(&b[1..33]), from_be(&b[33..65]));
            if &x >= pr.p || &y >= pr.p {
                return None;
            }
            let q = pt(&x, &y);
            if pr.curve.on_curve(&q) {
                Some(q)
            } else {
                None
            }
        }
        t @ (2 | 3) if b.len() == 33 => {
            let x = from_be(&b[1..33]);
            if &x >= pr.p {
                return None;
            }
            let xf = fp(&x);
            let rhs = xf.sqr().mul(&xf).add(&pr.curve.a.mul(&xf)).add(&pr.curve.b);
            let mut y = rhs.sqrt_3mod4()?;
            if y.v.bit(0) != (*t == 3) {
                y = y.neg();
            }
            Some(Some((xf, y)))
        }
        _ => None,
    }
}

pub fn za(id: &[u8], pk: &Pt<Fp>) -> [u8; 32] {
    let pr = params();
    let (x, y) = xy(pk).expect("finite public key");
    let entl = ((id.len() * 8) as u16).to_be_bytes();
    sm3_parts(&[&entl, id, &to32(&pr.a), &to32(&pr.b), &to32(&pr.gx), &to32(&pr.gy), &x, &y])
}

pub fn digest(id: &[u8], pk: &Pt<Fp>, msg: &[u8]) -> BigUint {
    from_be(&sm3_parts(&[&za(id, pk), msg]))
}

/// GB/T 32918.2 signing with a given nonce. None = "this k must be retried" (r = 0, r + k = n or s = 0).
pub fn sign_with_k(d: &BigUint, e: &BigUint, k: &BigUint) -> Option<(BigUint, BigUint)> {
    let pr = params();
    let n = &pr.n;
    let (x1, _) = g_mul(k)?;
    let r = (e + &x1.v) % n;
    if r.is_zero() || &(&r + k) == n {
        return None;
    }
    let inv = mod_inv(&((BigUint::one() + d) % n), n)?;
    let rd = (&r * d) % n;
    let s = (&inv * ((k + n - rd) % n)) % n;
    if s.is_zero() {
        return None;
    }
    Some((r, s))
}

pub fn sign(d: &BigUint, id: &[u8], msg: &[u8], k: &BigUint) -> Option<[u8; 64]> {
    let pk = g_mul(d);
    let (r, s) = sign_with_k(d, &digest(id, &pk, msg), k)?;
    let mut o = [0u8; 64];
    o[..32].copy_from_slice(&to32(&r));
    o[32..].copy_from_slice(&to32(&s));
    Some(o)
}

/// GB/T 32918.2 verification of (r, s) given as integers.
pub fn verify_rs(pk: &Pt<Fp>, e: &BigUint, r: &BigUint, s: &BigUint) -> bool {
    let pr = params();
    let n = &pr.n;
    if r.is_zero() || s.is_zero() || r >= n || s >= n {
        return false;
    }
    let t = (r + s) % n;
    if t.is_zero() {
        return false;
    }
    let q = pr.curve.add(&g_mul(s), &pr.curve.mul(&t, pk));
    match q {
        None => false,
        Some((x1, _)) => &((e + &x1.v) % n) == r,
    }
}

/// Verification of a byte-string signature: exactly 64 bytes.
pub fn verify(pk: &Pt<Fp>, id: &[u8], msg: &[u8], sig: &[u8]) -> bool {
    if sig.len() != 64 || pk.is_none() || !params().curve.on_curve(pk) {
        return false; // a public key is a finite point of the curve (GB/T 32918.1 6.2.1)
    }
    verify_rs(pk, &digest(id, pk, msg), &from_be(&sig[..32]), &from_be(&sig[32..]))
}

pub struct Ciphertext {
    pub c1: Pt<Fp>,
    pub c2: Vec<u8>,
    pub c3: [u8; 32],
}

impl Ciphertext {
    pub fn encode(&self, compressed: bool, c1c3c2: bool) -> Vec<u8> {
        let mut v = if compressed { encode_compressed(&self.c1) } else { encode_uncompressed(&self.c1) };
        if c1c3c2 {
            v.extend_from_slice(&self.c3);
            v.extend_from_slice(&self.c2);
        } else {
            v.extend_from_slice(&self.c2);
            v.extend_from_slice(&self.c3);
        }
        v
    }
}

/// GB/T 32918.4 encryption with a given nonce. None = retry (all-zero KDF output) or invalid key.
pub fn encrypt_with_k(pk: &Pt<Fp>, msg: &[u8], k: &BigUint) -> Option<Ciphertext> {
    let pr = params();
    let c1 = g_mul(k);
    c1.as_ref()?;
    let (x2, y2) = xy(&pr.curve.mul(k, pk))?;
    let t = kdf(&[&x2[..], &y2[..]].concat(), msg.len());
    if t.iter().all(|b| *b == 0) {
        return None;
    }
    let c2: Vec<u8> = msg.iter().zip(t.iter()).map(|(a, b)| a ^ b).collect();
    let c3 = sm3_parts(&[&x2, msg, &y2]);
    Some(Ciphertext { c1, c2, c3 })
}

/// A conforming ciphertext whose C1 is a *given* curve point (an encryptor is free to end up with any point of the group):
/// the shared point is [d]C1, computed with the recipient's private key. None if C1 is not a finite curve point or the KDF output is zero.
pub fn encrypt_to_c1(d: &BigUint, c1: &Pt<Fp>, msg: &[u8]) -> Option<Ciphertext> {
    let pr = params();
    if c1.is_none() || !pr.curve.on_curve(c1) {
        return None;
    }
    let (x2, y2) = xy(&pr.curve.mul(d, c1))?;
    let t = kdf(&[&x2[..], &y2[..]].concat(), msg.len());
    if t.iter().all(|b| *b == 0) {
        return None;
    }
    let c2: Vec<u8> = msg.iter().zip(t.iter()).map(|(a, b)| a ^ b).collect();
    let c3 = sm3_parts(&[&x2, msg, &y2]);
    Some(Ciphertext { c1: c1.clone(), c2, c3 })
}

/// Split an encoded ciphertext; None if the framing is impossible (too short, bad C1).
pub fn parse_ciphertext(ct: &[u8], compressed: bool, c1c3c2: bool) -> Option<Ciphertext> {
    let c1len = if compressed { 33 } else { 65 };
    if ct.len() < c1len + 32 + 1 {
        return None;
    }
    let want_prefix_ok = if compressed { ct[0] == 2 || ct[0] == 3 } else { ct[0] == 4 };
    if !want_prefix_ok {
        return None;
    }
    let c1 = decode_point(&ct[..c1len])?;
    let (c2, c3) = if c1c3c2 {
        (ct[c1len + 32..].to_vec(), &ct[c1len..c1len + 32])
    } else {
        (ct[c1len..ct.len() - 32].to_vec(), &ct[ct.len() - 32..])
    };
    let mut h = [0u8; 32];
    h.copy_from_slice(c3);
    Some(Ciphertext { c1, c2, c3: h })
}

/// GB/T 32918.4 decryption. None = the standard says "report error".
pub fn decrypt_parts(d: &BigUint, c: &Ciphertext) -> Option<Vec<u8>> {
    let pr = params();
    if c.c1.is_none() || !pr.curve.on_curve(&c.c1) || c.c2.is_empty() {
        return None;
    }
    let (x2, y2) = xy(&pr.curve.mul(d, &c.c1))?;
    let t = kdf(&[&x2[..], &y2[..]].concat(), c.c2.len());
    if t.iter().all(|b| *b == 0) {
        return None;
    }
    let m: Vec<u8> = c.c2.iter().zip(t.iter()).map(|(a, b)| a ^ b).collect();
    if sm3_parts(&[&x2, &m, &y2]) != c.c3 {
        return None;
    }
    Some(m)
}

pub fn decrypt(d: &BigUint, ct: &[u8], compressed: bool, c1c3c2: bool) -> Option<Vec<u8>> {
    decrypt_parts(d, &parse_ciphertext(ct, compressed, c1c3c2)?)
}

// ------------------------------------------------------------------ key agreement (GB/T 32918.3)

pub fn x_bar(x: &BigUint) -> BigUint {
    let w = 127u32; // ceil(ceil(log2 n) / 2) - 1
    let mask = (BigUint::one() << w) - BigUint::one();
    (BigUint::one() << w) + (x & mask)
}

pub struct KexResult {
    pub key: Vec<u8>,
    /// S_B = S_1 (tag 0x02) and S_A = S_2 (tag 0x03)
    pub s_b: [u8; 32],
    pub s_a: [u8; 32],
}

/// Everything one party computes. `initiator`: true for A. (ZA, RA) always belong to the initiator.
/// Returns None when the shared point is infinity or a peer point is invalid.
pub fn key_agreement(
    initiator: bool,
    d_self: &BigUint,
    r_self: &BigUint,
    pk_peer: &Pt<Fp>,
    r_peer_point: &Pt<Fp>,
    z_a: &[u8; 32],
    z_b: &[u8; 32],
    klen: usize,
) -> Option<KexResult> {
    let pr = params();
    if r_peer_point.is_none() || !pr.curve.on_curve(r_peer_point) {
        return None;
    }
    let r_self_point = g_mul(r_self);
    let (xs, ys) = xy(&r_self_point)?;
    let (xp, yp) = xy(r_peer_point)?;
    let t = (d_self + x_bar(&from_be(&xs)) * r_self) % &pr.n;
    let q = pr.curve.add(pk_peer, &pr.curve.mul(&x_bar(&from_be(&xp)), r_peer_point));
    let u = pr.curve.mul(&t, &q); // cofactor h = 1
    let (xu, yu) = xy(&u)?;
    let key = kdf(&[&xu[..], &yu[..], &z_a[..], &z_b[..]].concat(), klen);
    // (x1, y1) is always R_A, (x2, y2) always R_B
    let (x1, y1, x2, y2) = if initiator { (xs, ys, xp, yp) } else { (xp, yp, xs, ys) };
    let inner = sm3_parts(&[&xu, z_a, z_b, &x1, &y1, &x2, &y2]);
    let s_b = sm3_parts(&[&[0x02], &yu, &inner]);
    let s_a = sm3_parts(&[&[0x03], &yu, &inner]);
    Some(KexResult { key, s_b, s_a })
}

pub fn self_test() -> Result<(), String> {
    let pr = params();
    if !pr.curve.on_curve(&pr.g) {
        return Err("reference SM2: G not on curve".into());
    }
    if g_mul(&pr.n).is_some() {
        return Err("reference SM2: [n]G != O".into());
    }
    if g_mul_plain(&(&pr.n - BigUint::from(12345u32))) != g_mul(&(&pr.n - BigUint::from(12345u32))) {
        return Err("reference SM2: cached g_mul != double-and-add".into());
    }
    let nm1 = &pr.n - BigUint::one();
    if g_mul(&nm1) != pr.curve.neg(&pr.g) {
        return Err("reference SM2: [n-1]G != -G".into());
    }
    // GM/T 0003.5 signature example
    let d = big("3945208F 7B2144B1 3F36E38A C6D39F95 88939369 2860B51A 42FB81EF 4DF7C5B8");
    let k = big("59276E27 D506861A 16680F3A D9C02DCC EF3CC1FA 3CDBE4CE 6D54B80D EAC1BC21");
    let pk = g_mul(&d);
    let (x, y) = xy(&pk).unwrap();
    if hex::encode_upper(x) != "09F9DF311E5421A150DD7D161E4BC5C672179FAD1833FC076BB08FF356F35020"
        || hex::encode_upper(y) != "CCEA490CE26775A52DC6EA718CC1AA600AED05FBF35E084A6632F6072DA9AD13"
    {
        return Err("reference SM2: Annex public key".into());
    }
    let sig = sign(&d, b"1234567812345678", b"message digest", &k).ok_or("annex sign retry")?;
    if hex::encode_upper(sig)
        != "F5A03B0648D2C4630EEAC513E1BB81A15944DA3827D5B74143AC7EACEEE720B3B1B6AA29DF212FD8763182BC0D421CA1BB9038FD1F7F42D4840B69C485BBC1AA"
    {
        return Err(format!("reference SM2: Annex signature mismatch: {}", hex::encode_upper(sig)));
    }
    if !verify(&pk, b"1234567812345678", b"message digest", &sig) {
        return Err("reference SM2: Annex signature does not verify".into());
    }
    // GM/T 0003.5 encryption example
    let c = encrypt_with_k(&pk, b"encryption standard", &k).ok_or("annex enc retry")?;
    let enc = hex::encode_upper(c.encode(false, true));
    let want = "0404EBFC718E8D1798620432268E77FEB6415E2EDE0E073C0F4F640ECD2E149A73E858F9D81E5430A57B36DAAB8F950A3C64E6EE6A63094D99283AFF767E124DF0\
59983C18F809E262923C53AEC295D30383B54E39D609D160AFCB1908D0BD876621886CA989CA9C7D58087307CA93092D651EFA";
    if enc != want {
        return Err(format!("reference SM2: Annex ciphertext mismatch: {}", enc));
    }
    if decrypt(&d, &c.encode(false, true), false, true).as_deref() != Some(&b"encryption standard"[..]) {
        return Err("reference SM2: Annex ciphertext does not decrypt".into());
    }
    // GM/T 0003.5 key exchange example
    let da = big("81EB26E9 41BB5AF1 6DF11649 5F906952 72AE2CD6 3D6C4AE1 678418BE 48230029");
    let db = big("78512991 7D45A9EA 5437A593 56B82338 EAADDA6C EB199088 F14AE10D EFA229B5");
    let ra = big("D4DE1547 4DB74D06 491C440D 305E0124 00990F3E 390C7E87 153C12DB 2EA60BB3");
    let rb = big("7E071248 14B30948 9125EAED 10111316 4EBF0F34 58C5BD88 335C1F9D 596243D6");
    let (pa, pb) = (g_mul(&da), g_mul(&db));
    let id = b"1234567812345678";
    let (z_a, z_b) = (za(id, &pa), za(id, &pb));
    let b_side = key_agreement(false, &db, &rb, &pa, &g_mul(&ra), &z_a, &z_b, 16).ok_or("annex kex B")?;
    let a_side = key_agreement(true, &da, &ra, &pb, &g_mul(&rb), &z_a, &z_b, 16).ok_or("annex kex A")?;
    if hex::encode_upper(&b_side.key) != "6C89347354DE2484C60B4AB1FDE4C6E5" || a_side.key != b_side.key {
        return Err(format!("reference SM2: Annex exchange key {}", hex::encode_upper(&b_side.key)));
    }
    if hex::encode_upper(b_side.s_b) != "D3A0FE15DEE185CEAE907A6B595CC32A266ED7B3367E9983A896DC32FA20F8EB" || a_side.s_b != b_side.s_b {
        return Err("reference SM2: Annex S_B".into());
    }
    if hex::encode_upper(a_side.s_a) != "18C7894B3816DF16CF07B05C5EC0BEF5D655D58F779CC1B400A4F3884644DB88" || a_side.s_a != b_side.s_a {
        return Err("reference SM2: Annex S_A".into());
    }
    let _ = sm3;
    Ok(())
}
