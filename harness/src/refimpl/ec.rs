//! Reference short-Weierstrass group law y^2 = x^3 + a x + b in affine coordinates,
//! generic over the field. Infinity is `None`. Double-and-add from the most significant bit.

use super::field::Fld;
use num_bigint::BigUint;
use num_traits::Zero;

#[derive(Clone, Debug)]
pub struct Curve<F: Fld> {
    pub a: F,
    pub b: F,
}

pub type Pt<F> = Option<(F, F)>;

impl<F: Fld> Curve<F> {
    pub fn on_curve(&self, p: &Pt<F>) -> bool {
        match p {
            None => true,
            Some((x, y)) => y.sqr() == x.sqr().mul(x).add(&self.a.mul(x)).add(&self.b),
        }
    }

    pub fn neg(&self, p: &Pt<F>) -> Pt<F> {
        p.as_ref().map(|(x, y)| (x.clone(), y.neg()))
    }

    pub fn dbl(&self, p: &Pt<F>) -> Pt<F> {
        let (x, y) = p.as_ref()?;
        if y.is_zero() {
            return None;
        }
        let three = x.from_u64_like(3);
        let two = x.from_u64_like(2);
        let lam = three.mul(&x.sqr()).add(&self.a).mul(&two.mul(y).inv().unwrap());
        let x3 = lam.sqr().sub(&two.mul(x));
        let y3 = lam.mul(&x.sub(&x3)).sub(y);
        Some((x3, y3))
    }

    pub fn add(&self, p: &Pt<F>, q: &Pt<F>) -> Pt<F> {
        let (x1, y1) = match p {
            None => return q.clone(),
            Some(v) => v,
        };
        let (x2, y2) = match q {
            None => return p.clone(),
            Some(v) => v,
        };
        if x1 == x2 {
            if *y1 == *y2 {
                return self.dbl(p);
            }
            return None; // y1 = -y2
        }
        let lam = y2.sub(y1).mul(&x2.sub(x1).inv().unwrap());
        let x3 = lam.sqr().sub(x1).sub(x2);
        let y3 = lam.mul(&x1.sub(&x3)).sub(y1);
        Some((x3, y3))
    }

    pub fn sub(&self, p: &Pt<F>, q: &Pt<F>) -> Pt<F> {
        self.add(p, &self.neg(q))
    }

    pub fn mul(&self, k: &BigUint, p: &Pt<F>) -> Pt<F> {
        let mut r: Pt<F> = None;
        if k.is_zero() {
            return r;
        }
        for i in (0..k.bits()).rev() {
            r = self.dbl(&r);
            if k.bit(i) {
                r = self.add(&r, p);
            }
        }
        r
    }
}
