//! Minimal strict DER reader/writer and the SM2 key / ciphertext structures
//! (RFC 5480 SubjectPublicKeyInfo, RFC 5958 PKCS#8, RFC 5915 ECPrivateKey, GM/T 0009 SM2Cipher).

use num_bigint::BigUint;

pub const OID_EC_PUBLIC_KEY: &[u8] = &[0x2A, 0x86, 0x48, 0xCE, 0x3D, 0x02, 0x01]; // 1.2.840.10045.2.1
pub const OID_SM2: &[u8] = &[0x2A, 0x81, 0x1C, 0xCF, 0x55, 0x01, 0x82, 0x2D]; // 1.2.156.10197.1.301

#[derive(Debug, Clone, PartialEq, Eq)]
pub struct Tlv<'a> {
    pub tag: u8,
    pub content: &'a [u8],
}

/// Parse one TLV with strict DER length rules; returns the TLV and the rest.
pub fn parse(b: &[u8]) -> Option<(Tlv<'_>, &[u8])> {
    if b.len() < 2 {
        return None;
    }
    let tag = b[0];
    if tag & 0x1f == 0x1f {
        return None; // high tag numbers not used here
    }
    let (len, hdr) = if b[1] < 0x80 {
        (b[1] as usize, 2)
    } else {
        let n = (b[1] & 0x7f) as usize;
        if n == 0 || n > 4 || b.len() < 2 + n {
            return None;
        }
        let mut l = 0usize;
        for i in 0..n {
            l = (l << 8) | b[2 + i] as usize;
        }
        // minimal length encoding
        if l < 0x80 || b[2] == 0 {
            return None;
        }
        (l, 2 + n)
    };
    if b.len() < hdr + len {
        return None;
    }
    Some((Tlv { tag, content: &b[hdr..hdr + len] }, &b[hdr + len..]))
}

/// Parse a TLV that must span the whole input.
pub fn parse_all(b: &[u8]) -> Option<Tlv<'_>> {
    let (t, rest) = parse(b)?;
    if rest.is_empty() {
        Some(t)
    } else {
        None
    }
}

/// Children of a constructed value.
pub fn children(mut b: &[u8]) -> Option<Vec<Tlv<'_>>> {
    let mut v = Vec::new();
    while !b.is_empty() {
        let (t, rest) = parse(b)?;
        v.push(t);
        b = rest;
    }
    Some(v)
}

/// Non-negative INTEGER content -> value (strict: minimal, non-negative).
pub fn integer_value(t: &Tlv) -> Option<BigUint> {
    if t.tag != 0x02 || t.content.is_empty() {
        return None;
    }
    let c = t.content;
    if c[0] & 0x80 != 0 {
        return None; // negative
    }
    if c.len() > 1 && c[0] == 0 && c[1] & 0x80 == 0 {
        return None; // non-minimal
    }
    Some(BigUint::from_bytes_be(c))
}

pub fn tlv(tag: u8, content: &[u8]) -> Vec<u8> {
    let mut v = vec![tag];
    let l = content.len();
    if l < 0x80 {
        v.push(l as u8);
    } else {
        let bytes = l.to_be_bytes();
        let skip = bytes.iter().take_while(|b| **b == 0).count();
        v.push(0x80 | (bytes.len() - skip) as u8);
        v.extend_from_slice(&bytes[skip..]);
    }
    v.extend_from_slice(content);
    v
}

pub fn integer(v: &BigUint) -> Vec<u8> {
    let mut b = v.to_bytes_be();
    if b[0] & 0x80 != 0 {
        b.insert(0, 0);
    }
    tlv(0x02, &b)
}

pub fn seq(parts: &[Vec<u8>]) -> Vec<u8> {
    tlv(0x30, &parts.concat())
}

fn alg_id() -> Vec<u8> {
    seq(&[tlv(0x06, OID_EC_PUBLIC_KEY), tlv(0x06, OID_SM2)])
}

/// SubjectPublicKeyInfo for an SEC1 point encoding.
pub fn spki(point: &[u8]) -> Vec<u8> {
    let mut bits = vec![0u8];
    bits.extend_from_slice(point);
    seq(&[alg_id(), tlv(0x03, &bits)])
}

/// Strict SPKI parse -> the SEC1 point bytes.
pub fn parse_spki(der: &[u8]) -> Option<Vec<u8>> {
    let top = parse_all(der)?;
    if top.tag != 0x30 {
        return None;
    }
    let ch = children(top.content)?;
    if ch.len() != 2 || ch[0].tag != 0x30 || ch[1].tag != 0x03 {
        return None;
    }
    let alg = children(ch[0].content)?;
    if alg.len() != 2 || alg[0].tag != 0x06 || alg[0].content != OID_EC_PUBLIC_KEY || alg[1].tag != 0x06 || alg[1].content != OID_SM2 {
        return None;
    }
    let bits = ch[1].content;
    if bits.is_empty() || bits[0] != 0 {
        return None;
    }
    Some(bits[1..].to_vec())
}

/// RFC 5915 ECPrivateKey (version 1, 32-byte key, optional [0] parameters, optional [1] public key).
pub fn ec_private_key(d: &[u8; 32], with_params: bool, public: Option<&[u8]>) -> Vec<u8> {
    let mut parts = vec![integer(&BigUint::from(1u32)), tlv(0x04, d)];
    if with_params {
        parts.push(tlv(0xA0, &tlv(0x06, OID_SM2)));
    }
    if let Some(p) = public {
        let mut bits = vec![0u8];
        bits.extend_from_slice(p);
        parts.push(tlv(0xA1, &tlv(0x03, &bits)));
    }
    seq(&parts)
}

/// PKCS#8 document whose private-key OCTET STRING and public-key BIT STRING carry arbitrary bytes (for malformed-length tests)
pub fn pkcs8_raw(d: &[u8], public: Option<&[u8]>) -> Vec<u8> {
    let mut parts = vec![integer(&BigUint::from(1u32)), tlv(0x04, d)];
    if let Some(p) = public {
        let mut bits = vec![0u8];
        bits.extend_from_slice(p);
        parts.push(tlv(0xA1, &tlv(0x03, &bits)));
    }
    seq(&[integer(&BigUint::from(0u32)), alg_id(), tlv(0x04, &seq(&parts))])
}

/// PKCS#8 PrivateKeyInfo wrapping an ECPrivateKey.
pub fn pkcs8(d: &[u8; 32], with_params: bool, public: Option<&[u8]>) -> Vec<u8> {
    seq(&[integer(&BigUint::from(0u32)), alg_id(), tlv(0x04, &ec_private_key(d, with_params, public))])
}

pub struct ParsedPkcs8 {
    pub d: Vec<u8>,
    pub public: Option<Vec<u8>>,
}

pub fn parse_pkcs8(der: &[u8]) -> Option<ParsedPkcs8> {
    let top = parse_all(der)?;
    if top.tag != 0x30 {
        return None;
    }
    let ch = children(top.content)?;
    if ch.len() < 3 || integer_value(&ch[0])? != BigUint::from(0u32) || ch[1].tag != 0x30 || ch[2].tag != 0x04 {
        return None;
    }
    let alg = children(ch[1].content)?;
    if alg.len() != 2 || alg[0].content != OID_EC_PUBLIC_KEY || alg[1].content != OID_SM2 {
        return None;
    }
    parse_ec_private_key(ch[2].content)
}

/// RFC 5915 ECPrivateKey
pub fn parse_ec_private_key(der: &[u8]) -> Option<ParsedPkcs8> {
    let ec = parse_all(der)?;
    if ec.tag != 0x30 {
        return None;
    }
    let e = children(ec.content)?;
    if e.len() < 2 || integer_value(&e[0])? != BigUint::from(1u32) || e[1].tag != 0x04 {
        return None;
    }
    let mut public = None;
    for t in &e[2..] {
        if t.tag == 0xA1 {
            let bs = parse_all(t.content)?;
            if bs.tag != 0x03 || bs.content.is_empty() || bs.content[0] != 0 {
                return None;
            }
            public = Some(bs.content[1..].to_vec());
        }
    }
    Some(ParsedPkcs8 { d: e[1].content.to_vec(), public })
}

/// GM/T 0009 SM2Cipher ::= SEQUENCE { x INTEGER, y INTEGER, hash OCTET STRING (32), cipherText OCTET STRING }
pub fn sm2_cipher(x: &BigUint, y: &BigUint, c3: &[u8], c2: &[u8]) -> Vec<u8> {
    seq(&[integer(x), integer(y), tlv(0x04, c3), tlv(0x04, c2)])
}

pub struct ParsedCipher {
    pub x: BigUint,
    pub y: BigUint,
    pub c3: Vec<u8>,
    pub c2: Vec<u8>,
}

pub fn parse_sm2_cipher(der: &[u8]) -> Option<ParsedCipher> {
    let top = parse_all(der)?;
    if top.tag != 0x30 {
        return None;
    }
    let ch = children(top.content)?;
    if ch.len() != 4 || ch[2].tag != 0x04 || ch[3].tag != 0x04 {
        return None;
    }
    Some(ParsedCipher { x: integer_value(&ch[0])?, y: integer_value(&ch[1])?, c3: ch[2].content.to_vec(), c2: ch[3].content.to_vec() })
}

pub fn pem(label: &str, der: &[u8], line_ending: &str) -> String {
    const TBL: &[u8; 64] = b"ABCDEFGHIJKLMNOPQRSTUVWXYZabcdefghijklmnopqrstuvwxyz0123456789+/";
    let mut b64 = String::new();
    for ch in der.chunks(3) {
        let n = (ch[0] as u32) << 16 | (*ch.get(1).unwrap_or(&0) as u32) << 8 | *ch.get(2).unwrap_or(&0) as u32;
        b64.push(TBL[(n >> 18) as usize & 63] as char);
        b64.push(TBL[(n >> 12) as usize & 63] as char);
        b64.push(if ch.len() > 1 { TBL[(n >> 6) as usize & 63] as char } else { '=' });
        b64.push(if ch.len() > 2 { TBL[n as usize & 63] as char } else { '=' });
    }
    let mut out = format!("-----BEGIN {}-----{}", label, line_ending);
    for l in b64.as_bytes().chunks(64) {
        out.push_str(std::str::from_utf8(l).unwrap());
        out.push_str(line_ending);
    }
    out.push_str(&format!("-----END {}-----{}", label, line_ending));
    out
}

/// Decode the base64 body of a PEM document (any line ending); None if malformed.
pub fn unpem(label: &str, text: &str) -> Option<Vec<u8>> {
    let begin = format!("-----BEGIN {}-----", label);
    let end = format!("-----END {}-----", label);
    let s = text.find(&begin)? + begin.len();
    let e = text.find(&end)?;
    let body: String = text[s..e].chars().filter(|c| !c.is_whitespace()).collect();
    let val = |c: u8| -> Option<u32> {
        match c {
            b'A'..=b'Z' => Some((c - b'A') as u32),
            b'a'..=b'z' => Some((c - b'a') as u32 + 26),
            b'0'..=b'9' => Some((c - b'0') as u32 + 52),
            b'+' => Some(62),
            b'/' => Some(63),
            _ => None,
        }
    };
    let b = body.as_bytes();
    if b.len() % 4 != 0 {
        return None;
    }
    let mut out = Vec::new();
    for ch in b.chunks(4) {
        let pad = ch.iter().filter(|c| **c == b'=').count();
        let mut n = 0u32;
        for (i, c) in ch.iter().enumerate() {
            n = (n << 6) | if *c == b'=' && i >= 4 - pad { 0 } else { val(*c)? };
        }
        out.push((n >> 16) as u8);
        if pad < 2 {
            out.push((n >> 8) as u8);
        }
        if pad < 1 {
            out.push(n as u8);
        }
    }
    Some(out)
}

pub fn self_test() -> Result<(), String> {
    // anchored on the OpenSSL corpus: parse its documents, rebuild them, compare bytes
    let c = crate::corpus::openssl();
    for k in c["sm2"].as_array().unwrap() {
        let spki_der = crate::corpus::hexv(&k["spki_der"]);
        let pubk = crate::corpus::hexv(&k["pub"]);
        if parse_spki(&spki_der).as_deref() != Some(&pubk[..]) {
            return Err("reference DER: cannot parse OpenSSL SPKI".into());
        }
        if spki(&pubk) != spki_der {
            return Err("reference DER: SPKI writer differs from OpenSSL".into());
        }
        // note: the corpus field "pkcs8_der" holds what `openssl pkey -outform DER` wrote, a traditional SEC1 ECPrivateKey
        let sec1 = crate::corpus::hexv(&k["pkcs8_der"]);
        let ps = parse_ec_private_key(&sec1).ok_or("reference DER: cannot parse OpenSSL ECPrivateKey")?;
        if ps.d != crate::corpus::hexv(&k["d"]) {
            return Err("reference DER: OpenSSL ECPrivateKey content mismatch".into());
        }
        let p8 = unpem("PRIVATE KEY", k["pkcs8_pem"].as_str().unwrap()).ok_or("reference PEM: cannot decode OpenSSL PKCS#8 PEM")?;
        let parsed = parse_pkcs8(&p8).ok_or("reference DER: cannot parse OpenSSL PKCS#8")?;
        if parsed.d != crate::corpus::hexv(&k["d"]) || parsed.public.as_deref() != Some(&pubk[..]) {
            return Err("reference DER: OpenSSL PKCS#8 content mismatch".into());
        }
        let d: [u8; 32] = parsed.d.clone().try_into().map_err(|_| "d length")?;
        if pkcs8(&d, false, Some(&pubk)) != p8 {
            return Err("reference DER: PKCS#8 writer differs from OpenSSL".into());
        }
        if unpem("PUBLIC KEY", k["spki_pem"].as_str().unwrap()).as_deref() != Some(&spki_der[..]) {
            return Err("reference PEM decoder differs from OpenSSL".into());
        }
        if pem("PUBLIC KEY", &spki_der, "\n") != k["spki_pem"].as_str().unwrap() {
            return Err("reference PEM writer differs from OpenSSL".into());
        }
        for e in k["encs"].as_array().unwrap() {
            let der = crate::corpus::hexv(&e["der"]);
            let raw = crate::corpus::hexv(&e["c1c3c2"]);
            let pc = parse_sm2_cipher(&der).ok_or("reference DER: cannot parse OpenSSL SM2Cipher")?;
            if sm2_cipher(&pc.x, &pc.y, &pc.c3, &pc.c2) != der || pc.c3 != raw[65..97] || pc.c2 != raw[97..] {
                return Err("reference DER: SM2Cipher round trip differs from OpenSSL".into());
            }
        }
    }
    Ok(())
}
