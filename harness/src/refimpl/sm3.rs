//! Reference SM3 (GB/T 32905-2016), written from the standard: streaming
//! compression, 64-bit bit counter, no padded copy of the message.

pub struct Sm3 {
    v: [u32; 8],
    buf: [u8; 64],
    fill: usize,
    bits: u64,
}

const IV: [u32; 8] = [
    0x7380166f, 0x4914b2b9, 0x172442d7, 0xda8a0600, 0xa96f30bc, 0x163138aa, 0xe38dee4d, 0xb0fb0e4e,
];

fn compress(v: &mut [u32; 8], block: &[u8]) {
    let mut w = [0u32; 68];
    for j in 0..16 {
        w[j] = u32::from_be_bytes([block[4 * j], block[4 * j + 1], block[4 * j + 2], block[4 * j + 3]]);
    }
    for j in 16..68 {
        let x = w[j - 16] ^ w[j - 9] ^ w[j - 3].rotate_left(15);
        let p1 = x ^ x.rotate_left(15) ^ x.rotate_left(23);
        w[j] = p1 ^ w[j - 13].rotate_left(7) ^ w[j - 6];
    }
    let [mut a, mut b, mut c, mut d, mut e, mut f, mut g, mut h] = *v;
    for j in 0..64usize {
        let tj: u32 = if j < 16 { 0x79cc4519 } else { 0x7a879d8a };
        let a12 = a.rotate_left(12);
        let ss1 = a12
            .wrapping_add(e)
            .wrapping_add(tj.rotate_left((j % 32) as u32))
            .rotate_left(7);
        let ss2 = ss1 ^ a12;
        let (ff, gg) = if j < 16 {
            (a ^ b ^ c, e ^ f ^ g)
        } else {
            ((a & b) | (a & c) | (b & c), (e & f) | (!e & g))
        };
        let w1 = w[j] ^ w[j + 4];
        let tt1 = ff.wrapping_add(d).wrapping_add(ss2).wrapping_add(w1);
        let tt2 = gg.wrapping_add(h).wrapping_add(ss1).wrapping_add(w[j]);
        d = c;
        c = b.rotate_left(9);
        b = a;
        a = tt1;
        h = g;
        g = f.rotate_left(19);
        f = e;
        e = tt2 ^ tt2.rotate_left(9) ^ tt2.rotate_left(17);
    }
    v[0] ^= a;
    v[1] ^= b;
    v[2] ^= c;
    v[3] ^= d;
    v[4] ^= e;
    v[5] ^= f;
    v[6] ^= g;
    v[7] ^= h;
}

impl Sm3 {
    pub fn new() -> Sm3 {
        Sm3 {
            v: IV,
            buf: [0; 64],
            fill: 0,
            bits: 0,
        }
    }

    pub fn update(&mut self, mut data: &[u8]) {
        self.bits = self.bits.wrapping_add((data.len() as u64).wrapping_mul(8));
        if self.fill > 0 {
            let take = (64 - self.fill).min(data.len());
            self.buf[self.fill..self.fill + take].copy_from_slice(&data[..take]);
            self.fill += take;
            data = &data[take..];
            if self.fill == 64 {
                let b = self.buf;
                compress(&mut self.v, &b);
                self.fill = 0;
            }
        }
        while data.len() >= 64 {
            compress(&mut self.v, &data[..64]);
            data = &data[64..];
        }
        if !data.is_empty() {
            self.buf[..data.len()].copy_from_slice(data);
            self.fill = data.len();
        }
    }

    pub fn finalize(mut self) -> [u8; 32] {
        let bits = self.bits;
        let mut pad = [0u8; 72];
        pad[0] = 0x80;
        // number of zero bytes so that fill + 1 + k ≡ 56 (mod 64)
        let k = (55 + 64 - self.fill % 64) % 64;
        let total = 1 + k;
        let mut tail = Vec::with_capacity(total + 8);
        tail.extend_from_slice(&pad[..total]);
        tail.extend_from_slice(&bits.to_be_bytes());
        // feed without touching the bit counter
        let saved = self.bits;
        self.update(&tail);
        self.bits = saved;
        debug_assert_eq!(self.fill, 0);
        let mut out = [0u8; 32];
        for i in 0..8 {
            out[4 * i..4 * i + 4].copy_from_slice(&self.v[i].to_be_bytes());
        }
        out
    }
}

pub fn sm3(data: &[u8]) -> [u8; 32] {
    let mut h = Sm3::new();
    h.update(data);
    h.finalize()
}

/// Hash the concatenation of several parts.
pub fn sm3_parts(parts: &[&[u8]]) -> [u8; 32] {
    let mut h = Sm3::new();
    for p in parts {
        h.update(p);
    }
    h.finalize()
}

/// KDF of GB/T 32918.4 / GM/T 0044: first klen bytes of SM3(Z||ct=1) || SM3(Z||2) || ...
pub fn kdf(z: &[u8], klen: usize) -> Vec<u8> {
    let mut out = Vec::with_capacity(klen + 32);
    let mut ct: u32 = 1;
    while out.len() < klen {
        out.extend_from_slice(&sm3_parts(&[z, &ct.to_be_bytes()]));
        ct = ct.wrapping_add(1);
    }
    out.truncate(klen);
    out
}

/// Self-test against the two vectors printed in GB/T 32905-2016 Annex A.
pub fn self_test() -> Result<(), String> {
    let a = hex::encode(sm3(b"abc"));
    if a != "66c7f0f462eeedd9d1f2d46bdc10e4e24167c4875cf2f7a2297da02b8f4ba8e0" {
        return Err(format!("reference SM3(abc) = {}", a));
    }
    let m: Vec<u8> = b"abcd".iter().cycle().take(64).cloned().collect();
    let b = hex::encode(sm3(&m));
    if b != "debe9ff92275b8a138604889c18e5a4d6fdb70e5387e5765293dcba39c0c5732" {
        return Err(format!("reference SM3(abcd*16) = {}", b));
    }
    // streaming == one-shot on an awkward split
    let data: Vec<u8> = (0..1000u32).map(|i| (i * 7 + 3) as u8).collect();
    let mut h = Sm3::new();
    h.update(&data[..1]);
    h.update(&data[1..64]);
    h.update(&data[64..129]);
    h.update(&data[129..]);
    if h.finalize() != sm3(&data) {
        return Err("reference SM3 streaming mismatch".into());
    }
    Ok(())
}
