//! Reference SM4 (GB/T 32907-2016) and the standard modes of operation over it.
//! The S-box is generated from its algebraic description, CK from its formula —
//! no table is shared with the library.

use std::sync::OnceLock;

fn gf_mul(mut a: u16, mut b: u16) -> u8 {
    // GF(2^8) modulo x^8+x^7+x^6+x^5+x^4+x^2+1 (0x1F5)
    let mut r: u16 = 0;
    while b != 0 {
        if b & 1 != 0 {
            r ^= a;
        }
        a <<= 1;
        if a & 0x100 != 0 {
            a ^= 0x1F5;
        }
        b >>= 1;
    }
    r as u8
}

fn gf_inv(a: u8) -> u8 {
    if a == 0 {
        return 0;
    }
    // a^254
    let mut r: u8 = 1;
    let mut base = a;
    let mut e = 254u32;
    while e != 0 {
        if e & 1 != 0 {
            r = gf_mul(r as u16, base as u16);
        }
        base = gf_mul(base as u16, base as u16);
        e >>= 1;
    }
    r
}

fn affine(x: u8) -> u8 {
    // XOR of the left rotations selected by the mask 0xCB, then + 0xD3
    let mut r = 0u8;
    for i in 0..8 {
        if (0xCBu8 >> i) & 1 != 0 {
            r ^= x.rotate_left(i);
        }
    }
    r ^ 0xD3
}

pub fn sbox() -> &'static [u8; 256] {
    static S: OnceLock<[u8; 256]> = OnceLock::new();
    S.get_or_init(|| {
        let mut s = [0u8; 256];
        for x in 0..256usize {
            s[x] = affine(gf_inv(affine(x as u8)));
        }
        s
    })
}

fn tau(a: u32) -> u32 {
    let s = sbox();
    let b = a.to_be_bytes();
    u32::from_be_bytes([s[b[0] as usize], s[b[1] as usize], s[b[2] as usize], s[b[3] as usize]])
}

fn t_enc(a: u32) -> u32 {
    let b = tau(a);
    b ^ b.rotate_left(2) ^ b.rotate_left(10) ^ b.rotate_left(18) ^ b.rotate_left(24)
}

fn t_key(a: u32) -> u32 {
    let b = tau(a);
    b ^ b.rotate_left(13) ^ b.rotate_left(23)
}

/// Inverse of the linear map of a T function given by its rotation set (Gaussian elimination over GF(2) on the 32x32 matrix).
fn lin_inv(rots: &[u32], y: u32) -> u32 {
    let l = |b: u32| rots.iter().fold(0u32, |acc, r| acc ^ b.rotate_left(*r));
    // basis[b] = (image with leading bit b, its preimage)
    let mut basis = [(0u32, 0u32); 32];
    for i in 0..32 {
        let (mut img, mut pre) = (l(1u32 << i), 1u32 << i);
        while img != 0 {
            let b = (31 - img.leading_zeros()) as usize;
            if basis[b].0 == 0 {
                basis[b] = (img, pre);
                break;
            }
            img ^= basis[b].0;
            pre ^= basis[b].1;
        }
    }
    let (mut x, mut y) = (0u32, y);
    while y != 0 {
        let b = (31 - y.leading_zeros()) as usize;
        assert!(basis[b].0 != 0, "linear map is not invertible");
        y ^= basis[b].0;
        x ^= basis[b].1;
    }
    x
}

fn tau_inv(b: u32) -> u32 {
    let s = sbox();
    let mut inv = [0u8; 256];
    for i in 0..256 {
        inv[s[i] as usize] = i as u8;
    }
    let v = b.to_be_bytes();
    u32::from_be_bytes([inv[v[0] as usize], inv[v[1] as usize], inv[v[2] as usize], inv[v[3] as usize]])
}

/// The data-path round transform T and its inverse (T is a bijection on 32-bit words).
pub fn t_data(a: u32) -> u32 {
    t_enc(a)
}

pub fn t_data_inv(y: u32) -> u32 {
    tau_inv(lin_inv(&[0, 2, 10, 18, 24], y))
}

pub fn ck(i: usize) -> u32 {
    let b = |j: usize| (((4 * i + j) * 7) % 256) as u8;
    u32::from_be_bytes([b(0), b(1), b(2), b(3)])
}

pub const FK: [u32; 4] = [0xA3B1BAC6, 0x56AA3350, 0x677D9197, 0xB27022DC];

#[derive(Clone)]
pub struct Sm4 {
    pub rk: [u32; 32],
}

impl Sm4 {
    pub fn new(key: &[u8; 16]) -> Sm4 {
        let mut k = [0u32; 36];
        for i in 0..4 {
            k[i] = u32::from_be_bytes([key[4 * i], key[4 * i + 1], key[4 * i + 2], key[4 * i + 3]]) ^ FK[i];
        }
        let mut rk = [0u32; 32];
        for i in 0..32 {
            k[i + 4] = k[i] ^ t_key(k[i + 1] ^ k[i + 2] ^ k[i + 3] ^ ck(i));
            rk[i] = k[i + 4];
        }
        Sm4 { rk }
    }

    /// Invert the key schedule: the master key whose last four round keys are `last`.
    pub fn key_from_last_round_keys(last: [u32; 4]) -> [u8; 16] {
        let mut k = [0u32; 36];
        k[32..36].copy_from_slice(&last);
        for i in (0..32).rev() {
            k[i] = k[i + 4] ^ t_key(k[i + 1] ^ k[i + 2] ^ k[i + 3] ^ ck(i));
        }
        let mut out = [0u8; 16];
        for i in 0..4 {
            out[4 * i..4 * i + 4].copy_from_slice(&(k[i] ^ FK[i]).to_be_bytes());
        }
        out
    }

    /// The master key whose round keys rk[pos..pos+4] are `window` (pos in 0..=28): the recurrence is run backwards from the window.
    pub fn key_from_round_key_window(pos: usize, window: [u32; 4]) -> [u8; 16] {
        let mut k = [0u32; 36];
        let top = pos.min(28) + 4;
        k[top..top + 4].copy_from_slice(&window);
        for i in (0..top).rev() {
            k[i] = k[i + 4] ^ t_key(k[i + 1] ^ k[i + 2] ^ k[i + 3] ^ ck(i));
        }
        let mut out = [0u8; 16];
        for i in 0..4 {
            out[4 * i..4 * i + 4].copy_from_slice(&(k[i] ^ FK[i]).to_be_bytes());
        }
        out
    }

    fn crypt(&self, block: &[u8; 16], decrypt: bool) -> [u8; 16] {
        let mut x = [0u32; 36];
        for i in 0..4 {
            x[i] = u32::from_be_bytes([block[4 * i], block[4 * i + 1], block[4 * i + 2], block[4 * i + 3]]);
        }
        for i in 0..32 {
            let rk = if decrypt { self.rk[31 - i] } else { self.rk[i] };
            x[i + 4] = x[i] ^ t_enc(x[i + 1] ^ x[i + 2] ^ x[i + 3] ^ rk);
        }
        let mut out = [0u8; 16];
        for i in 0..4 {
            out[4 * i..4 * i + 4].copy_from_slice(&x[35 - i].to_be_bytes());
        }
        out
    }

    /// The input block for which the state entering round `round` (0..32) of encryption (resp. decryption) is `state` = (X_i, X_i+1, X_i+2, X_i+3):
    /// the rounds before it are run backwards.
    pub fn block_with_state_at_round(&self, round: usize, state: [u32; 4], decrypt: bool) -> [u8; 16] {
        let mut x = [0u32; 36];
        x[round..round + 4].copy_from_slice(&state);
        for j in (0..round).rev() {
            let rk = if decrypt { self.rk[31 - j] } else { self.rk[j] };
            x[j] = x[j + 4] ^ t_enc(x[j + 1] ^ x[j + 2] ^ x[j + 3] ^ rk);
        }
        let mut out = [0u8; 16];
        for i in 0..4 {
            out[4 * i..4 * i + 4].copy_from_slice(&x[i].to_be_bytes());
        }
        out
    }

    /// The words (X_i, T input, T output, X_i+4) of round `round` for `block`.
    pub fn round_trace(&self, block: &[u8; 16], round: usize, decrypt: bool) -> (u32, u32, u32, u32) {
        let mut x = [0u32; 36];
        for i in 0..4 {
            x[i] = u32::from_be_bytes([block[4 * i], block[4 * i + 1], block[4 * i + 2], block[4 * i + 3]]);
        }
        for i in 0..=round {
            let rk = if decrypt { self.rk[31 - i] } else { self.rk[i] };
            x[i + 4] = x[i] ^ t_enc(x[i + 1] ^ x[i + 2] ^ x[i + 3] ^ rk);
        }
        let rk = if decrypt { self.rk[31 - round] } else { self.rk[round] };
        let tin = x[round + 1] ^ x[round + 2] ^ x[round + 3] ^ rk;
        (x[round], tin, t_enc(tin), x[round + 4])
    }

    pub fn encrypt(&self, block: &[u8; 16]) -> [u8; 16] {
        self.crypt(block, false)
    }

    pub fn decrypt(&self, block: &[u8; 16]) -> [u8; 16] {
        self.crypt(block, true)
    }

    /// First-round S-box input words for a plaintext (used to craft inputs that hit every S-box entry).
    pub fn round1_input(&self, block: &[u8; 16]) -> u32 {
        let w = |i: usize| u32::from_be_bytes([block[4 * i], block[4 * i + 1], block[4 * i + 2], block[4 * i + 3]]);
        w(1) ^ w(2) ^ w(3) ^ self.rk[0]
    }
}

fn xor16(a: &[u8; 16], b: &[u8]) -> [u8; 16] {
    let mut o = [0u8; 16];
    for i in 0..16 {
        o[i] = a[i] ^ b[i];
    }
    o
}

#[derive(Clone, Copy, Debug, PartialEq, Eq, Hash)]
pub enum Mode {
    Cbc,
    Cfb,
    Ofb,
    Ctr,
}

impl Mode {
    pub fn name(self) -> &'static str {
        match self {
            Mode::Cbc => "cbc",
            Mode::Cfb => "cfb",
            Mode::Ofb => "ofb",
            Mode::Ctr => "ctr",
        }
    }
    pub fn from_name(s: &str) -> Mode {
        match s {
            "cbc" => Mode::Cbc,
            "cfb" => Mode::Cfb,
            "ofb" => Mode::Ofb,
            _ => Mode::Ctr,
        }
    }
    pub const ALL: [Mode; 4] = [Mode::Cbc, Mode::Cfb, Mode::Ofb, Mode::Ctr];
}

/// CBC without padding (input must be a multiple of 16) — used to craft ciphertexts with arbitrary final bytes.
pub fn cbc_encrypt_nopad(c: &Sm4, iv: &[u8; 16], data: &[u8]) -> Vec<u8> {
    assert!(data.len() % 16 == 0);
    let mut prev = *iv;
    let mut out = Vec::with_capacity(data.len());
    for ch in data.chunks(16) {
        let e = c.encrypt(&xor16(&prev, ch));
        out.extend_from_slice(&e);
        prev = e;
    }
    out
}

pub fn cbc_decrypt_nopad(c: &Sm4, iv: &[u8; 16], data: &[u8]) -> Vec<u8> {
    assert!(data.len() % 16 == 0);
    let mut prev = *iv;
    let mut out = Vec::with_capacity(data.len());
    for ch in data.chunks(16) {
        let mut blk = [0u8; 16];
        blk.copy_from_slice(ch);
        let d = c.decrypt(&blk);
        out.extend_from_slice(&xor16(&d, &prev));
        prev = blk;
    }
    out
}

pub fn encrypt(mode: Mode, key: &[u8; 16], iv: &[u8; 16], data: &[u8]) -> Vec<u8> {
    let c = Sm4::new(key);
    match mode {
        Mode::Cbc => {
            let pad = 16 - data.len() % 16;
            let mut p = data.to_vec();
            p.extend(std::iter::repeat(pad as u8).take(pad));
            cbc_encrypt_nopad(&c, iv, &p)
        }
        Mode::Cfb => {
            let mut reg = *iv;
            let mut out = Vec::with_capacity(data.len());
            for ch in data.chunks(16) {
                let ks = c.encrypt(&reg);
                let mut ct = [0u8; 16];
                for i in 0..ch.len() {
                    ct[i] = ks[i] ^ ch[i];
                }
                out.extend_from_slice(&ct[..ch.len()]);
                reg = ct; // only matters for full blocks
            }
            out
        }
        Mode::Ofb => {
            let mut reg = *iv;
            let mut out = Vec::with_capacity(data.len());
            for ch in data.chunks(16) {
                reg = c.encrypt(&reg);
                for i in 0..ch.len() {
                    out.push(reg[i] ^ ch[i]);
                }
            }
            out
        }
        Mode::Ctr => {
            let mut ctr = u128::from_be_bytes(*iv);
            let mut out = Vec::with_capacity(data.len());
            for ch in data.chunks(16) {
                let ks = c.encrypt(&ctr.to_be_bytes());
                for i in 0..ch.len() {
                    out.push(ks[i] ^ ch[i]);
                }
                ctr = ctr.wrapping_add(1);
            }
            out
        }
    }
}

/// Returns None where the standard mode has no valid plaintext (CBC: bad length / bad padding).
pub fn decrypt(mode: Mode, key: &[u8; 16], iv: &[u8; 16], data: &[u8]) -> Option<Vec<u8>> {
    let c = Sm4::new(key);
    match mode {
        Mode::Cbc => {
            if data.is_empty() || data.len() % 16 != 0 {
                return None;
            }
            let mut p = cbc_decrypt_nopad(&c, iv, data);
            let last = *p.last().unwrap() as usize;
            if last == 0 || last > 16 {
                return None;
            }
            p.truncate(p.len() - last);
            Some(p)
        }
        Mode::Cfb => {
            let mut reg = *iv;
            let mut out = Vec::with_capacity(data.len());
            for ch in data.chunks(16) {
                let ks = c.encrypt(&reg);
                for i in 0..ch.len() {
                    out.push(ks[i] ^ ch[i]);
                }
                if ch.len() == 16 {
                    reg.copy_from_slice(ch);
                }
            }
            Some(out)
        }
        Mode::Ofb | Mode::Ctr => Some(encrypt(mode, key, iv, data)),
    }
}

pub fn self_test() -> Result<(), String> {
    // S-box bijective
    let s = sbox();
    let mut seen = [false; 256];
    for &v in s.iter() {
        if seen[v as usize] {
            return Err("reference SM4 S-box is not a bijection".into());
        }
        seen[v as usize] = true;
    }
    if s[0] != 0xD6 || s[0xFF] != 0x48 || s[1] != 0x90 {
        return Err("reference SM4 S-box corner values".into());
    }
    let key: [u8; 16] = hex::decode("0123456789abcdeffedcba9876543210").unwrap().try_into().unwrap();
    let c = Sm4::new(&key);
    if hex::encode(c.encrypt(&key)) != "681edf34d206965e86b3e94f536e4246" {
        return Err("reference SM4 standard vector 1".into());
    }
    let inv = Sm4::key_from_last_round_keys([1, 2, 3, 4]);
    if Sm4::new(&inv).rk[28..32] != [1, 2, 3, 4] {
        return Err("reference SM4 inverse key schedule".into());
    }
    if c.decrypt(&c.encrypt(&key)) != key {
        return Err("reference SM4 decrypt".into());
    }
    for y in [0u32, 1, 0x8000_0000, 0xFFFF_FFFF, 0x0123_4567] {
        if t_data(t_data_inv(y)) != y {
            return Err("reference SM4 inverse round transform".into());
        }
    }
    let b = c.block_with_state_at_round(17, [1, 2, 3, 4], true);
    if c.round_trace(&b, 17, true).0 != 1 {
        return Err("reference SM4 backward rounds".into());
    }
    Ok(())
}

/// GB/T 32907 example 2: one million iterations (slow: used once by C02 only).
pub fn million() -> [u8; 16] {
    let key: [u8; 16] = hex::decode("0123456789abcdeffedcba9876543210").unwrap().try_into().unwrap();
    let c = Sm4::new(&key);
    let mut b = key;
    for _ in 0..1_000_000 {
        b = c.encrypt(&b);
    }
    b
}
