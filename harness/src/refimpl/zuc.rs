//! Reference ZUC-128 / 128-EEA3 / 128-EIA3 written from the specification (ETSI/SAGE v1.6,
//! GM/T 0001-2012). LFSR arithmetic is plain 64-bit arithmetic modulo 2^31-1 (no add31 trick);
//! S0 and S1 are generated from their algebraic descriptions, not copied as tables.

use std::sync::OnceLock;

fn gf_mul(mut a: u16, mut b: u16, poly: u16) -> u8 {
    let mut r = 0u16;
    while b != 0 {
        if b & 1 != 0 {
            r ^= a;
        }
        a <<= 1;
        if a & 0x100 != 0 {
            a ^= poly;
        }
        b >>= 1;
    }
    r as u8
}

fn sboxes() -> &'static ([u8; 256], [u8; 256]) {
    static S: OnceLock<([u8; 256], [u8; 256])> = OnceLock::new();
    S.get_or_init(|| {
        // S1 = M * x^-1 + 0x55 in GF(2^8) / (x^8+x^7+x^3+x+1)
        let cols: [u8; 8] = [0x97, 0x3e, 0x6d, 0xcb, 0xee, 0xdd, 0xbb, 0x77];
        let mut s1 = [0u8; 256];
        for x in 0..256usize {
            let mut inv = 0u8;
            if x != 0 {
                for b in 1..256u16 {
                    if gf_mul(x as u16, b, 0x18B) == 1 {
                        inv = b as u8;
                        break;
                    }
                }
            }
            let mut y = 0u8;
            for i in 0..8 {
                if (inv >> i) & 1 != 0 {
                    y ^= cols[i];
                }
            }
            s1[x] = y ^ 0x55;
        }
        // S0: three-round Feistel over 4-bit boxes P1, P2, P3, then rotate left by 5
        const P1: [u8; 16] = [9, 15, 0, 14, 15, 15, 2, 10, 0, 4, 0, 12, 7, 5, 3, 9];
        const P2: [u8; 16] = [8, 13, 6, 5, 7, 0, 12, 4, 11, 1, 14, 10, 15, 3, 9, 2];
        const P3: [u8; 16] = [2, 6, 10, 6, 0, 13, 10, 15, 3, 3, 13, 5, 0, 9, 12, 13];
        let mut s0 = [0u8; 256];
        for x in 0..256usize {
            let (x1, x2) = ((x >> 4) as u8, (x & 15) as u8);
            let w1 = x1 ^ P1[x2 as usize];
            let w2 = x2 ^ P2[w1 as usize];
            let y1 = w1 ^ P3[w2 as usize];
            s0[x] = ((y1 << 4) | w2).rotate_left(5);
        }
        (s0, s1)
    })
}

const D: [u64; 16] = [
    0x44D7, 0x26BC, 0x626B, 0x135E, 0x5789, 0x35E2, 0x7135, 0x09AF, 0x4D78, 0x2F13, 0x6BC4, 0x1AF1, 0x5E26, 0x3C4D, 0x789A, 0x47AC,
];
const P: u64 = (1 << 31) - 1;

/// The value (before the "0 becomes 2^31-1" rule) that the first initialisation step feeds back: an explicit function of (key, iv),
/// because R1 = R2 = 0 there and W = X0.
pub fn first_feedback(k: &[u8; 16], iv: &[u8; 16]) -> u64 {
    let s: Vec<u64> = (0..16).map(|i| ((k[i] as u64) << 23) | (D[i] << 8) | iv[i] as u64).collect();
    let x0 = ((((s[15] >> 15) << 16) | (s[14] & 0xffff)) & 0xffff_ffff) as u32;
    let u = (x0 >> 1) as u64;
    ((1u64 << 15) * s[15] + (1u64 << 17) * s[13] + (1u64 << 21) * s[10] + (1u64 << 20) * s[4] + (1 + (1u64 << 8)) * s[0] + u) % P
}

/// (key, iv) pairs equal to the base except in bytes 0 and 4 of the key and of the IV, whose first initialisation step feeds back a value
/// congruent to `target` modulo 2^31-1 (meet in the middle over the two cells s0 and s4; about two solutions per target).
pub fn craft_first_feedback(base_k: &[u8; 16], base_iv: &[u8; 16], target: u64) -> Vec<([u8; 16], [u8; 16])> {
    use std::collections::HashMap;
    let target = target % P;
    let (mut k, mut iv) = (*base_k, *base_iv);
    k[0] = 0;
    k[4] = 0;
    iv[0] = 0;
    iv[4] = 0;
    // contribution of everything except the variable parts of s0 and s4
    let fixed = first_feedback(&k, &iv);
    let c0 = |kb: u64, ib: u64| ((1 + (1u64 << 8)) * ((kb << 23) | ib)) % P;
    let c4 = |kb: u64, ib: u64| ((1u64 << 20) * ((kb << 23) | ib)) % P;
    let mut table: HashMap<u64, (u8, u8)> = HashMap::with_capacity(1 << 16);
    for kb in 0..256u64 {
        for ib in 0..256u64 {
            table.entry(c0(kb, ib)).or_insert((kb as u8, ib as u8));
        }
    }
    let mut out = Vec::new();
    for kb in 0..256u64 {
        for ib in 0..256u64 {
            let need = (target + 2 * P - fixed - c4(kb, ib)) % P;
            if let Some((k0, i0)) = table.get(&need) {
                let (mut kk, mut ii) = (k, iv);
                kk[0] = *k0;
                ii[0] = *i0;
                kk[4] = kb as u8;
                ii[4] = ib as u8;
                if first_feedback(&kk, &ii) == target {
                    out.push((kk, ii));
                }
            }
        }
    }
    out
}

pub struct Zuc {
    s: [u64; 16],
    r1: u32,
    r2: u32,
    /// set when the LFSR feedback was congruent to 0 (the "s16 = 0 -> 2^31-1" rule fired)
    pub zero_feedback_hits: u64,
}

impl Zuc {
    pub fn new(k: &[u8; 16], iv: &[u8; 16]) -> Zuc {
        let mut z = Zuc {
            s: [0; 16],
            r1: 0,
            r2: 0,
            zero_feedback_hits: 0,
        };
        for i in 0..16 {
            z.s[i] = ((k[i] as u64) << 23) | (D[i] << 8) | iv[i] as u64;
        }
        for _ in 0..32 {
            let x = z.br();
            let w = z.f(&x);
            z.lfsr(Some((w >> 1) as u64));
        }
        let x = z.br();
        z.f(&x);
        z.lfsr(None);
        z
    }

    fn br(&self) -> [u32; 4] {
        let s = &self.s;
        [
            ((((s[15] >> 15) << 16) | (s[14] & 0xffff)) & 0xffff_ffff) as u32,
            ((((s[11] & 0xffff) << 16) | (s[9] >> 15)) & 0xffff_ffff) as u32,
            ((((s[7] & 0xffff) << 16) | (s[5] >> 15)) & 0xffff_ffff) as u32,
            ((((s[2] & 0xffff) << 16) | (s[0] >> 15)) & 0xffff_ffff) as u32,
        ]
    }

    fn f(&mut self, x: &[u32; 4]) -> u32 {
        let (s0, s1) = sboxes();
        let w = (x[0] ^ self.r1).wrapping_add(self.r2);
        let w1 = self.r1.wrapping_add(x[1]);
        let w2 = self.r2 ^ x[2];
        let l1 = |v: u32| v ^ v.rotate_left(2) ^ v.rotate_left(10) ^ v.rotate_left(18) ^ v.rotate_left(24);
        let l2 = |v: u32| v ^ v.rotate_left(8) ^ v.rotate_left(14) ^ v.rotate_left(22) ^ v.rotate_left(30);
        let sb = |v: u32| {
            ((s0[(v >> 24) as usize] as u32) << 24)
                | ((s1[((v >> 16) & 255) as usize] as u32) << 16)
                | ((s0[((v >> 8) & 255) as usize] as u32) << 8)
                | (s1[(v & 255) as usize] as u32)
        };
        self.r1 = sb(l1((w1 << 16) | (w2 >> 16)));
        self.r2 = sb(l2((w2 << 16) | (w1 >> 16)));
        w
    }

    fn lfsr(&mut self, u: Option<u64>) {
        let s = &self.s;
        // every s[i] < 2^31, so the sum is < 2^53: no overflow in u64
        let mut v = ((1u64 << 15) * s[15] + (1u64 << 17) * s[13] + (1u64 << 21) * s[10] + (1u64 << 20) * s[4] + (1 + (1u64 << 8)) * s[0]) % P;
        if let Some(u) = u {
            v = (v + u) % P;
        }
        if v == 0 {
            v = P;
            self.zero_feedback_hits += 1;
        }
        for i in 0..15 {
            self.s[i] = self.s[i + 1];
        }
        self.s[15] = v;
    }

    pub fn next(&mut self) -> u32 {
        let x = self.br();
        let z = self.f(&x) ^ x[3];
        self.lfsr(None);
        z
    }

    pub fn generate(&mut self, n: usize) -> Vec<u32> {
        (0..n).map(|_| self.next()).collect()
    }
}

pub fn keystream(k: &[u8; 16], iv: &[u8; 16], n: usize) -> Vec<u32> {
    Zuc::new(k, iv).generate(n)
}

pub fn eea3_iv(count: u32, bearer: u32, direction: u32) -> [u8; 16] {
    let mut iv = [0u8; 16];
    iv[0..4].copy_from_slice(&count.to_be_bytes());
    iv[4] = (((bearer & 0x1f) << 3) | ((direction & 1) << 2)) as u8;
    for i in 0..8 {
        iv[8 + i] = iv[i];
    }
    iv
}

/// 128-EEA3: ceil(LENGTH/32) output words, bits beyond LENGTH cleared.
pub fn eea3(key: &[u8; 16], count: u32, bearer: u32, direction: u32, length: u32, m: &[u32]) -> Vec<u32> {
    let l = ((length as u64 + 31) / 32) as usize;
    let z = keystream(key, &eea3_iv(count, bearer, direction), l);
    let mut o: Vec<u32> = (0..l).map(|i| m[i] ^ z[i]).collect();
    if length % 32 != 0 {
        let keep = length % 32;
        o[l - 1] &= !0u32 << (32 - keep);
    }
    o
}

pub fn eia3_iv(count: u32, bearer: u32, direction: u32) -> [u8; 16] {
    let mut iv = [0u8; 16];
    iv[0..4].copy_from_slice(&count.to_be_bytes());
    iv[4] = ((bearer & 0x1f) << 3) as u8;
    for i in 0..8 {
        iv[8 + i] = iv[i];
    }
    iv[8] ^= ((direction & 1) << 7) as u8;
    iv[14] ^= ((direction & 1) << 7) as u8;
    iv
}

/// 128-EIA3: 32-bit MAC over the first LENGTH bits of m.
pub fn eia3(key: &[u8; 16], count: u32, bearer: u32, direction: u32, length: u32, m: &[u32]) -> u32 {
    let l = ((length as u64 + 31) / 32) as usize + 2;
    let z = keystream(key, &eia3_iv(count, bearer, direction), l);
    // 32-bit word starting at keystream bit i
    let word = |i: usize| -> u32 {
        let (j, r) = (i / 32, i % 32);
        let hi = z[j] as u64;
        let lo = if j + 1 < z.len() { z[j + 1] as u64 } else { 0 };
        ((((hi << 32) | lo) >> (32 - r)) & 0xffff_ffff) as u32
    };
    let mut t = 0u32;
    for i in 0..length as usize {
        if (m[i >> 5] >> (31 - (i & 31))) & 1 == 1 {
            t ^= word(i);
        }
    }
    t ^= word(length as usize);
    t ^ z[l - 1]
}

pub fn self_test() -> Result<(), String> {
    let (s0, s1) = sboxes();
    for s in [s0, s1] {
        let mut seen = [false; 256];
        for &v in s.iter() {
            if seen[v as usize] {
                return Err("reference ZUC S-box not a bijection".into());
            }
            seen[v as usize] = true;
        }
    }
    if s0[0] != 0x3E || s1[0] != 0x55 {
        return Err("reference ZUC S-box corner values".into());
    }
    let h = |s: &str| -> [u8; 16] { hex::decode(s).unwrap().try_into().unwrap() };
    if keystream(&[0; 16], &[0; 16], 2) != [0x27bede74, 0x018082da] {
        return Err("reference ZUC vector 1".into());
    }
    if keystream(&[0xff; 16], &[0xff; 16], 2) != [0x0657cfa0, 0x7096398b] {
        return Err("reference ZUC vector 2".into());
    }
    if keystream(&h("3d4c4be96a82fdaeb58f641db17b455b"), &h("84319aa8de6915ca1f6bda6bfbd8c766"), 2) != [0x14f1c272, 0x3279c419] {
        return Err("reference ZUC vector 3".into());
    }
    let z = keystream(&h("4d320bfad4c285bfd6b8bd00f39d8b41"), &h("52959daba0bf176ece2dc315049eb574"), 2000);
    if (z[0], z[1], z[1999]) != (0xed4400e7, 0x0633e5c5, 0x7a574cdb) {
        return Err("reference ZUC vector 4 (2000 words)".into());
    }
    // EIA3 test sets 1 and 2
    if eia3(&[0; 16], 0, 0, 0, 1, &[0]) != 0xc8a9595e {
        return Err("reference EIA3 test set 1".into());
    }
    if eia3(&h("47054125561eb2dda94059da05097850"), 0x561eb2dd, 0x14, 0, 90, &[0, 0, 0]) != 0x6719a088 {
        return Err("reference EIA3 test set 2".into());
    }
    // EEA3 test set 1
    let ck = h("173d14ba5003731d7a60049470f00a29");
    let ibs = [0x6cf65340u32, 0x735552ab, 0x0c9752fa, 0x6f9025fe, 0x0bd675d9, 0x005875b2, 0];
    let obs = [0xa6c85fc6u32, 0x6afb8533, 0xaafc2518, 0xdfe78494, 0x0ee1e4b0, 0x30238cc8, 0];
    if eea3(&ck, 0x66035492, 0xf, 0, 0xc1, &ibs) != obs {
        return Err("reference EEA3 test set 1".into());
    }
    // EIA3 test set (repository's): 577 bits
    let ik = h("c9e6cec4607c72db000aefa88385ab0a");
    let m = [
        0x983b41d4u32, 0x7d780c9e, 0x1ad11d7e, 0xb70391b1, 0xde0b35da, 0x2dc62f83, 0xe7b78d63, 0x06ca0ea0, 0x7e941b7b, 0xe91348f9, 0xfcb170e2, 0x217fecd9,
        0x7f9f68ad, 0xb16e5d7d, 0x21e569d2, 0x80ed775c, 0xebde3f40, 0x93c53881, 0,
    ];
    if eia3(&ik, 0xa94059da, 0x0a, 1, 0x0241, &m) != 0xfae8ff0b {
        return Err("reference EIA3 test set 3 (577 bits)".into());
    }
    Ok(())
}
