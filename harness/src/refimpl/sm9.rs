//! Reference SM9 (GM/T 0044.1-.4): fields in the polynomial basis Fp12 = Fp[w]/(w^12+2)
//! (u = w^6, v = w^3), affine G1/G2 arithmetic, the textbook R-ate pairing (affine Miller loop on the
//! twist, lines evaluated through the untwist), H1/H2, signature, encryption, key exchange.
//! Nothing here uses Montgomery form, Jacobian coordinates, towers, tables or sparse line products.

use super::ec::{Curve, Pt};
use super::field::{big, from_be, mod_inv, to32, Fld, Fp, Fp2};
use super::sm3::{kdf, sm3_parts};
use num_bigint::BigUint;
use num_traits::{One, Zero};
use std::sync::OnceLock;

pub fn p_static() -> &'static BigUint {
    static P: OnceLock<BigUint> = OnceLock::new();
    P.get_or_init(|| big("B6400000 02A3A6F1 D603AB4F F58EC745 21F2934B 1A7AEEDB E56F9B27 E351457D"))
}

pub struct Params {
    pub p: &'static BigUint,
    pub n: BigUint,
    pub t: BigUint,
    pub g1: Curve<Fp>,
    pub g2: Curve<Fp2>,
    pub p1: Pt<Fp>,
    pub p2: Pt<Fp2>,
    /// gamma = (-2)^((p-1)/12): w^p = gamma * w
    pub gamma: BigUint,
    /// (p^4 - p^2 + 1) / N
    pub hard_exp: BigUint,
}

pub fn fp(v: &BigUint) -> Fp {
    Fp::new(v.clone(), p_static())
}

pub fn fp_u(v: u64) -> Fp {
    Fp::new(BigUint::from(v), p_static())
}

pub fn fp2(c0: &BigUint, c1: &BigUint) -> Fp2 {
    Fp2 { c0: fp(c0), c1: fp(c1) }
}

pub fn params() -> &'static Params {
    static PR: OnceLock<Params> = OnceLock::new();
    PR.get_or_init(|| {
        let p = p_static();
        let t = big("600000000058F98A");
        let n = big("B6400000 02A3A6F1 D603AB4F F58EC744 49F2934B 18EA8BEE E56EE19C D69ECF25");
        // the parameters really are the BN family values
        let t2 = &t * &t;
        let t3 = &t2 * &t;
        let t4 = &t3 * &t;
        assert_eq!(*p, &t4 * 36u32 + &t3 * 36u32 + &t2 * 24u32 + &t * 6u32 + 1u32);
        assert_eq!(n, &t4 * 36u32 + &t3 * 36u32 + &t2 * 18u32 + &t * 6u32 + 1u32);
        let p1 = Some((
            fp(&big("93DE051D 62BF718F F5ED0704 487D01D6 E1E40869 09DC3280 E8C4E481 7C66DDDD")),
            fp(&big("21FE8DDA 4F21E607 63106512 5C395BBC 1C1C00CB FA602435 0C464CD7 0A3EA616")),
        ));
        let p2 = Some((
            fp2(&big("37227552 92130B08 D2AAB97F D34EC120 EE265948 D19C17AB F9B7213B AF82D65B"), &big("85AEF3D0 78640C98 597B6027 B441A01F F1DD2C19 0F5E93C4 54806C11 D8806141")),
            fp2(&big("A7CF28D5 19BE3DA6 5F317015 3D278FF2 47EFBA98 A71A0811 6215BBA5 C999A7C7"), &big("17509B09 2E845C12 66BA0D26 2CBEE6ED 0736A96F A347C8BD 856DC76B 84EBEB96")),
        ));
        let minus2 = p - BigUint::from(2u32);
        let gamma = minus2.modpow(&((p - 1u32) / 12u32), p);
        let p2_ = p * p;
        let p4_ = &p2_ * &p2_;
        let num = &p4_ - &p2_ + 1u32;
        assert!((&num % &n).is_zero());
        Params {
            p,
            t,
            g1: Curve { a: fp_u(0), b: fp_u(5) },
            g2: Curve { a: Fp2 { c0: fp_u(0), c1: fp_u(0) }, b: Fp2 { c0: fp_u(0), c1: fp_u(5) } },
            p1,
            p2,
            gamma,
            hard_exp: num / &n,
            n,
        }
    })
}

// ------------------------------------------------------------------ Fp12 in the polynomial basis

#[derive(Clone, PartialEq, Eq, Debug)]
pub struct F12(pub [BigUint; 12]);

pub fn f12_zero() -> F12 {
    F12(std::array::from_fn(|_| BigUint::zero()))
}

pub fn f12_one() -> F12 {
    let mut z = f12_zero();
    z.0[0] = BigUint::one();
    z
}

impl F12 {
    pub fn add(&self, o: &F12) -> F12 {
        let p = p_static();
        F12(std::array::from_fn(|i| (&self.0[i] + &o.0[i]) % p))
    }
    pub fn sub(&self, o: &F12) -> F12 {
        let p = p_static();
        F12(std::array::from_fn(|i| (&self.0[i] + p - &o.0[i]) % p))
    }
    pub fn neg(&self) -> F12 {
        let p = p_static();
        F12(std::array::from_fn(|i| (p - &self.0[i]) % p))
    }
    pub fn mul(&self, o: &F12) -> F12 {
        let p = p_static();
        // schoolbook product, then reduce with w^12 = -2
        let mut r: Vec<BigUint> = vec![BigUint::zero(); 23];
        for i in 0..12 {
            if self.0[i].is_zero() {
                continue;
            }
            for j in 0..12 {
                if o.0[j].is_zero() {
                    continue;
                }
                r[i + j] += &self.0[i] * &o.0[j];
            }
        }
        let mut out: [BigUint; 12] = std::array::from_fn(|_| BigUint::zero());
        for k in 0..12 {
            let lo = &r[k] % p;
            let hi = if k + 12 < 23 { (&r[k + 12] * 2u32) % p } else { BigUint::zero() };
            out[k] = (lo + p - hi) % p;
        }
        F12(out)
    }
    pub fn sqr(&self) -> F12 {
        self.mul(self)
    }
    pub fn pow(&self, e: &BigUint) -> F12 {
        let mut r = f12_one();
        for i in (0..e.bits()).rev() {
            r = r.sqr();
            if e.bit(i) {
                r = r.mul(self);
            }
        }
        r
    }
    pub fn is_zero(&self) -> bool {
        self.0.iter().all(|c| c.is_zero())
    }
    pub fn scale(&self, k: &BigUint) -> F12 {
        let p = p_static();
        F12(std::array::from_fn(|i| (&self.0[i] * k) % p))
    }
    pub fn half(&self) -> F12 {
        let p = p_static();
        let inv2 = mod_inv(&BigUint::from(2u32), p).unwrap();
        self.scale(&inv2)
    }
    /// Frobenius x -> x^(p^k): coefficient i is multiplied by gamma^(i * (1 + p + ... )) — computed as
    /// repeated application of w -> gamma * w (with gamma in Fp fixed by the p-power map).
    pub fn frobenius(&self, k: u32) -> F12 {
        let pr = params();
        let p = pr.p;
        let mut cur = self.clone();
        for _ in 0..k {
            let mut g = BigUint::one();
            let mut out: [BigUint; 12] = std::array::from_fn(|_| BigUint::zero());
            for i in 0..12 {
                out[i] = (&cur.0[i] * &g) % p;
                g = (&g * &pr.gamma) % p;
            }
            cur = F12(out);
        }
        cur
    }
    /// Inverse by the extended Euclidean algorithm on polynomials over Fp modulo w^12 + 2.
    pub fn inv(&self) -> Option<F12> {
        if self.is_zero() {
            return None;
        }
        let p = p_static();
        type Poly = Vec<BigUint>;
        let trim = |mut v: Poly| -> Poly {
            while v.last().map(|c| c.is_zero()).unwrap_or(false) {
                v.pop();
            }
            v
        };
        let deg = |v: &Poly| v.len() as isize - 1;
        let sub_scaled = |a: &Poly, b: &Poly, c: &BigUint, shift: usize| -> Poly {
            // a - c * w^shift * b
            let mut r = a.clone();
            if r.len() < b.len() + shift {
                r.resize(b.len() + shift, BigUint::zero());
            }
            for (i, bc) in b.iter().enumerate() {
                let t = (bc * c) % p;
                r[i + shift] = (&r[i + shift] + p - t) % p;
            }
            r
        };
        let mut m: Poly = vec![BigUint::zero(); 13];
        m[0] = BigUint::from(2u32);
        m[12] = BigUint::one();
        // invariants: r0 = s0 * a (mod m), r1 = s1 * a (mod m)
        let (mut r0, mut r1): (Poly, Poly) = (m, trim(self.0.to_vec()));
        let (mut s0, mut s1): (Poly, Poly) = (vec![], vec![BigUint::one()]);
        while deg(&r1) > 0 {
            // r0 = r0 - q * r1 ; s0 = s0 - q * s1, one leading term at a time
            while deg(&r0) >= deg(&r1) {
                let shift = (deg(&r0) - deg(&r1)) as usize;
                let c = (r0.last().unwrap() * mod_inv(r1.last().unwrap(), p).unwrap()) % p;
                r0 = trim(sub_scaled(&r0, &r1, &c, shift));
                s0 = trim(sub_scaled(&s0, &s1, &c, shift));
            }
            std::mem::swap(&mut r0, &mut r1);
            std::mem::swap(&mut s0, &mut s1);
        }
        if r1.is_empty() {
            return None;
        }
        // r1 is a non-zero constant c = s1 * a  =>  a^-1 = s1 / c   (s1 may have degree >= 12: reduce)
        let cinv = mod_inv(&r1[0], p)?;
        let mut s = s1;
        while s.len() > 12 {
            let top = s.pop().unwrap();
            let k = s.len() - 12;
            s[k] = (&s[k] + p - (top * 2u32) % p) % p;
        }
        s.resize(12, BigUint::zero());
        Some(F12(std::array::from_fn(|i| (&s[i] * &cinv) % p)))
    }
    /// 384 bytes in the standard's order (exponent i + 3j + 6k for (w^i, v^j, u^k), highest first)
    pub fn bytes(&self) -> Vec<u8> {
        let mut out = Vec::with_capacity(384);
        for i in [2usize, 1, 0] {
            for j in [1usize, 0] {
                for k in [1usize, 0] {
                    out.extend_from_slice(&to32(&self.0[i + 3 * j + 6 * k]));
                }
            }
        }
        out
    }
}

/// exponent of w for the library's component order (fp12 part i, fp4 part j, fp2 part k), flat index i*4 + j*2 + k
pub fn tower_exponent(flat: usize) -> usize {
    let (i, j, k) = (flat / 4, (flat / 2) % 2, flat % 2);
    i + 3 * j + 6 * k
}

// ------------------------------------------------------------------ groups

pub fn g1_mul(k: &BigUint, q: &Pt<Fp>) -> Pt<Fp> {
    params().g1.mul(k, q)
}

pub fn g2_mul(k: &BigUint, q: &Pt<Fp2>) -> Pt<Fp2> {
    params().g2.mul(k, q)
}

pub fn p1_mul(k: &BigUint) -> Pt<Fp> {
    static POW: OnceLock<Vec<Pt<Fp>>> = OnceLock::new();
    let pr = params();
    let pow = POW.get_or_init(|| {
        let mut v = Vec::new();
        let mut q = pr.p1.clone();
        for _ in 0..256 {
            v.push(q.clone());
            q = pr.g1.dbl(&q);
        }
        v
    });
    if k.bits() > 256 {
        return pr.g1.mul(k, &pr.p1);
    }
    let mut r = None;
    for i in 0..k.bits() {
        if k.bit(i) {
            r = pr.g1.add(&r, &pow[i as usize]);
        }
    }
    r
}

pub fn p2_mul(k: &BigUint) -> Pt<Fp2> {
    static POW: OnceLock<Vec<Pt<Fp2>>> = OnceLock::new();
    let pr = params();
    let pow = POW.get_or_init(|| {
        let mut v = Vec::new();
        let mut q = pr.p2.clone();
        for _ in 0..256 {
            v.push(q.clone());
            q = pr.g2.dbl(&q);
        }
        v
    });
    if k.bits() > 256 {
        return pr.g2.mul(k, &pr.p2);
    }
    let mut r = None;
    for i in 0..k.bits() {
        if k.bit(i) {
            r = pr.g2.add(&r, &pow[i as usize]);
        }
    }
    r
}

/// 64 bytes x || y
pub fn g1_bytes(q: &Pt<Fp>) -> Option<Vec<u8>> {
    q.as_ref().map(|(x, y)| [x.bytes(), y.bytes()].concat())
}

/// 128 bytes (x1 || x0 || y1 || y0)
pub fn g2_bytes(q: &Pt<Fp2>) -> Option<Vec<u8>> {
    q.as_ref().map(|(x, y)| [&x.bytes()[..], &y.bytes()[..]].concat())
}

// ------------------------------------------------------------------ pairing

fn slope(t: &(Fp2, Fp2), q: &(Fp2, Fp2)) -> Option<Fp2> {
    if t.0 == q.0 {
        if t.1.add(&q.1).is_zero() {
            return None;
        }
        let three = t.0.from_u64_like(3);
        let two = t.0.from_u64_like(2);
        return Some(three.mul(&t.0.sqr()).mul(&two.mul(&t.1).inv()?));
    }
    Some(q.1.sub(&t.1).mul(&q.0.sub(&t.0).inv()?))
}

/// line through T with slope l evaluated at P in G1 (scaled by w^3): yP w^3 - l xP w^2 + (l xT - yT)
fn line(t: &(Fp2, Fp2), l: &Fp2, px: &BigUint, py: &BigUint) -> F12 {
    let p = p_static();
    let c = l.mul(&t.0).sub(&t.1);
    let mut r = f12_zero();
    r.0[0] = c.c0.v.clone();
    r.0[6] = c.c1.v.clone();
    r.0[3] = py.clone();
    r.0[2] = (p - (&l.c0.v * px) % p) % p;
    r.0[8] = (p - (&l.c1.v * px) % p) % p;
    r
}

fn fp2_conj(a: &Fp2) -> Fp2 {
    Fp2 { c0: a.c0.clone(), c1: a.c1.neg() }
}

fn fp2_scale(a: &Fp2, k: &BigUint) -> Fp2 {
    let kk = fp(k);
    Fp2 { c0: a.c0.mul(&kk), c1: a.c1.mul(&kk) }
}

/// Miller loop value (before the final exponentiation). None for an infinite argument or a degenerate step.
pub fn miller(p_g1: &Pt<Fp>, q_g2: &Pt<Fp2>) -> Option<F12> {
    let pr = params();
    let (px, py) = p_g1.as_ref().map(|(x, y)| (x.v.clone(), y.v.clone()))?;
    let q = q_g2.clone()?;
    let a = &pr.t * 6u32 + 2u32;
    let mut t = q.clone();
    let mut f = f12_one();
    for i in (0..a.bits() - 1).rev() {
        let l = slope(&t, &t)?;
        f = f.sqr().mul(&line(&t, &l, &px, &py));
        t = pr.g2.dbl(&Some(t))?;
        if a.bit(i) {
            let l = slope(&t, &q)?;
            f = f.mul(&line(&t, &l, &px, &py));
            t = pr.g2.add(&Some(t), &Some(q.clone()))?;
        }
    }
    let p = pr.p;
    let gam = &pr.gamma;
    let gam_p2 = (p - BigUint::from(2u32)).modpow(&((p * p - 1u32) / 12u32), p);
    let inv = |x: &BigUint, e: u32| mod_inv(&x.modpow(&BigUint::from(e), p), p).unwrap();
    let q1 = (fp2_scale(&fp2_conj(&q.0), &inv(gam, 2)), fp2_scale(&fp2_conj(&q.1), &inv(gam, 3)));
    let q2 = (fp2_scale(&q.0, &inv(&gam_p2, 2)), fp2_scale(&q.1, &inv(&gam_p2, 3)).neg());
    debug_assert!(pr.g2.on_curve(&Some(q1.clone())) && pr.g2.on_curve(&Some(q2.clone())));
    let l = slope(&t, &q1)?;
    f = f.mul(&line(&t, &l, &px, &py));
    t = pr.g2.add(&Some(t), &Some(q1))?;
    let l = slope(&t, &q2)?;
    f = f.mul(&line(&t, &l, &px, &py));
    Some(f)
}

/// f^((p^12 - 1)/N) split as (p^6 - 1)(p^2 + 1) * ((p^4 - p^2 + 1)/N)
pub fn final_exp(f: &F12) -> Option<F12> {
    let pr = params();
    let a = f.frobenius(6).mul(&f.inv()?);
    let b = a.frobenius(2).mul(&a);
    Some(b.pow(&pr.hard_exp))
}

/// the same, as one big exponent (slow; used by the self-test)
pub fn final_exp_plain(f: &F12) -> F12 {
    let pr = params();
    let p = pr.p;
    let e = (p.pow(12) - 1u32) / &pr.n;
    f.pow(&e)
}

/// e(P, Q), P in G1, Q in G2. Infinity in either argument gives 1.
pub fn pairing(p_g1: &Pt<Fp>, q_g2: &Pt<Fp2>) -> F12 {
    if p_g1.is_none() || q_g2.is_none() {
        return f12_one();
    }
    let f = miller(p_g1, q_g2).expect("Miller loop degenerate (points of small order?)");
    final_exp(&f).expect("non-zero Miller value")
}

// ------------------------------------------------------------------ hash-to-range, schemes

pub fn hash_to_range(prefix: u8, z: &[&[u8]]) -> BigUint {
    let mut ha = Vec::with_capacity(64);
    for ct in 1u32..=2 {
        let mut parts: Vec<&[u8]> = vec![std::slice::from_ref(&prefix)];
        parts.extend_from_slice(z);
        let c = ct.to_be_bytes();
        parts.push(&c);
        ha.extend_from_slice(&sm3_parts(&parts));
    }
    ha_to_range(&ha[..40])
}

/// (Ha mod (N-1)) + 1 for a 40-byte Ha
pub fn ha_to_range(ha: &[u8]) -> BigUint {
    let pr = params();
    (from_be(ha) % (&pr.n - 1u32)) + 1u32
}

pub fn h1(id: &[u8], hid: u8) -> BigUint {
    hash_to_range(0x01, &[id, &[hid]])
}

pub fn h2(msg: &[u8], w: &[u8]) -> BigUint {
    hash_to_range(0x02, &[msg, w])
}

/// t2 = k * (H1(ID||hid) + k)^-1 mod N; None when H1 + k = 0
pub fn extract_scalar(k: &BigUint, id: &[u8], hid: u8) -> Option<BigUint> {
    let n = &params().n;
    let t1 = (h1(id, hid) + k) % n;
    let inv = mod_inv(&t1, n)?;
    Some((k * inv) % n)
}

pub fn sign_key(ks: &BigUint, id: &[u8]) -> Option<Pt<Fp>> {
    Some(p1_mul(&extract_scalar(ks, id, 0x01)?))
}

pub fn enc_key(ke: &BigUint, id: &[u8]) -> Option<Pt<Fp2>> {
    Some(p2_mul(&extract_scalar(ke, id, 0x03)?))
}

pub fn exch_key(ke: &BigUint, id: &[u8]) -> Option<Pt<Fp2>> {
    Some(p2_mul(&extract_scalar(ke, id, 0x02)?))
}

/// GM/T 0044.2 signing with a given r, from the master secret (the reference may know it). None = retry.
/// `g` = e(P1, Ppub-s) may be passed in to avoid recomputing the pairing.
pub fn sign_with_r(ds: &Pt<Fp>, g: &F12, msg: &[u8], r: &BigUint) -> Option<(BigUint, Pt<Fp>)> {
    let n = &params().n;
    let w = g.pow(r);
    let h = h2(msg, &w.bytes());
    let l = (r + n - &h) % n;
    if l.is_zero() {
        return None;
    }
    Some((h, g1_mul(&l, ds)))
}

pub fn verify(ppubs: &Pt<Fp2>, g: &F12, id: &[u8], msg: &[u8], h: &BigUint, s: &Pt<Fp>) -> bool {
    let pr = params();
    if h.is_zero() || h >= &pr.n {
        return false;
    }
    if s.is_none() || !pr.g1.on_curve(s) {
        return false;
    }
    let t = g.pow(h);
    let pp = pr.g2.add(&p2_mul(&h1(id, 0x01)), ppubs);
    let u = pairing_cached(s, &pp);
    let w = u.mul(&t);
    &h2(msg, &w.bytes()) == h
}

pub struct Sm9Ciphertext {
    pub c1: Pt<Fp>,
    pub c3: [u8; 32],
    pub c2: Vec<u8>,
}

impl Sm9Ciphertext {
    /// the library's framing: 04 || x || y || C3 || C2
    pub fn encode(&self) -> Vec<u8> {
        let mut v = vec![4u8];
        v.extend_from_slice(&g1_bytes(&self.c1).unwrap());
        v.extend_from_slice(&self.c3);
        v.extend_from_slice(&self.c2);
        v
    }
}

pub fn mac(k2: &[u8], z: &[u8]) -> [u8; 32] {
    sm3_parts(&[z, k2])
}

/// GM/T 0044.4 encryption (KDF/XOR variant) with a given r. `g` = e(Ppub-e, P2). None = retry.
pub fn encrypt_with_r(ppube: &Pt<Fp>, g: &F12, id: &[u8], msg: &[u8], r: &BigUint) -> Option<Sm9Ciphertext> {
    let pr = params();
    let qb = pr.g1.add(&p1_mul(&h1(id, 0x03)), ppube);
    let c1 = g1_mul(r, &qb);
    let c1b = g1_bytes(&c1)?;
    let w = g.pow(r);
    let k = kdf(&[&c1b[..], &w.bytes()[..], id].concat(), msg.len() + 32);
    let (k1, k2) = k.split_at(msg.len());
    if k1.iter().all(|b| *b == 0) {
        return None;
    }
    let c2: Vec<u8> = msg.iter().zip(k1.iter()).map(|(a, b)| a ^ b).collect();
    let c3 = mac(k2, &c2);
    Some(Sm9Ciphertext { c1, c3, c2 })
}

/// e(P, Q) memoised on the encodings of P and Q: many tampering cases share the points of their base case
pub fn pairing_cached(p_g1: &Pt<Fp>, q_g2: &Pt<Fp2>) -> F12 {
    use std::collections::HashMap;
    use std::sync::Mutex;
    static CACHE: Mutex<Option<HashMap<Vec<u8>, F12>>> = Mutex::new(None);
    let mut key = Vec::with_capacity(200);
    match p_g1 {
        Some((x, y)) => {
            key.extend_from_slice(&x.bytes());
            key.extend_from_slice(&y.bytes());
        }
        None => key.push(0),
    }
    match q_g2 {
        Some((x, y)) => {
            key.extend_from_slice(&x.bytes());
            key.extend_from_slice(&y.bytes());
        }
        None => key.push(0),
    }
    if let Some(v) = CACHE.lock().unwrap().get_or_insert_with(HashMap::new).get(&key) {
        return v.clone();
    }
    let w = pairing(p_g1, q_g2);
    let mut g = CACHE.lock().unwrap();
    let m = g.get_or_insert_with(HashMap::new);
    if m.len() > 2048 {
        m.clear();
    }
    m.insert(key, w.clone());
    w
}

fn decrypt_pairing_cached(_c1_bytes: &[u8], c1: &Pt<Fp>, de: &Pt<Fp2>) -> Vec<u8> {
    pairing_cached(c1, de).bytes().to_vec()
}

/// A conforming ciphertext whose C1 is a *given* point of G1: w = e(C1, de) is computed with the recipient's key.
pub fn encrypt_to_c1(de: &Pt<Fp2>, id: &[u8], c1: &Pt<Fp>, msg: &[u8]) -> Option<Sm9Ciphertext> {
    let pr = params();
    if c1.is_none() || !pr.g1.on_curve(c1) {
        return None;
    }
    let c1b = g1_bytes(c1)?;
    let w = decrypt_pairing_cached(&c1b, c1, de);
    let k = kdf(&[&c1b[..], &w[..], id].concat(), msg.len() + 32);
    let (k1, k2) = k.split_at(msg.len());
    if k1.iter().all(|b| *b == 0) {
        return None;
    }
    let c2: Vec<u8> = msg.iter().zip(k1.iter()).map(|(a, b)| a ^ b).collect();
    let c3 = mac(k2, &c2);
    Some(Sm9Ciphertext { c1: c1.clone(), c3, c2 })
}

/// GM/T 0044.4 decryption of 04||x||y||C3||C2. None = the standard reports an error.
pub fn decrypt(de: &Pt<Fp2>, id: &[u8], ct: &[u8]) -> Option<Vec<u8>> {
    let pr = params();
    if ct.len() < 65 + 32 + 1 || ct[0] != 4 {
        return None;
    }
    let (x, y) = (from_be(&ct[1..33]), from_be(&ct[33..65]));
    if &x >= pr.p || &y >= pr.p {
        return None;
    }
    let c1 = Some((fp(&x), fp(&y)));
    if !pr.g1.on_curve(&c1) {
        return None;
    }
    let c3 = &ct[65..97];
    let c2 = &ct[97..];
    let w = decrypt_pairing_cached(&ct[1..65], &c1, de);
    let k = kdf(&[&ct[1..65], &w[..], id].concat(), c2.len() + 32);
    let (k1, k2) = k.split_at(c2.len());
    if k1.iter().all(|b| *b == 0) {
        return None;
    }
    if mac(k2, c2) != c3 {
        return None;
    }
    Some(c2.iter().zip(k1.iter()).map(|(a, b)| a ^ b).collect())
}

/// GM/T 0044.3 key exchange, initiator side: SK_A from rA, R_A, R_B.
pub fn exch_initiator(ppube: &Pt<Fp>, g: &F12, de_a: &Pt<Fp2>, id_a: &[u8], id_b: &[u8], r_a: &BigUint, ra_pt: &Pt<Fp>, rb_pt: &Pt<Fp>, klen: usize) -> Option<Vec<u8>> {
    let pr = params();
    let _ = ppube;
    if rb_pt.is_none() || !pr.g1.on_curve(rb_pt) {
        return None;
    }
    let g1 = g.pow(r_a);
    let g2 = pairing(rb_pt, de_a);
    let g3 = g2.pow(r_a);
    Some(kdf(&[id_a, id_b, &g1_bytes(ra_pt)?[..], &g1_bytes(rb_pt)?[..], &g1.bytes()[..], &g2.bytes()[..], &g3.bytes()[..]].concat(), klen))
}

/// responder side: SK_B from rB, R_A, R_B.
pub fn exch_responder(g: &F12, de_b: &Pt<Fp2>, id_a: &[u8], id_b: &[u8], r_b: &BigUint, ra_pt: &Pt<Fp>, rb_pt: &Pt<Fp>, klen: usize) -> Option<Vec<u8>> {
    let pr = params();
    if ra_pt.is_none() || !pr.g1.on_curve(ra_pt) {
        return None;
    }
    let g1 = pairing_cached(ra_pt, de_b);
    let g2 = g.pow(r_b);
    let g3 = g1.pow(r_b);
    Some(kdf(&[id_a, id_b, &g1_bytes(ra_pt)?[..], &g1_bytes(rb_pt)?[..], &g1.bytes()[..], &g2.bytes()[..], &g3.bytes()[..]].concat(), klen))
}

/// R = [r]([H1(ID_peer || 02)]P1 + Ppub-e)
pub fn exch_r(ppube: &Pt<Fp>, id_peer: &[u8], r: &BigUint) -> Pt<Fp> {
    let pr = params();
    g1_mul(r, &pr.g1.add(&p1_mul(&h1(id_peer, 0x02)), ppube))
}

pub fn self_test() -> Result<(), String> {
    let pr = params();
    if !pr.g1.on_curve(&pr.p1) || !pr.g2.on_curve(&pr.p2) {
        return Err("reference SM9: generators not on their curves".into());
    }
    if g1_mul(&pr.n, &pr.p1).is_some() || g2_mul(&pr.n, &pr.p2).is_some() {
        return Err("reference SM9: generators do not have order N".into());
    }
    if p2_mul(&BigUint::from(0xABCDEFu32)) != g2_mul(&BigUint::from(0xABCDEFu32), &pr.p2) {
        return Err("reference SM9: cached G2 multiplication".into());
    }
    // field sanity: a * a^-1 = 1 ; frobenius formula == x^p ; final exponent split == plain
    let a = F12(std::array::from_fn(|i| from_be(&crate::engine::expand_bytes(77 + i as u64, 32)) % pr.p));
    if a.mul(&a.inv().ok_or("inv")?) != f12_one() {
        return Err("reference SM9: Fp12 inverse".into());
    }
    if a.frobenius(1) != a.pow(pr.p) {
        return Err("reference SM9: Frobenius formula != x^p".into());
    }
    // Annex A: g = e(P1, Ppub-s) for ks = 0130E7...
    let ks = big("000130E7 8459D785 45CB54C5 87E02CF4 80CE0B66 340F319F 348A1D5B 1F2DC5F4");
    let ppubs = p2_mul(&ks);
    let f = miller(&pr.p1, &ppubs).ok_or("miller")?;
    let g = final_exp(&f).ok_or("final exp")?;
    if g != final_exp_plain(&f) {
        return Err("reference SM9: split final exponentiation != plain".into());
    }
    let gb = hex::encode_upper(&g.bytes()[..64]);
    if gb != "4E378FB5561CD0668F906B731AC58FEE25738EDF09CADC7A29C0ABC0177AEA6D28B3404A61908F5D6198815C99AF1990C8AF38655930058C28C21BB539CE0000" {
        return Err(format!("reference SM9: Annex g = e(P1,Ppub-s) first coefficients: {}", gb));
    }
    if g.pow(&pr.n) != f12_one() || g == f12_one() {
        return Err("reference SM9: g does not have order N".into());
    }
    // bilinearity of the reference itself
    let e11 = pairing(&pr.p1, &pr.p2);
    let e23 = pairing(&p1_mul(&BigUint::from(2u32)), &p2_mul(&BigUint::from(3u32)));
    if e23 != e11.pow(&BigUint::from(6u32)) {
        return Err("reference SM9: pairing not bilinear".into());
    }
    // Annex A signature
    let ida = b"Alice";
    let ds = sign_key(&ks, ida).ok_or("ds")?;
    let dsb = hex::encode_upper(g1_bytes(&ds).unwrap());
    if dsb != "A5702F05CF1315305E2D6EB64B0DEB923DB1A0BCF0CAFF90523AC8754AA6982078559A844411F9825C109F5EE3F52D720DD01785392A727BB1556952B2B013D3" {
        return Err(format!("reference SM9: Annex ds_A: {}", dsb));
    }
    let r = big("033C86 16B06704 813203DF D0096502 2ED15975 C662337A ED648835 DC4B1CBE");
    let (h, s) = sign_with_r(&ds, &g, b"Chinese IBS standard", &r).ok_or("annex sign")?;
    if format!("{:064X}", h) != "823C4B21E4BD2DFE1ED92C606653E996668563152FC33F55D7BFBB9BD9705ADB" {
        return Err(format!("reference SM9: Annex h: {:064X}", h));
    }
    if hex::encode_upper(g1_bytes(&s).unwrap()) != "73BF96923CE58B6AD0E13E9643A406D8EB98417C50EF1B29CEF9ADB48B6D598C856712F1C2E0968AB7769F42A99586AED139D5B8B3E15891827CC2ACED9BAA05" {
        return Err("reference SM9: Annex S".into());
    }
    if !verify(&ppubs, &g, ida, b"Chinese IBS standard", &h, &s) {
        return Err("reference SM9: Annex signature does not verify".into());
    }
    // Annex C encryption
    let ke = big("0001EDEE 3778F441 F8DEA3D9 FA0ACC4E 07EE36C9 3F9A0861 8AF4AD85 CEDE1C22");
    let ppube = p1_mul(&ke);
    let ge = pairing(&ppube, &pr.p2);
    let re = big("0000AAC0 541779C8 FC45E3E2 CB25C12B 5D2576B2 129AE8BB 5EE2CBE5 EC9E785C");
    let ct = encrypt_with_r(&ppube, &ge, b"Bob", b"Chinese IBE standard", &re).ok_or("annex enc")?;
    let want = "04\
2445471164490618E1EE20528FF1D545B0F14C8BCAA44544F03DAB5DAC07D8FF42FFCA97D57CDDC05EA405F2E586FEB3A6930715532B8000759F13059ED59AC0\
BA672387BCD6DE5016A158A52BB2E7FC429197BCAB70B25AFEE37A2B9DB9F367\
1B5F5B0E951489682F3E64E1378CDD5DA9513B1C";
    if hex::encode_upper(ct.encode()) != want {
        return Err(format!("reference SM9: Annex ciphertext: {}", hex::encode_upper(ct.encode())));
    }
    let de = enc_key(&ke, b"Bob").ok_or("de")?;
    if decrypt(&de, b"Bob", &ct.encode()).as_deref() != Some(&b"Chinese IBE standard"[..]) {
        return Err("reference SM9: Annex ciphertext does not decrypt".into());
    }
    // Annex B key exchange
    let kx = big("0002E65B 0762D042 F51F0D23 542B13ED 8CFA2E9A 0E720636 1E013A28 3905E31F");
    let ppx = p1_mul(&kx);
    let gx = pairing(&ppx, &pr.p2);
    let ra = big("00005879 DD1D51E1 75946F23 B1B41E93 BA31C584 AE59A426 EC1046A4 D03B06C8");
    let rb = big("00018B98 C44BEF9F 8537FB7D 071B2C92 8B3BC65B D3D69E1E EE213564 905634FE");
    let (ra_pt, rb_pt) = (exch_r(&ppx, b"Bob", &ra), exch_r(&ppx, b"Alice", &rb));
    let (dea, deb) = (exch_key(&kx, b"Alice").ok_or("deA")?, exch_key(&kx, b"Bob").ok_or("deB")?);
    let ska = exch_initiator(&ppx, &gx, &dea, b"Alice", b"Bob", &ra, &ra_pt, &rb_pt, 16).ok_or("ska")?;
    let skb = exch_responder(&gx, &deb, b"Alice", b"Bob", &rb, &ra_pt, &rb_pt, 16).ok_or("skb")?;
    if ska != skb || hex::encode_upper(&ska) != "C5C13A8F59A97CDEAE64F16A2272A9E7" {
        return Err(format!("reference SM9: Annex exchange key {} / {}", hex::encode_upper(&ska), hex::encode_upper(&skb)));
    }
    Ok(())
}
