//! Shared generators.
use proptest::prelude::*;

/// Message lengths biased to the SM3 padding boundaries.
pub fn boundary_len(max: usize) -> impl Strategy<Value = usize> {
    let blocks = max / 64;
    prop_oneof![
        3 => (0..=blocks.max(1), prop::sample::select(vec![0usize, 1, 54, 55, 56, 57, 62, 63])).prop_map(move |(b, o)| (b * 64 + o).min(max)),
        2 => 0..=max,
        1 => 0..=200usize,
    ]
}

use crate::engine::Hex;
use num_bigint::BigUint;
use num_traits::One;

fn be32(v: &BigUint) -> Vec<u8> {
    let b = v.to_bytes_be();
    let mut o = vec![0u8; 32usize.saturating_sub(b.len())];
    o.extend_from_slice(&b[b.len().saturating_sub(32)..]);
    o
}

/// 256-bit values (32 bytes big-endian) biased to the corners that matter for arithmetic
/// modulo `m`: 0..3, m-4..m+64 (when they fit), powers of two and their predecessors,
/// boundary-limb patterns, uniform.
pub fn scalar256(m: &BigUint) -> impl Strategy<Value = Hex> {
    let m1 = m.clone();
    let m2 = m.clone();
    let limb = prop::sample::select(vec![0u64, 1, 1 << 32, 1 << 63, u64::MAX, u64::MAX - 1, 0xFFFF_FFFF]);
    prop_oneof![
        2 => (0u64..8).prop_map(|v| Hex(be32(&BigUint::from(v)))),
        2 => (1u64..=8).prop_map(move |v| Hex(be32(&(&m1 - BigUint::from(v))))),
        2 => (0u64..=64).prop_map(move |v| { let x = &m2 + BigUint::from(v); Hex(be32(&(x % (BigUint::one() << 256)))) }),
        2 => (0u32..256).prop_map(|i| Hex(be32(&(BigUint::one() << i)))),
        2 => (1u32..=256).prop_map(|i| Hex(be32(&((BigUint::one() << i) - BigUint::one())))),
        3 => prop::array::uniform4(limb).prop_map(|l| { let mut v = Vec::new(); for x in l.iter() { v.extend_from_slice(&x.to_be_bytes()); } Hex(v) }),
        2 => (0u32..32, 1u8..=255).prop_map(|(i, b)| { let mut v = vec![0u8; 32]; v[31 - i as usize] = b; Hex(v) }),
        8 => prop::array::uniform32(any::<u8>()).prop_map(|a| Hex(a.to_vec())),
    ]
}

/// canonical residues modulo m with the same bias (reduced)
pub fn residue(m: &BigUint) -> impl Strategy<Value = Hex> {
    let mm = m.clone();
    scalar256(m).prop_map(move |h| Hex(be32(&(BigUint::from_bytes_be(&h.0) % &mm))))
}

/// every value built from boundary limbs that is < m
pub fn boundary_limb_values(m: &BigUint) -> Vec<BigUint> {
    let limbs = [0u64, 1, 1 << 32, 1 << 63, u64::MAX];
    let mut out = Vec::new();
    for a in limbs {
        for b in limbs {
            for c in limbs {
                for d in limbs {
                    let v = (((BigUint::from(a) << 64) + BigUint::from(b) << 64) + BigUint::from(c) << 64) + BigUint::from(d);
                    if &v < m {
                        out.push(v);
                    }
                }
            }
        }
    }
    out
}

/// values within +-4 of 0, m, and 2^256 - m, reduced into [0, m)
pub fn near_values(m: &BigUint, others: &[BigUint]) -> Vec<BigUint> {
    let r = BigUint::one() << 256;
    let mut out = Vec::new();
    let mut centers = vec![BigUint::from(0u32), m.clone(), &r - m];
    for o in others {
        centers.push(o.clone());
        centers.push(&r - o);
    }
    for c in centers {
        for d in 0..=4u32 {
            out.push((&c + BigUint::from(d)) % m);
            out.push((&c + m - BigUint::from(d)) % m);
        }
    }
    out.sort();
    out.dedup();
    out
}

pub fn hex32(v: &BigUint) -> Hex {
    Hex(be32(v))
}

/// SM2/SM9 private scalars in [1, upper] (32 bytes), biased to edges.
pub fn secret_scalar(upper: &BigUint) -> impl Strategy<Value = Hex> {
    let u = upper.clone();
    scalar256(upper).prop_map(move |h| {
        let v = BigUint::from_bytes_be(&h.0) % &u; // [0, upper-1]
        Hex(be32(&(v + BigUint::one())))
    })
}

/// message descriptor: (len, seed) -> bytes via expand_bytes; lengths biased to hash-block boundaries
pub fn msg_len(max: usize) -> impl Strategy<Value = usize> {
    prop_oneof![2 => 0..=40usize, 2 => boundary_len(max.min(300)), 1 => 0..=max]
}

/// 256-bit scalars with an all-zero 64-bit limb *below* a non-zero limb (and a few with zero nibbles / bytes at limb boundaries): loops that
/// scan a scalar limb by limb or window by window have their shortcuts exactly there. Limbs are drawn from {0, 1, 2^63, 2^64-1, pseudo-random}.
pub fn zero_limb_scalars() -> Vec<BigUint> {
    let rnd = |i: u64| u64::from_le_bytes(crate::engine::expand_bytes(0x2e70_11b5 ^ i, 8).try_into().unwrap()) | 1;
    let mut out = Vec::new();
    let choices = |i: u64| [0u64, 1, 1 << 63, u64::MAX, rnd(i)];
    let mut idx = 0u64;
    for a in 0..5usize {
        for b in 0..5usize {
            for c in 0..5usize {
                for d in 0..5usize {
                    idx += 1;
                    let l = [choices(idx)[a], choices(idx + 1000)[b], choices(idx + 2000)[c], choices(idx + 3000)[d]]; // least significant first
                    let top = match l.iter().rposition(|x| *x != 0) {
                        Some(t) => t,
                        None => continue,
                    };
                    if !l[..top].iter().any(|x| *x == 0) {
                        continue;
                    }
                    let mut v = BigUint::from(0u32);
                    for i in (0..4).rev() {
                        v = (v << 64) + l[i];
                    }
                    out.push(v);
                }
            }
        }
    }
    // zero runs that straddle or stop just short of a limb boundary
    for (lo, hi) in [(60u32, 64u32), (56, 72), (64, 124), (1, 64), (64, 127), (128, 191), (4, 192)] {
        let ones = (BigUint::one() << 256u32) - 1u32;
        let hole = ((BigUint::one() << (hi - lo)) - 1u32) << lo;
        out.push(&ones ^ &hole);
    }
    out.sort();
    out.dedup();
    out
}
