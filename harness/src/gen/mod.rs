//! Shared generators.
use proptest::prelude::*;

/// Message lengths biased to the SM3 padding boundaries.
pub fn boundary_len(max: usize) -> impl Strategy<Value = usize> {
    let blocks = max / 64;
    prop_oneof![
        3 => (0..=blocks.max(1), prop::sample::select(vec![0usize, 1, 54, 55, 56, 57, 62, 63])).prop_map(move |(b, o)| (b * 64 + o).min(max)),
        2 => 0..=max,
        1 => 0..=200usize,
    ]
}
