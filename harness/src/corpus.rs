//! Read-only access to the committed golden corpus (/verif/corpus).

use serde_json::Value;
use std::sync::OnceLock;

static OPENSSL: OnceLock<Value> = OnceLock::new();

pub fn openssl() -> &'static Value {
    OPENSSL.get_or_init(|| {
        let p = format!("{}/corpus/openssl.json", crate::engine::VERIF_ROOT);
        let t = std::fs::read_to_string(&p).unwrap_or_else(|e| panic!("cannot read {}: {}", p, e));
        serde_json::from_str(&t).expect("corpus json")
    })
}

pub fn hexv(v: &Value) -> Vec<u8> {
    hex::decode(v.as_str().expect("hex string")).expect("valid hex")
}
