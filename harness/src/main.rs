//! gmverif — property-based testing / fuzzing harness for CrayfishGo/gm-rs.
//!   gmverif <ID> quick|thorough       run one property check
//!   gmverif replay <file>             re-execute one saved case (no proptest involved)
//!   gmverif selftest                  check the reference implementations against their anchors

use gmverif::engine::{self, Ctx, Tier};
use gmverif::{props, refimpl};

fn prop_static(id: &str) -> Option<&'static str> {
    props::ALL.iter().map(|p| p.0).find(|p| *p == id)
}

fn run_property(ctx: &Ctx) {
    for (id, f) in props::ALL {
        if *id == ctx.prop {
            f(ctx);
            return;
        }
    }
    unreachable!();
}

/// Replay all regression files of this property (strict: they must pass or be an open known finding).
fn run_regress(ctx_prop: &'static str, tier: Tier, seed: u64) -> Vec<String> {
    let dir = format!("{}/replays/regress", engine::VERIF_ROOT);
    let mut failures = vec![];
    let mut files: Vec<_> = match std::fs::read_dir(&dir) {
        Ok(rd) => rd.filter_map(|e| e.ok()).map(|e| e.path()).collect(),
        Err(_) => return failures,
    };
    files.sort();
    for p in files {
        let name = p.file_name().unwrap().to_string_lossy().to_string();
        if !name.starts_with(ctx_prop) || !name.ends_with(".json") {
            continue;
        }
        match replay_file(&p.to_string_lossy(), tier, seed, true) {
            0 => {}
            _ => failures.push(p.to_string_lossy().to_string()),
        }
    }
    failures
}

fn replay_file(path: &str, tier: Tier, seed: u64, quiet: bool) -> i32 {
    let text = match std::fs::read_to_string(path) {
        Ok(t) => t,
        Err(e) => {
            println!("REPLAY-ERROR cannot read {}: {}", path, e);
            return 3;
        }
    };
    let doc: serde_json::Value = match serde_json::from_str(&text) {
        Ok(d) => d,
        Err(e) => {
            println!("REPLAY-ERROR cannot parse {}: {}", path, e);
            return 3;
        }
    };
    let prop = doc["property"].as_str().unwrap_or("");
    let Some(prop) = prop_static(prop) else {
        println!("REPLAY-ERROR unknown property in {}", path);
        return 3;
    };
    let sub = doc["sub"].as_str().unwrap_or("").to_string();
    let mut ctx = Ctx::new(prop, tier, seed);
    ctx.replay = Some((sub.clone(), doc["case"].clone()));
    run_property(&ctx);
    let r = ctx.replay_result.lock().unwrap().take();
    match r {
        None => {
            println!("REPLAY-ERROR property={} sub={} did not run (unknown sub-check?)", prop, sub);
            3
        }
        Some(Ok(p)) => {
            if !quiet {
                println!("REPLAY property={} sub={} result=PASS nt={} class={}", prop, sub, p.nt, p.class);
            }
            0
        }
        Some(Err(f)) => {
            if ctx.known.is_open(prop, &f.key) {
                println!(
                    "KNOWN-FINDING: property={} {} [key={} replay={}]",
                    prop,
                    ctx.known.describe(prop, &f.key),
                    f.key,
                    path
                );
                0
            } else {
                println!("VIOLATION property={} replay={}", prop, path);
                println!("  sub={} key={}", sub, f.key);
                println!("  detail={}", engine::truncate_str(&f.detail, 2000));
                1
            }
        }
    }
}

fn main() {
    let args: Vec<String> = std::env::args().collect();
    engine::install_silent_panic_hook();
    let seed: u64 = std::env::var("VERIF_SEED")
        .ok()
        .and_then(|s| s.trim().parse::<u64>().ok())
        .unwrap_or(1);
    let threads = std::env::var("VERIF_THREADS")
        .ok()
        .and_then(|s| s.parse::<usize>().ok())
        .unwrap_or(16);
    rayon::ThreadPoolBuilder::new()
        .num_threads(threads)
        .stack_size(16 << 20)
        .build_global()
        .unwrap();
    if args.len() < 2 {
        eprintln!("usage: gmverif <ID> quick|thorough | replay <file> | selftest");
        std::process::exit(3);
    }
    match args[1].as_str() {
        "selftest" => match refimpl::self_test_all() {
            Ok(n) => {
                println!("selftest ok ({} anchors)", n);
            }
            Err(e) => {
                println!("SELFTEST-FAILED {}", e);
                std::process::exit(3);
            }
        },
        "find-zuc-zero" => {
            // off-line search for (key, iv) whose keystream generation hits the LFSR feedback == 0 case
            use rayon::prelude::*;
            let nkeys: u64 = args[2].parse().unwrap();
            let words: usize = args[3].parse().unwrap();
            let hits: Vec<String> = (0..nkeys)
                .into_par_iter()
                .filter_map(|i| {
                    let kb = engine::expand_bytes(0x5a5a_0000_0000 + i, 32);
                    let (k, iv): ([u8; 16], [u8; 16]) = (kb[..16].try_into().unwrap(), kb[16..].try_into().unwrap());
                    let mut z = refimpl::zuc::Zuc::new(&k, &iv);
                    let init_hits = z.zero_feedback_hits;
                    for w in 0..words {
                        z.next();
                        if z.zero_feedback_hits > init_hits {
                            return Some(format!("{{\"key\":\"{}\",\"iv\":\"{}\",\"word\":{},\"init_hits\":{}}}", hex::encode(k), hex::encode(iv), w, init_hits));
                        }
                    }
                    if init_hits > 0 {
                        return Some(format!("{{\"key\":\"{}\",\"iv\":\"{}\",\"word\":-1,\"init_hits\":{}}}", hex::encode(k), hex::encode(iv), init_hits));
                    }
                    None
                })
                .collect();
            println!("[{}]", hits.join(",\n"));
        }
        "find-sm2-small" => {
            // off-line search: messages whose reference signature (fixed d, k, default ID) has r (mode 0) or s (mode 1)
            // below 2^256 - n, so that r + n (s + n) still fits in 32 bytes. ~2^32 trials.
            use num_bigint::BigUint;
            use rayon::prelude::*;
            use refimpl::field::{from_be, mod_inv};
            let mode: u32 = args[2].parse().unwrap();
            let trials: u64 = args[3].parse().unwrap();
            let pr = refimpl::sm2::params();
            let n = pr.n.clone();
            let d = from_be(&engine::expand_bytes(0x5133, 32)) % (&n - 2u32) + 1u32;
            let k = from_be(&engine::expand_bytes(0x5134, 32)) % (&n - 1u32) + 1u32;
            let pk = refimpl::sm2::g_mul(&d);
            let za = refimpl::sm2::za(b"1234567812345678", &pk);
            let x1 = refimpl::sm2::g_mul(&k).unwrap().0.v;
            let inv = mod_inv(&((&d + 1u32) % &n), &n).unwrap();
            let bound = (BigUint::from(1u32) << 256) - &n;
            let chunk = 1u64 << 20;
            let hit = (0..trials / chunk).into_par_iter().find_map_any(|c| {
                let mut buf = [0u8; 40];
                buf[..32].copy_from_slice(&za);
                for i in c * chunk..(c + 1) * chunk {
                    buf[32..].copy_from_slice(&i.to_be_bytes());
                    let e = refimpl::sm3::sm3(&buf);
                    // quick filter on r for mode 0: r = e + x1 mod n
                    let r = (from_be(&e) + &x1) % &n;
                    if mode == 0 {
                        if r < bound && r != BigUint::from(0u32) {
                            return Some(i);
                        }
                    } else {
                        let s = (&inv * ((&k + &n - (&r * &d) % &n) % &n)) % &n;
                        if s < bound && s != BigUint::from(0u32) {
                            return Some(i);
                        }
                    }
                }
                None
            });
            match hit {
                Some(i) => println!("{{\"mode\":{},\"d\":\"{:064x}\",\"k\":\"{:064x}\",\"msg\":\"{}\"}}", mode, d, k, hex::encode(i.to_be_bytes())),
                None => println!("none"),
            }
        }
        "find-sm2-leading-zero" => {
            // off-line search: scalars d whose point [d]G has a coordinate with >= `zeros` leading zero bytes
            use num_bigint::BigUint;
            use rayon::prelude::*;
            let zeros: usize = args[2].parse().unwrap();
            let steps: u64 = args[3].parse().unwrap();
            let pr = refimpl::sm2::params();
            let hits: Vec<String> = (0..64u64)
                .into_par_iter()
                .flat_map(|t| {
                    let mut d = BigUint::from(1u32) + (BigUint::from(t) << 200) + BigUint::from(t * 7919);
                    let mut p = refimpl::sm2::g_mul(&d);
                    let mut out = Vec::new();
                    for _ in 0..steps {
                        let (x, y) = refimpl::sm2::xy(&p).unwrap();
                        for (name, c) in [("x", x), ("y", y)] {
                            let z = c.iter().take_while(|b| **b == 0).count();
                            if z >= zeros {
                                out.push(format!("{{\"d\":\"{:064x}\",\"coord\":\"{}\",\"zeros\":{}}}", d, name, z));
                            }
                        }
                        p = pr.curve.add(&p, &pr.g);
                        d += 1u32;
                    }
                    out
                })
                .collect();
            println!("[{}]", hits.join(",\n"));
        }
        "fuzz-replay" => {
            // re-execute one libFuzzer input without libFuzzer: gmverif fuzz-replay <target> <file>
            let target = &args[2];
            let data = std::fs::read(&args[3]).expect("read input");
            let prop = gmverif::fuzzdec::property_of(target).unwrap_or("C20");
            let known = engine::known::KnownFindings::load();
            match gmverif::fuzzdec::run_target(target, &data) {
                Ok(()) => println!("REPLAY property={} target={} result=PASS", prop, target),
                Err(f) if known.is_open(prop, &f.key) => println!("KNOWN-FINDING: property={} {} [key={} replay={}]", prop, known.describe(prop, &f.key), f.key, args[3]),
                Err(f) => {
                    println!("VIOLATION property={} replay={}", prop, args[3]);
                    println!("  target={} key={}", target, f.key);
                    println!("  detail={}", engine::truncate_str(&f.detail, 2000));
                    std::process::exit(1);
                }
            }
        }
        "fuzz-seed-corpus" => {
            // write the seed corpus of a target into a directory: gmverif fuzz-seed-corpus <target> <dir>
            std::fs::create_dir_all(&args[3]).unwrap();
            for (i, s) in gmverif::fuzzdec::seed_corpus(&args[2]).iter().enumerate() {
                std::fs::write(format!("{}/seed-{:03}", args[3], i), s).unwrap();
            }
        }
        "replay" => {
            let code = replay_file(&args[2], Tier::Quick, seed, false);
            std::process::exit(code);
        }
        id => {
            let Some(prop) = prop_static(id) else {
                eprintln!("unknown property {}", id);
                std::process::exit(3);
            };
            let tier = match args.get(2).map(|s| s.as_str()).or(std::env::var("VERIF_TIER").ok().as_deref()) {
                Some("thorough") => Tier::Thorough,
                _ => Tier::Quick,
            };
            engine::start_watchdog(tier.pick(1800, 6 * 3600), prop);
            // the references must be sane before anything is believed
            if let Err(e) = refimpl::self_test_for(prop) {
                println!("INCONCLUSIVE property={} reference self-test failed: {}", prop, e);
                std::process::exit(3);
            }
            let regress_failures = run_regress(prop, tier, seed);
            let ctx = Ctx::new(prop, tier, seed);
            run_property(&ctx);
            let mut code = ctx.finish();
            if !regress_failures.is_empty() {
                code = 1;
            }
            std::process::exit(code);
        }
    }
}
