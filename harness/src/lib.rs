//! gmverif — property-based testing / fuzzing harness for CrayfishGo/gm-rs (library part, shared with the libFuzzer targets).

#[macro_use]
pub mod engine;
pub mod corpus;
pub mod fuzzdec;
pub mod gen;
pub mod props;
pub mod refimpl;
