use crate::engine::Ctx;
pub mod c01;
pub mod c02;

pub const ALL: &[(&str, fn(&Ctx))] = &[("C01", c01::run), ("C02", c02::run)];
