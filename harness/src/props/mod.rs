use crate::engine::Ctx;
pub mod c01;
pub mod c02;
pub mod c07;
pub mod c08;
pub mod c11;
pub mod c18;
pub mod sm2util;

pub const ALL: &[(&str, fn(&Ctx))] = &[
    ("C01", c01::run),
    ("C02", c02::run),
    ("C07", c07::run),
    ("C08", c08::run),
    ("C11", c11::run),
    ("C18", c18::run),
];
