use crate::engine::Ctx;
pub mod c01;
pub mod c02;
pub mod c03;
pub mod c04;
pub mod c05;
pub mod c06;
pub mod c07;
pub mod c09;
pub mod c10;
pub mod c08;
pub mod c11;
pub mod c12;
pub mod c13;
pub mod c14;
pub mod c15;
pub mod c16;
pub mod c17;
pub mod c18;
pub mod c19;
pub mod c20;
pub mod multi;
pub mod sm2util;
pub mod sm9util;

pub const ALL: &[(&str, fn(&Ctx))] = &[
    ("C01", c01::run),
    ("C02", c02::run),
    ("C03", c03::run),
    ("C04", c04::run),
    ("C05", c05::run),
    ("C06", c06::run),
    ("C07", c07::run),
    ("C08", c08::run),
    ("C09", c09::run),
    ("C10", c10::run),
    ("C11", c11::run),
    ("C12", c12::run),
    ("C13", c13::run),
    ("C14", c14::run),
    ("C15", c15::run),
    ("C16", c16::run),
    ("C17", c17::run),
    ("C18", c18::run),
    ("C19", c19::run),
    ("C20", c20::run),
];
