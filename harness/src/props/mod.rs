use crate::engine::Ctx;
pub mod c01;

pub const ALL: &[(&str, fn(&Ctx))] = &[("C01", c01::run)];
