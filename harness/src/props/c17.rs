//! C17 — SM9 key exchange: both sides derive the same, standard-conforming key.

use gm_sm9::key::{exch_step_1a, exch_step_1b, exch_step_2a};
use gm_sm9::points::Point;
use num_bigint::BigUint;
use num_traits::One;
use proptest::prelude::*;
use serde::{Deserialize, Serialize};

use super::c10::master;
use super::sm9util::*;
use crate::engine::*;
use crate::gen;
use crate::refimpl::ec::Pt;
use crate::refimpl::field::{big, from_be, from_limbs, to32, Fld, Fp};
use crate::refimpl::sm9 as r9;

#[derive(Serialize, Deserialize, Hash, Debug, Clone, PartialEq, Eq)]
pub enum RTamper {
    /// same point, other Jacobian representation: not an alteration
    SameOtherZ(u64),
    OtherValid(u64),
    Negated,
    OffCurve,
    /// one bit of the affine x||y flipped (almost surely off the curve)
    FlipBit(u16),
    /// another valid point: boundary point #i of G1 (sm9util::g1_edge_points), in affine form
    EdgePoint(usize),
    /// (R_B only) the valid point [s]Q_A for the given s, s = v mod (N-2) + 1: what an honest responder that drew s would have sent
    ScalarPoint(Hex),
    /// point #i of sm9util::g1_near_curve_points: off the curve, on a neighbouring equation with one constant changed, abscissa at a representation boundary
    NearCurve(usize),
}

#[derive(Serialize, Deserialize, Hash, Debug, Clone)]
pub struct Xc {
    pub ke: Hex,
    /// 0: ke as given; 1: ke := H1(ID_B||02) (Q_B = [h1]P1 + Ppub-e becomes a doubling); 2: ke := H1(ID_A||02); 3: ke := 2*H1(ID_B||02); 4: ke := H1(ID_A||02) - 1; 5: ke := N - H1(ID_B||02) + 1
    #[serde(default)]
    pub ke_rel: u8,
    pub ida_len: usize,
    pub idb_len: usize,
    pub id_seed: u64,
    /// None: ID_B independent; Some: ID_B == ID_A
    pub same_id: bool,
    pub klen: usize,
    pub ra: Hex,
    pub rb: Hex,
    pub t_ra: Option<RTamper>,
    pub t_rb: Option<RTamper>,
}

/// (reference point or None if not a curve point, library point, altered?)
fn tamper(honest: &Pt<Fp>, lib_honest: &Point, t: &Option<RTamper>) -> (Option<Pt<Fp>>, Point, bool) {
    let pr = r9::params();
    match t {
        None => (Some(honest.clone()), *lib_honest, false),
        Some(RTamper::SameOtherZ(s)) => (Some(honest.clone()), lib_g1(honest, &(from_be(&expand_bytes(*s, 32)) % (pr.p - 2u32) + 2u32)), false),
        Some(RTamper::OtherValid(s)) => {
            let q = r9::p1_mul(&(from_be(&expand_bytes(*s, 32)) % (&pr.n - 1u32) + 1u32));
            let alt = &q != honest;
            (Some(q.clone()), lib_g1(&q, &(from_be(&expand_bytes(s ^ 9, 32)) % (pr.p - 1u32) + 1u32)), alt)
        }
        Some(RTamper::EdgePoint(i)) => {
            let eps = g1_edge_points();
            let (_, x, y) = &eps[*i % eps.len()];
            let q = Some((r9::fp(x), r9::fp(y)));
            let alt = &q != honest;
            (Some(q.clone()), lib_g1(&q, &BigUint::one()), alt)
        }
        Some(RTamper::ScalarPoint(_)) => (Some(honest.clone()), *lib_honest, false), // resolved by the caller, which knows Q_A
        Some(RTamper::Negated) => {
            let q = pr.g1.neg(honest);
            (Some(q.clone()), lib_g1(&q, &BigUint::one()), true)
        }
        Some(RTamper::OffCurve) => {
            let (x, y) = honest.clone().unwrap();
            let q = Some((x, y.add(&y.from_u64_like(1))));
            (None, lib_g1(&q, &BigUint::one()), true)
        }
        Some(RTamper::NearCurve(i)) => {
            let pts = g1_near_curve_points();
            let (_, x, y) = &pts[*i % pts.len()];
            let q = Some((r9::fp(x), r9::fp(y)));
            (None, lib_g1(&q, &BigUint::one()), true)
        }
        Some(RTamper::FlipBit(i)) => {
            let mut b = r9::g1_bytes(honest).unwrap();
            let i = *i as usize % 512;
            b[i / 8] ^= 0x80 >> (i % 8);
            let q = Some((r9::fp(&(from_be(&b[..32]) % pr.p)), r9::fp(&(from_be(&b[32..]) % pr.p))));
            let on = pr.g1.on_curve(&q);
            (if on { Some(q.clone()) } else { None }, lib_g1(&q, &BigUint::one()), true)
        }
    }
}

fn check(c: &Xc) -> CaseResult {
    let pr = r9::params();
    let n = &pr.n;
    let ida = identity(c.id_seed, c.ida_len);
    let idb = if c.same_id { ida.clone() } else { identity(c.id_seed ^ 0xb0b, c.idb_len) };
    let (h_a, h_b) = (r9::h1(&ida, 0x02), r9::h1(&idb, 0x02));
    let mut ke = match c.ke_rel & 0x0f {
        1 => h_b.clone(),
        2 => h_a.clone(),
        3 => (&h_b * 2u32) % n,
        4 => (&h_a + n - 1u32) % n,
        5 => (n - &h_b + 1u32) % n,
        // 6: the negative of the key "as given"
        6 => n - (from_be(&c.ke) % (n - 1u32) + 1u32),
        _ => from_be(&c.ke) % (n - 1u32) + 1u32,
    };
    if ke == BigUint::from(0u32) {
        ke = BigUint::one();
    }
    let m = master(&ke);
    // Ppub-e handed to the library in the representation selected by the high nibble of ke_rel (0 affine, 1 as computed by Point::g_mul, 2 Z = 2, 3 random Z, 4 Z with Montgomery limbs [1,0,0,0])
    let libm = {
        let mut l = m.lib;
        l.ppube = g1_in_rep(&m.ppube, Some(&m.ke), c.ke_rel >> 4, c.id_seed);
        l
    };
    let (ra, rb) = (from_be(&c.ra) % (n - 2u32) + 1u32, from_be(&c.rb) % (n - 2u32) + 1u32);
    let (Some(dea_ref), Some(deb_ref)) = (r9::exch_key(&ke, &ida), r9::exch_key(&ke, &idb)) else { return pass(false, "extraction-undefined") };
    let key_a = catch(|| libm.extract_exch_key(&ida)).map_err(|p| Fail { key: "entry=Sm9EncMasterKey::extract_exch_key outcome=panic".into(), detail: p })?.ok_or_else(|| Fail { key: "entry=Sm9EncMasterKey::extract_exch_key input=valid outcome=none".into(), detail: "".into() })?;
    let key_b = catch(|| libm.extract_exch_key(&idb)).map_err(|p| Fail { key: "entry=Sm9EncMasterKey::extract_exch_key outcome=panic".into(), detail: p })?.ok_or_else(|| Fail { key: "entry=Sm9EncMasterKey::extract_exch_key input=valid outcome=none".into(), detail: "".into() })?;
    let tampered = c.t_ra.is_some() || c.t_rb.is_some();

    // A1-A3
    let ra2 = from_be(&expand_bytes(c.id_seed ^ 0x1701, 32)) % (n - 2u32) + 1u32;
    let (res, left) = with_sm9_candidates(vec![to32(&ra), to32(&ra2)], || exch_step_1a(&libm, &idb));
    let (ra_lib, ra_scalar) = res.map_err(|p| Fail { key: "entry=exch_step_1a outcome=panic".into(), detail: p })?;
    let ra_used = if left == 1 { ra.clone() } else { ra2 };
    ensure!(from_limbs(&ra_scalar) == ra_used, "entry=exch_step_1a outcome=wrong-scalar", "returned rA {:x}, injected {:x}", from_limbs(&ra_scalar), ra_used);
    let ra_ref = r9::exch_r(&m.ppube, &idb, &ra_used);
    ensure!(ref_g1(&ra_lib).ok() == Some(ra_ref.clone()), "entry=exch_step_1a outcome=wrong-R_A", "rA={:x}: library {:?}", ra_used, ref_g1(&ra_lib).map(|p| show1(&p)));
    // in transit to B
    let (ra_seen_ref, ra_seen_lib, ra_altered) = tamper(&ra_ref, &ra_lib, &c.t_ra);
    // B1-B7
    let rb2 = from_be(&expand_bytes(c.id_seed ^ 0x1702, 32)) % (n - 2u32) + 1u32;
    let (res, left) = with_sm9_candidates(vec![to32(&rb), to32(&rb2)], || exch_step_1b(&libm, &ida, &idb, &key_b, &ra_seen_lib, c.klen));
    let r1b = res.map_err(|p| Fail { key: format!("entry=exch_step_1b input={} outcome=panic", if ra_seen_ref.is_some() { "on-curve-R_A" } else { "off-curve-R_A" }), detail: p })?;
    let rb_used = if left == 1 { rb.clone() } else { rb2 };
    let (rb_lib, skb) = match (r1b, &ra_seen_ref) {
        (Err(_), None) => return pass(true, "offcurve-R_A-rejected"),
        (Err(e), Some(_)) => return fail("entry=exch_step_1b input=on-curve-R_A outcome=err", format!("{:?}", e)),
        (Ok(_), None) => return fail("entry=exch_step_1b input=off-curve-R_A outcome=accepted", format!("tamper {:?}", c.t_ra)),
        (Ok(v), Some(_)) => v,
    };
    let rb_ref = r9::exch_r(&m.ppube, &ida, &rb_used);
    ensure!(ref_g1(&rb_lib).ok() == Some(rb_ref.clone()), "entry=exch_step_1b outcome=wrong-R_B", "rB={:x}", rb_used);
    let skb_ref = r9::exch_responder(&m.g, &deb_ref, &ida, &idb, &rb_used, ra_seen_ref.as_ref().unwrap(), &rb_ref, c.klen).ok_or_else(|| Fail { key: "harness: reference responder".into(), detail: "".into() })?;
    ensure!(skb.len() == c.klen, "entry=exch_step_1b outcome=wrong-key-length", "klen={} got {}", c.klen, skb.len());
    ensure!(skb == skb_ref, "entry=exch_step_1b outcome=wrong-key", "ke={:x} |IDA|={} |IDB|={} klen={}: library SK_B {} ; GM/T 0044.3 {}", ke, ida.len(), idb.len(), c.klen, hexs::hx(&skb), hexs::hx(&skb_ref));
    // in transit to A
    let (rb_seen_ref, rb_seen_lib, rb_altered) = match &c.t_rb {
        Some(RTamper::ScalarPoint(h)) => {
            let q = r9::exch_r(&m.ppube, &ida, &(from_be(h) % (n - 2u32) + 1u32));
            let alt = q != rb_ref;
            (Some(q.clone()), lib_g1(&q, &BigUint::one()), alt)
        }
        t => tamper(&rb_ref, &rb_lib, t),
    };
    // A5-A8
    let r2a = outcome(|| exch_step_2a(&libm, &ida, &idb, &key_a, ra_scalar, &ra_lib, &rb_seen_lib, c.klen));
    let ska = match (&r2a, &rb_seen_ref) {
        (Outcome::Panic(p), _) if p.contains("loop iteration budget exhausted") => return fail("entry=exch_step_2a input=on-curve-R_B outcome=never-terminates", format!("klen={} rA={:x}: the loop in exch_step_2a repeats the same computation for ever ({})", c.klen, ra_used, p)),
        (Outcome::Panic(p), _) => return fail(format!("entry=exch_step_2a input={} outcome=panic", if rb_seen_ref.is_some() { "on-curve-R_B" } else { "off-curve-R_B" }), p.clone()),
        (Outcome::Err(_), None) => return pass(true, "offcurve-R_B-rejected"),
        (Outcome::Err(e), Some(_)) => return fail("entry=exch_step_2a input=on-curve-R_B outcome=err", e.clone()),
        (Outcome::Ok(_), None) => return fail("entry=exch_step_2a input=off-curve-R_B outcome=accepted", format!("tamper {:?}", c.t_rb)),
        (Outcome::Ok(v), Some(_)) => v.clone(),
    };
    let ska_ref = r9::exch_initiator(&m.ppube, &m.g, &dea_ref, &ida, &idb, &ra_used, &ra_ref, rb_seen_ref.as_ref().unwrap(), c.klen).ok_or_else(|| Fail { key: "harness: reference initiator".into(), detail: "".into() })?;
    ensure!(ska.len() == c.klen, "entry=exch_step_2a outcome=wrong-key-length", "klen={} got {}", c.klen, ska.len());
    ensure!(ska == ska_ref, "entry=exch_step_2a outcome=wrong-key", "ke={:x} klen={}: library SK_A {} ; GM/T 0044.3 {}", ke, c.klen, hexs::hx(&ska), hexs::hx(&ska_ref));
    if !ra_altered && !rb_altered {
        ensure!(ska == skb, "entry=exch outcome=keys-differ", "honest exchange: SK_A {} SK_B {}", hexs::hx(&ska), hexs::hx(&skb));
    } else if c.klen >= 16 {
        ensure!(ska != skb, "entry=exch input=tampered-R outcome=keys-equal", "R_A altered {} R_B altered {}: both sides still derive {}", ra_altered, rb_altered, hexs::hx(&ska));
    }
    pass(true, if tampered { "tampered" } else if c.same_id { "honest/same-id" } else { "honest" })
}

/// The initiator's scalar given directly (exch_step_2a takes it from the caller): rA in {1, 2, 3, N-3, N-2, N-1, 2^255 mod N, ...}
#[derive(Serialize, Deserialize, Hash, Debug, Clone)]
pub struct DirectRa {
    pub ra: Hex,
    pub klen: usize,
    pub id_seed: u64,
}

fn check_direct_ra(c: &DirectRa) -> CaseResult {
    let pr = r9::params();
    let n = &pr.n;
    let ke = BigUint::from(0x0bad_c0de_1234_5678u64);
    let m = master(&ke);
    let (ida, idb) = (expand_bytes(c.id_seed, 5), expand_bytes(c.id_seed ^ 0xb0b, 4));
    let ra = from_be(&c.ra);
    if ra.bits() == 0 || &ra >= n {
        return pass(false, "rA-out-of-range-skipped");
    }
    let (Some(dea_ref), Some(deb_ref)) = (r9::exch_key(&ke, &ida), r9::exch_key(&ke, &idb)) else { return pass(false, "extraction-undefined") };
    let key_a = m.lib.extract_exch_key(&ida).ok_or_else(|| Fail { key: "entry=Sm9EncMasterKey::extract_exch_key input=valid outcome=none".into(), detail: "".into() })?;
    let key_b = m.lib.extract_exch_key(&idb).ok_or_else(|| Fail { key: "entry=Sm9EncMasterKey::extract_exch_key input=valid outcome=none".into(), detail: "".into() })?;
    let ra_ref = r9::exch_r(&m.ppube, &idb, &ra);
    let ra_lib = lib_g1(&ra_ref, &BigUint::one());
    let rb = from_be(&expand_bytes(c.id_seed ^ 0x2b, 32)) % (n - 2u32) + 1u32;
    let rb2 = from_be(&expand_bytes(c.id_seed ^ 0x2c, 32)) % (n - 2u32) + 1u32;
    let (res, left) = with_sm9_candidates(vec![to32(&rb), to32(&rb2)], || exch_step_1b(&m.lib, &ida, &idb, &key_b, &ra_lib, c.klen));
    let (rb_lib, skb) = match res { Ok(Ok(v)) => v, o => return fail("entry=exch_step_1b input=on-curve-R_A outcome=err", format!("{:?}", o.is_ok())) };
    let rb_used = if left == 1 { rb } else { rb2 };
    let rb_ref = r9::exch_r(&m.ppube, &ida, &rb_used);
    ensure!(ref_g1(&rb_lib).ok() == Some(rb_ref.clone()), "entry=exch_step_1b outcome=wrong-R_B", "rB={:x}", rb_used);
    let skb_ref = r9::exch_responder(&m.g, &deb_ref, &ida, &idb, &rb_used, &ra_ref, &rb_ref, c.klen).ok_or_else(|| Fail { key: "harness: reference responder".into(), detail: "".into() })?;
    ensure!(skb == skb_ref, "entry=exch_step_1b outcome=wrong-key", "rA={:x}: library SK_B {} ; GM/T 0044.3 {}", ra, hexs::hx(&skb), hexs::hx(&skb_ref));
    let r2a = outcome(|| exch_step_2a(&m.lib, &ida, &idb, &key_a, crate::refimpl::field::to_limbs(&ra), &ra_lib, &rb_lib, c.klen));
    let ska = match r2a {
        Outcome::Ok(v) => v,
        Outcome::Panic(p) => return fail(format!("entry=exch_step_2a input=rA-edge outcome=panic site={}", panic_site(&p)), format!("rA={:x}: {}", ra, p)),
        Outcome::Err(e) => return fail("entry=exch_step_2a input=on-curve-R_B outcome=err", format!("rA={:x}: {}", ra, e)),
    };
    let ska_ref = r9::exch_initiator(&m.ppube, &m.g, &dea_ref, &ida, &idb, &ra, &ra_ref, &rb_ref, c.klen).ok_or_else(|| Fail { key: "harness: reference initiator".into(), detail: "".into() })?;
    ensure!(ska == ska_ref, "entry=exch_step_2a outcome=wrong-key", "rA={:x} klen={}: library SK_A {} ; GM/T 0044.3 {}", ra, c.klen, hexs::hx(&ska), hexs::hx(&ska_ref));
    ensure!(ska == skb, "entry=exch outcome=keys-differ", "rA={:x}: SK_A {} SK_B {}", ra, hexs::hx(&ska), hexs::hx(&skb));
    pass(true, "direct-rA")
}

fn rt() -> impl Strategy<Value = Option<RTamper>> {
    prop_oneof![
        4 => Just(None),
        2 => any::<u64>().prop_map(|s| Some(RTamper::SameOtherZ(s))),
        2 => any::<u64>().prop_map(|s| Some(RTamper::OtherValid(s))),
        1 => Just(Some(RTamper::Negated)),
        1 => Just(Some(RTamper::OffCurve)),
        1 => (0..4096usize).prop_map(|i| Some(RTamper::NearCurve(i))),
        2 => (0..512u16).prop_map(|i| Some(RTamper::FlipBit(i))),
    ]
}

fn xc(tampered: bool) -> impl Strategy<Value = Xc> {
    let n = r9::params().n.clone();
    (
        prop_oneof![4 => (0u64..4).prop_map(|i| gen::hex32(&(BigUint::from(i) * 0x0bad_c0de_1234_5677u64))), 1 => gen::scalar256(&n)],
        (0..=24usize, 0..=24usize, any::<u64>(), prop::bool::weighted(0.1)),
        prop_oneof![3 => 1..=48usize, 1 => (1..=4usize).prop_map(|b| b * 32), 1 => 1..=128usize],
        (gen::scalar256(&n), gen::scalar256(&n)),
        (rt(), rt()),
    )
        .prop_map(move |(ke, (ida_len, idb_len, id_seed, same_id), klen, (ra, rb), (t_ra, t_rb))| Xc {
            ke, ke_rel: ((id_seed % 5) as u8) << 4, ida_len, idb_len, id_seed, same_id, klen: if tampered { klen.max(16) } else { klen }, ra, rb,
            t_ra: if tampered { t_ra } else { None }, t_rb: if tampered { t_rb } else { None },
        })
}

pub fn run(ctx: &Ctx) {
    ctx.set_rule(
        "a case is a history (ke — with Ppub-e handed over affine, as computed by g_mul, or in other Jacobian representations — incl. master keys equal or related to H1(ID||02) of either party, ID_A, ID_B incl. equal and empty, klen 1..=128, rA, rB injected through the RNG hook, optional alteration of R_A / R_B in transit: another valid point (random, or a boundary point of G1), -R, an off-curve point, a bit flip of x||y, \
         or the same point in another Jacobian representation, which is not an alteration). Oracle: GM/T 0044.3 on the reference (three pairings per side): R_A, R_B, SK_B and SK_A compared exactly with what each side must derive from what it saw; \
         honest histories: SK_A == SK_B of length klen; an R that is not on the curve must be rejected; an altered valid R must make the keys differ (asserted for klen >= 16 only). Non-trivial: every history (each contains exact comparisons).",
    );
    ctx.assume("reference key exchange (harness/src/refimpl/sm9.rs) reproduces the GM/T 0044.5 Annex B shared key");
    ctx.assume("hook used: RNG candidate override for rA, rB (the comparison uses the candidate the library consumed last)");

    ctx.listed("annex_example", "GM/T 0044.5 Annex B: SK_A = SK_B = C5C13A8F59A97CDEAE64F16A2272A9E7", || vec![0u8], |_| {
        let ke = big("0002E65B 0762D042 F51F0D23 542B13ED 8CFA2E9A 0E720636 1E013A28 3905E31F");
        let m = master(&ke);
        let (ka, kb) = (m.lib.extract_exch_key(b"Alice").unwrap(), m.lib.extract_exch_key(b"Bob").unwrap());
        let ra: [u8; 32] = to32(&big("00005879 DD1D51E1 75946F23 B1B41E93 BA31C584 AE59A426 EC1046A4 D03B06C8"));
        let rb: [u8; 32] = to32(&big("00018B98 C44BEF9F 8537FB7D 071B2C92 8B3BC65B D3D69E1E EE213564 905634FE"));
        let (res, _) = with_sm9_candidates(vec![ra], || exch_step_1a(&m.lib, b"Bob"));
        let (ra_pt, ra_s) = res.map_err(|p| Fail { key: "entry=exch_step_1a outcome=panic".into(), detail: p })?;
        let (res, _) = with_sm9_candidates(vec![rb], || exch_step_1b(&m.lib, b"Alice", b"Bob", &kb, &ra_pt, 16));
        let (rb_pt, skb) = match res { Ok(Ok(v)) => v, o => return fail("entry=exch_step_1b input=on-curve-R_A outcome=err", format!("{:?}", o.is_ok())) };
        let ska = outcome(|| exch_step_2a(&m.lib, b"Alice", b"Bob", &ka, ra_s, &ra_pt, &rb_pt, 16));
        ensure!(hex::encode_upper(&skb) == "C5C13A8F59A97CDEAE64F16A2272A9E7", "entry=exch_step_1b outcome=wrong-key", "Annex B SK_B: {}", hex::encode_upper(&skb));
        ensure!(ska == Outcome::Ok(skb.clone()), "entry=exch_step_2a outcome=wrong-key", "Annex B SK_A: {}", ska.describe());
        pass(true, "annex")
    });

    ctx.generated("honest_histories", "proptest honest exchanges: exact R_A, R_B, SK_B, SK_A, equality, length", ctx.tier.pick(220, 5_000), || xc(false), check);
    ctx.exhaustive("klen_1_128", "every klen 1..=128 on one key pair / identity pair", || {
        (1..=128usize).map(|klen| Xc { ke: gen::hex32(&BigUint::from(0x0bad_c0de_1234_5677u64)), ke_rel: ((klen % 5) as u8) << 4, ida_len: 5, idb_len: 3, id_seed: 17, same_id: false, klen, ra: Hex(expand_bytes(klen as u64, 32)), rb: Hex(expand_bytes(klen as u64 ^ 0xbb, 32)), t_ra: None, t_rb: None }).collect()
    }, check);
    ctx.listed("related_master_key_sequences", "complete exchanges under ke, N-ke, ke, ke+1, N-ke on one thread inside one case: anything the library remembers between calls (memoised pairing values keyed by a master public key) is carried over", || {
        (0..2u64).map(|i| {
            let x = |rel: u8, bump: u64, j: u64| Xc { ke: gen::hex32(&(BigUint::from(0x5eed_1700u64 + i * 100 + bump))), ke_rel: rel, ida_len: 4, idb_len: 6, id_seed: 0x1718 + i, same_id: false, klen: 16 + j as usize, ra: Hex(expand_bytes(i ^ 0x5e96 ^ j << 8, 32)), rb: Hex(expand_bytes(i ^ 0x5e97 ^ j << 8, 32)), t_ra: None, t_rb: None };
            vec![x(0, 0, 0), x(6, 0, 1), x(0, 0, 2), x(0, 1, 3), x(6, 0, 4)]
        }).collect::<Vec<_>>()
    }, |steps: &Vec<Xc>| seq(steps, check));

    ctx.cold("cold_start_exchange", "a complete SM9 key exchange as the first library operations of a fresh process (two different master keys)", || {
        (0..2u64).map(|i| Xc { ke: gen::hex32(&(BigUint::from(0x0bad_c0de_1234_5677u64) + i)), ke_rel: 0, ida_len: 5, idb_len: 3, id_seed: 17 + i, same_id: false, klen: 16 + 16 * i as usize, ra: Hex(expand_bytes(i ^ 0xc17d, 32)), rb: Hex(expand_bytes(i ^ 0xc17e, 32)), t_ra: None, t_rb: None }).collect()
    }, check);

    let nrel = ctx.tier.pick(4u64, 24u64);
    ctx.listed("master_key_related_to_h1", "master keys crafted from the identities: ke = H1(ID_B||02) / H1(ID_A||02) (Q becomes a doubling of Ppub-e), 2*H1, H1 - 1, N - H1 + 1: honest exchange, exact R_A, R_B, SK_B, SK_A", move || {
        let mut v = Vec::new();
        for i in 0..nrel {
            for rel in 1..=5u8 {
                v.push(Xc { ke: gen::hex32(&BigUint::one()), ke_rel: rel | ((i % 5) as u8) << 4, ida_len: 1 + (i as usize % 9), idb_len: 1 + (i as usize * 3 % 11), id_seed: 0x1717 + i, same_id: false, klen: 16 + (i as usize % 20), ra: Hex(expand_bytes(i ^ 0xa1, 32)), rb: Hex(expand_bytes(i ^ 0xb1, 32)), t_ra: None, t_rb: None });
            }
        }
        v
    }, check);

    ctx.listed("initiator_scalar_edges", "rA handed to exch_step_2a directly (the function takes it from the caller): 1, 2, 3, N-3, N-2, N-1 (the largest legal value), 2^255 mod N, 2^64, 2^128+1 — R_A computed by the reference, both keys exact", || {
        let n = &r9::params().n;
        let vals: Vec<BigUint> = vec![BigUint::one(), BigUint::from(2u32), BigUint::from(3u32), n - 3u32, n - 2u32, n - 1u32, (BigUint::one() << 255) % n, BigUint::one() << 64, (BigUint::one() << 128) + 1u32];
        vals.iter().enumerate().map(|(i, v)| DirectRa { ra: gen::hex32(v), klen: 16 + i, id_seed: 0x2e20 + i as u64 }).collect::<Vec<_>>()
    }, check_direct_ra);

    ctx.listed("crafted_zero_key", "klen = 1 and an rB (found by walking rB upwards with the reference) for which the one-byte key KDF(...) is 00 — this happens once in 256 exchanges at klen = 1: (a) the responder is offered the candidates (rB_bad, rB_good): whichever it ends up using, R_B and SK_B must belong together; (b) the initiator receives the R_B of a responder that used rB_bad: it must return the (all-zero) key GM/T 0044.3 defines, not loop", || {
        use rayon::prelude::*;
        let n = &r9::params().n;
        let mut v = Vec::new();
        for j in 0..2u64 {
            let base = Xc { ke: gen::hex32(&BigUint::from(0x0bad_c0de_1234_5677u64 - 1)), ke_rel: ((j % 5) as u8) << 4, ida_len: 4 + j as usize, idb_len: 3, id_seed: 0x2e17 + j, same_id: false, klen: 1, ra: Hex(expand_bytes(j ^ 0x2e18, 32)), rb: Hex(vec![0; 32]), t_ra: None, t_rb: None };
            let ke = from_be(&base.ke) % (n - 1u32) + 1u32;
            let m = master(&ke);
            let ida = expand_bytes(base.id_seed, base.ida_len);
            let idb = expand_bytes(base.id_seed ^ 0xb0b, base.idb_len);
            let Some(deb) = r9::exch_key(&ke, &idb) else { continue };
            let ra = from_be(&base.ra) % (n - 2u32) + 1u32;
            let ra_pt = r9::exch_r(&m.ppube, &idb, &ra);
            let start = from_be(&expand_bytes(j ^ 0x2e19, 24));
            let hit = (0..4096u64).into_par_iter().find_first(|i| {
                let rb = &start + *i;
                let rb_pt = r9::exch_r(&m.ppube, &ida, &rb);
                r9::exch_responder(&m.g, &deb, &ida, &idb, &rb, &ra_pt, &rb_pt, 1) == Some(vec![0u8])
            });
            if let Some(i) = hit {
                let enc = gen::hex32(&(&start + i - 1u32)); // stored value v with rB = v mod (N-2) + 1
                let mut a = base.clone();
                a.rb = enc.clone();
                v.push(a);
                let mut b = base.clone();
                b.rb = Hex(expand_bytes(j ^ 0x2e1a, 32));
                b.t_rb = Some(RTamper::ScalarPoint(enc));
                v.push(b);
            }
        }
        v
    }, check);

    let zl_step = ctx.tier.pick(8usize, 1usize);
    ctx.listed("ephemeral_scalars_with_zero_limbs", "rA (resp. rB) with an all-zero 64-bit limb below a non-zero limb (every 8th pattern in the quick tier): exact R, SK_A, SK_B", move || {
        let n = &r9::params().n;
        let mut v = Vec::new();
        for (i, k) in gen::zero_limb_scalars().into_iter().enumerate() {
            if i % zl_step != 0 || &k >= &(n - 1u32) || k <= BigUint::one() {
                continue;
            }
            // Xc::ra holds v with rA = v mod (N-2) + 1
            let enc = gen::hex32(&(&k - 1u32));
            let other = Hex(expand_bytes(i as u64 ^ 0x17a, 32));
            v.push(Xc { ke: gen::hex32(&BigUint::from(0x0bad_c0de_1234_5677u64)), ke_rel: ((i % 5) as u8) << 4, ida_len: 5, idb_len: 3, id_seed: 17, same_id: false, klen: 16, ra: if i % 2 == 0 { enc.clone() } else { other.clone() }, rb: if i % 2 == 0 { other } else { enc }, t_ra: None, t_rb: None });
        }
        v
    }, check);

    ctx.listed("edge_point_ephemerals", "R_A (resp. R_B) replaced in transit by a boundary point of G1 (x next to 0, N, p, 2^256-p, powers of two, Montgomery limb patterns, y with a leading zero byte): the receiving side must accept it and derive exactly the key GM/T 0044.3 prescribes", || {
        let mut v = Vec::new();
        for i in 0..g1_edge_points().len() {
            for which in 0..2u8 {
                v.push(Xc { ke: gen::hex32(&BigUint::from(0x0bad_c0de_1234_5677u64)), ke_rel: 0, ida_len: 5, idb_len: 3, id_seed: 17, same_id: false, klen: 16 + i % 17, ra: Hex(expand_bytes(i as u64 ^ 0xe1, 32)), rb: Hex(expand_bytes(i as u64 ^ 0xe2, 32)),
                    t_ra: if which == 0 { Some(RTamper::EdgePoint(i)) } else { None }, t_rb: if which == 1 { Some(RTamper::EdgePoint(i)) } else { None } });
            }
        }
        v
    }, check);

    let nc_step = ctx.tier.pick(4usize, 1usize);
    ctx.listed("near_curve_ephemerals", "R_A (resp. R_B) replaced in transit by a point of the G1 near-curve family (off the curve, on a neighbouring equation with one constant changed, boundary abscissas; every 4th in the quick tier): the receiving side must refuse it", move || {
        let mut v = Vec::new();
        for i in (0..g1_near_curve_points().len()).step_by(nc_step) {
            let which = (i / nc_step) % 2;
            v.push(Xc { ke: gen::hex32(&BigUint::from(0x0bad_c0de_1234_5677u64)), ke_rel: 0, ida_len: 5, idb_len: 3, id_seed: 17, same_id: false, klen: 16, ra: Hex(expand_bytes(i as u64 ^ 0xe3, 32)), rb: Hex(expand_bytes(i as u64 ^ 0xe4, 32)),
                t_ra: if which == 0 { Some(RTamper::NearCurve(i)) } else { None }, t_rb: if which == 1 { Some(RTamper::NearCurve(i)) } else { None } });
        }
        v
    }, check);

    ctx.listed("structured_identities", "ID_A / ID_B as applications write them, every ordered pair of neighbours in the list (mailbox-style strings that differ in case only, a string and its prefix, both orders of each pair): exact R_A, R_B, SK_A, SK_B", move || {
        let mut v = Vec::new();
        let l = structured_identities().len();
        for i in 0..l {
            for (a, b) in [(i, (i + 1) % l), ((i + 1) % l, i), (i, (i + 5) % l)] {
                v.push(Xc { ke: gen::hex32(&BigUint::from(0x0bad_c0de_1234_5677u64)), ke_rel: 0, ida_len: STRUCTURED_ID + a, idb_len: STRUCTURED_ID + b, id_seed: 0x51d0 + i as u64, same_id: false, klen: 16 + i, ra: Hex(expand_bytes((a * 64 + b) as u64 ^ 0xe7, 32)), rb: Hex(expand_bytes((a * 64 + b) as u64 ^ 0xe8, 32)), t_ra: None, t_rb: None });
            }
        }
        v
    }, check);

    ctx.listed("long_identities", "ID_A (resp. ID_B, resp. both) of 122..129, 250..257, 1000, 4096, 8191, 8192, 65535, 65536, 70000 bytes: exact R_A, R_B, SK_A, SK_B (an identity is a byte string of any length)", move || {
        let mut v = Vec::new();
        for (i, l) in [122usize, 123, 127, 128, 129, 250, 251, 255, 256, 257, 1000, 4096, 8191, 8192, 65535, 65536, 70_000].iter().enumerate() {
            let (a, b) = match i % 3 { 0 => (*l, 3), 1 => (5, *l), _ => (*l, *l) };
            v.push(Xc { ke: gen::hex32(&BigUint::from(0x0bad_c0de_1234_5677u64)), ke_rel: 0, ida_len: a, idb_len: b, id_seed: 0x1d00 + i as u64, same_id: false, klen: 16 + i, ra: Hex(expand_bytes(i as u64 ^ 0xe5, 32)), rb: Hex(expand_bytes(i as u64 ^ 0xe6, 32)), t_ra: None, t_rb: None });
        }
        v
    }, check);

    ctx.generated("tampered_histories", "proptest exchanges with R_A and/or R_B altered in transit", ctx.tier.pick(250, 3_000), || xc(true), check);
}
