//! C09 — SM9 signatures verify, conform to GM/T 0044.2, and forgeries are rejected.

use gm_sm9::key::Sm9SignMasterKey;
use gm_sm9::points::Point;
use num_bigint::BigUint;
use num_traits::{One, Zero};
use proptest::prelude::*;
use serde::{Deserialize, Serialize};
use std::collections::HashMap;
use std::sync::{Arc, Mutex};

use super::multi::{self, Multi};
use super::sm9util::*;
use crate::engine::*;
use crate::gen;
use crate::refimpl::ec::Pt;
use crate::refimpl::field::{big, from_be, from_limbs, to32, to_limbs, Fld, Fp, Fp2};
use crate::refimpl::sm9::{self as r9, F12};

pub struct Master {
    pub ks: BigUint,
    pub ppubs: Pt<Fp2>,
    pub g: F12,
    pub lib: Sm9SignMasterKey,
}

pub fn master(ks: &BigUint) -> Arc<Master> {
    static CACHE: Mutex<Option<HashMap<BigUint, Arc<Master>>>> = Mutex::new(None);
    if let Some(m) = CACHE.lock().unwrap().get_or_insert_with(HashMap::new).get(ks) {
        return m.clone();
    }
    let ppubs = r9::p2_mul(ks);
    let g = r9::pairing(&r9::params().p1, &ppubs);
    // the library object is built from the reference's affine Ppub-s (so that it is exactly the public key)
    let lib = Sm9SignMasterKey { ks: to_limbs(ks), ppubs: lib_g2(&ppubs, &fp2_one()) };
    let m = Arc::new(Master { ks: ks.clone(), ppubs, g, lib });
    let mut c = CACHE.lock().unwrap();
    let map = c.get_or_insert_with(HashMap::new);
    if map.len() > 256 {
        map.clear();
    }
    map.insert(ks.clone(), m.clone());
    m
}

#[derive(Serialize, Deserialize, Hash, Debug, Clone, PartialEq, Eq)]
pub struct Base {
    pub ks: Hex,
    /// 0: ks as given; 1: ks := H1(ID||01) (so that [h1]P2 + Ppub-s is a doubling); 2: ks := 2*H1 mod N; 3: ks := H1 - 1
    #[serde(default)]
    pub ks_rel: u8,
    pub id_len: usize,
    pub id_seed: u64,
    pub msg_len: usize,
    pub msg_seed: u64,
    pub r: Hex,
}

impl Base {
    fn ks(&self) -> BigUint {
        let n = &r9::params().n;
        let h1 = r9::h1(&self.id(), 0x01);
        let k = match self.ks_rel & 0x0f {
            1 => h1,
            2 => (h1 * 2u32) % n,
            3 => (h1 + n - 1u32) % n,
            // 4: the negative of the key "as given" (Ppub-s becomes -Ppub-s: same x coordinate)
            4 => n - (from_be(&self.ks) % (n - 1u32) + 1u32),
            _ => from_be(&self.ks) % (n - 1u32) + 1u32,
        };
        if k.is_zero() { BigUint::one() } else { k }
    }
    /// the master public key object handed to the library, in the representation selected by the high nibble of `ks_rel`
    /// (0 affine, 1 as computed by TwistPoint::g_mul, 2 Z = 2, 3 pseudo-random Z, 4 Z with Montgomery limbs [1,0,0,0], 5 purely imaginary Z)
    fn lib_master(&self, m: &Master) -> Sm9SignMasterKey {
        let mut l = m.lib;
        l.ppubs = g2_in_rep(&m.ppubs, Some(&m.ks), (self.ks_rel >> 4) & 7, self.id_seed ^ self.msg_seed);
        l
    }
    /// what a party that only knows the master *public* key holds: the same object with the secret field replaced by a placeholder
    /// (bit 7 of `ks_rel` set: 0, 1 or a pseudo-random value). Verification may not depend on it.
    fn lib_verifier(&self, m: &Master) -> Sm9SignMasterKey {
        let mut l = self.lib_master(m);
        if self.ks_rel & 0x80 != 0 {
            l.ks = match self.msg_seed % 3 {
                0 => [0, 0, 0, 0],
                1 => [1, 0, 0, 0],
                _ => to_limbs(&(from_be(&expand_bytes(self.msg_seed ^ 0x9b, 32)) % &r9::params().n)),
            };
        }
        l
    }
    fn r(&self) -> BigUint {
        from_be(&self.r) % (&r9::params().n - 2u32) + 1u32 // the library draws r from [1, N-2]
    }
    fn id(&self) -> Vec<u8> {
        identity(self.id_seed, self.id_len)
    }
    fn msg(&self) -> Vec<u8> {
        expand_bytes(self.msg_seed, self.msg_len)
    }
}

fn check_sign(b: &Base) -> CaseResult {
    let pr = r9::params();
    let n = &pr.n;
    let m = master(&b.ks());
    let (id, msg, r) = (b.id(), b.msg(), b.r());
    let Some(t2) = r9::extract_scalar(&m.ks, &id, 0x01) else { return pass(false, "extraction-undefined") };
    let ds_ref = r9::p1_mul(&t2);
    let libm = b.lib_master(&m);
    let key = catch(|| libm.extract_key(&id)).map_err(|p| Fail { key: "entry=Sm9SignMasterKey::extract_key outcome=panic".into(), detail: p })?.ok_or_else(|| Fail { key: "entry=Sm9SignMasterKey::extract_key input=valid outcome=none".into(), detail: "".into() })?;
    let r2 = from_be(&expand_bytes(b.msg_seed ^ 0x5209, 32)) % (n - 2u32) + 1u32;
    let (res, left) = with_sm9_candidates(vec![to32(&r), to32(&r2)], || key.sign(&msg));
    let (h, s) = match res {
        Ok(Ok(v)) => v,
        Ok(Err(e)) => return fail("entry=Sm9SignKey::sign input=valid outcome=err", format!("{:?}", e)),
        Err(p) => return fail(format!("entry=Sm9SignKey::sign input=valid outcome=panic site={}", panic_site(&p)), p),
    };
    // the candidate the library actually used is the last one it consumed (it may skip candidates for reasons of its own,
    // which no listed property forbids); the standard must not demand a retry for that candidate
    let consumed = 2 - left;
    ensure!(consumed >= 1, "entry=Sm9SignKey::sign outcome=nonce-not-drawn", "no candidate consumed");
    let r_used = if consumed == 1 { &r } else { &r2 };
    let want = r9::sign_with_r(&ds_ref, &m.g, &msg, r_used).ok_or_else(|| Fail { key: "entry=Sm9SignKey::sign outcome=used-a-nonce-that-needs-retry".into(), detail: format!("r={:x}", r_used) })?;
    let hv = from_limbs(&h);
    ensure!(!hv.is_zero() && &hv < n, "entry=Sm9SignKey::sign outcome=h-out-of-range", "h={:x}", hv);
    let s_ref = ref_g1(&s).map_err(|e| Fail { key: "entry=Sm9SignKey::sign outcome=non-canonical-S".into(), detail: e })?;
    ensure!(s_ref.is_some() && pr.g1.on_curve(&s_ref), "entry=Sm9SignKey::sign outcome=S-not-on-curve", "S={}", show1(&s_ref));
    ensure!(hv == want.0 && s_ref == want.1, "entry=Sm9SignKey::sign outcome=wrong-signature",
        "ks={:x} |ID|={} |M|={} r={:x}: library h={:x} S={} ; GM/T 0044.2 h={:x} S={}", m.ks, id.len(), msg.len(), r, hv, show1(&s_ref), want.0, show1(&want.1));
    // the library accepts its own signature
    let v = outcome(|| b.lib_verifier(&m).verify_sign(&id, &msg, &h, &s));
    ensure!(v.is_ok(), "entry=Sm9SignMasterKey::verify_sign input=own-signature outcome=rejected", "ks={:x} |ID|={} |M|={} h={:x}: {}", m.ks, id.len(), msg.len(), hv, v.describe());
    pass(true, if consumed == 1 { "fixed-r" } else { "fixed-r/library-skipped-a-candidate" })
}

/// signature made by the reference must be accepted (S handed over in affine form)
fn check_ref_signed(b: &Base) -> CaseResult {
    let m = master(&b.ks());
    let (id, msg, r) = (b.id(), b.msg(), b.r());
    let Some(t2) = r9::extract_scalar(&m.ks, &id, 0x01) else { return pass(false, "extraction-undefined") };
    let Some((h, s)) = r9::sign_with_r(&r9::p1_mul(&t2), &m.g, &msg, &r) else { return pass(false, "retry-r") };
    let s_lib = lib_g1(&s, &BigUint::one());
    let v = outcome(|| b.lib_verifier(&m).verify_sign(&id, &msg, &to_limbs(&h), &s_lib));
    ensure!(v.is_ok(), "entry=Sm9SignMasterKey::verify_sign input=conforming-signature outcome=rejected", "ks={:x} |ID|={} |M|={} h={:x}: {}", m.ks, id.len(), msg.len(), h, v.describe());
    pass(true, "reference-signed")
}

#[derive(Serialize, Deserialize, Hash, Debug, Clone, PartialEq, Eq)]
pub enum Tamper {
    None,
    FlipH(u8),
    /// flip a bit of the 64-byte affine x||y of S (the point is rebuilt from the flipped coordinates, reduced mod p)
    FlipS(u16),
    /// h replaced by edge #i: 0, 1, N-1, N, N+1, 2^256-1, h+1, h-1, N-2
    SetH(u8),
    /// h + N when it fits in 256 bits: congruent to the valid h, out of range
    HPlusN,
    SNeg,
    SPlusP1,
    SDouble,
    SOtherIdentity,
    SOffCurve,
    /// S = point #i of sm9util::g1_near_curve_points (off the curve, neighbouring equation, boundary abscissa)
    SNearCurve(u16),
    SZeroZero,
    SInfinity,
    /// the same S in another Jacobian representation — NOT an alteration
    SSameOtherZ(u64),
    OtherMessage,
    OtherIdentity,
    /// the identity with the case of its ASCII letters swapped (only when it has letters): another identity
    IdentityCase,
    OtherMasterKey,
    /// a multi-byte alteration (see props/multi.rs) of the 32 big-endian bytes of h
    MultiH(Multi),
}

#[derive(Serialize, Deserialize, Hash, Debug, Clone)]
pub struct TCase {
    pub base: Base,
    pub tamper: Tamper,
}

fn check_tamper(c: &TCase) -> CaseResult {
    let pr = r9::params();
    let n = &pr.n;
    let b = &c.base;
    let m = master(&b.ks());
    let (mut id, mut msg, r) = (b.id(), b.msg(), b.r());
    let Some(t2) = r9::extract_scalar(&m.ks, &id, 0x01) else { return pass(false, "extraction-undefined") };
    let Some((h0, s0)) = r9::sign_with_r(&r9::p1_mul(&t2), &m.g, &msg, &r) else { return pass(false, "retry-r") };
    let mut h = h0.clone();
    let mut s_ref: Option<Pt<Fp>> = Some(s0.clone()); // None = the object is not a curve point at all
    let mut s_lib = lib_g1(&s0, &BigUint::one());
    let mut verifier = m.clone();
    let class: &'static str;
    match &c.tamper {
        Tamper::None => class = "untouched",
        Tamper::SSameOtherZ(seed) => {
            s_lib = lib_g1(&s0, &(from_be(&expand_bytes(*seed, 32)) % (pr.p - 2u32) + 2u32));
            class = "untouched";
        }
        Tamper::FlipH(i) => {
            h ^= BigUint::one() << (*i as u32);
            class = "flip-h";
        }
        Tamper::FlipS(i) => {
            let mut bytes = r9::g1_bytes(&s0).unwrap();
            let i = *i as usize % 512;
            bytes[i / 8] ^= 0x80 >> (i % 8);
            let (x, y) = (from_be(&bytes[..32]) % pr.p, from_be(&bytes[32..]) % pr.p);
            let q = Some((r9::fp(&x), r9::fp(&y)));
            s_ref = if pr.g1.on_curve(&q) { Some(q.clone()) } else { None };
            s_lib = lib_g1(&q, &BigUint::one());
            class = "flip-S";
        }
        Tamper::MultiH(mm) => {
            let mut hb = to32(&h0);
            if !multi::apply(&mut hb, mm) {
                return pass(false, "multi-noop");
            }
            h = from_be(&hb);
            class = "multi-h";
        }
        Tamper::SetH(i) => {
            let edges = [BigUint::zero(), BigUint::one(), n - 1u32, n.clone(), n + 1u32, (BigUint::one() << 256) - 1u32, &h0 + 1u32, &h0 - 1u32, n - 2u32];
            h = edges[*i as usize % edges.len()].clone();
            class = "h-edge";
        }
        Tamper::HPlusN => {
            h = &h0 + n;
            if h.bits() > 256 {
                return pass(false, "h+N-does-not-fit");
            }
            class = "h+N";
        }
        Tamper::SNeg => {
            let q = pr.g1.neg(&s0);
            s_lib = lib_g1(&q, &BigUint::one());
            s_ref = Some(q);
            class = "S-other-point";
        }
        Tamper::SPlusP1 => {
            let q = pr.g1.add(&s0, &pr.p1);
            s_lib = lib_g1(&q, &BigUint::from(3u32));
            s_ref = Some(q);
            class = "S-other-point";
        }
        Tamper::SDouble => {
            let q = pr.g1.dbl(&s0);
            s_lib = lib_g1(&q, &BigUint::one());
            s_ref = Some(q);
            class = "S-other-point";
        }
        Tamper::SOtherIdentity => {
            let mut id2 = id.clone();
            id2.push(b'x');
            let q = match r9::extract_scalar(&m.ks, &id2, 0x01).and_then(|t| r9::sign_with_r(&r9::p1_mul(&t), &m.g, &msg, &r)) {
                Some((_, s)) => s,
                None => return pass(false, "retry-r"),
            };
            s_lib = lib_g1(&q, &BigUint::one());
            s_ref = Some(q);
            class = "S-other-point";
        }
        Tamper::SOffCurve => {
            let (x, y) = s0.clone().unwrap();
            let q = Some((x, y.add(&y.from_u64_like(1))));
            s_lib = lib_g1(&q, &BigUint::one());
            s_ref = None;
            class = "S-off-curve";
        }
        Tamper::SNearCurve(i) => {
            let pts = g1_near_curve_points();
            let (_, x, y) = &pts[*i as usize % pts.len()];
            let q = Some((r9::fp(x), r9::fp(y)));
            s_lib = lib_g1(&q, &BigUint::one());
            s_ref = None;
            class = "S-off-curve";
        }
        Tamper::SZeroZero => {
            s_lib = Point { x: [0; 4], y: [0; 4], z: to_mont(&BigUint::one()) };
            s_ref = None;
            class = "S-off-curve";
        }
        Tamper::SInfinity => {
            s_lib = Point::zero();
            s_ref = Some(None);
            class = "S-infinity";
        }
        Tamper::OtherMessage => {
            if msg.is_empty() {
                msg.push(0);
            } else {
                let l = msg.len();
                msg[l - 1] ^= 1;
            }
            class = "other-message";
        }
        Tamper::OtherIdentity => {
            id.push(0);
            class = "other-identity";
        }
        Tamper::IdentityCase => {
            match case_variant(&id) {
                Some(v) => id = v,
                None => return pass(false, "identity-has-no-letters"),
            }
            class = "other-identity";
        }
        Tamper::OtherMasterKey => {
            verifier = master(&((&m.ks % (n - 2u32)) + 1u32));
            class = "other-master-key";
        }
    }
    let want = match &s_ref {
        None => false,
        Some(s) => r9::verify(&verifier.ppubs, &verifier.g, &id, &msg, &h, s),
    };
    let hl = to_limbs(&(&h % (BigUint::one() << 256)));
    let vlib = b.lib_verifier(&verifier);
    let got = outcome(|| vlib.verify_sign(&id, &msg, &hl, &s_lib));
    let h_class = if h.is_zero() || &h >= n { "h-out-of-range" } else if h == n - 1u32 { "h=N-1" } else { "h-in-range" };
    match (&got, want) {
        (Outcome::Ok(()), true) | (Outcome::Err(_), false) => {}
        (Outcome::Panic(p), _) => return fail(format!("entry=Sm9SignMasterKey::verify_sign input={}/{} outcome=panic", class, h_class), format!("tamper={:?} h={:x}: {}", c.tamper, h, p)),
        (Outcome::Ok(()), false) => return fail(format!("entry=Sm9SignMasterKey::verify_sign input={}/{} outcome=accepted-invalid", class, h_class), format!("tamper={:?} h={:x} S={}: library accepts, GM/T 0044.2 verification rejects", c.tamper, h, show_lib1(&s_lib))),
        (Outcome::Err(e), true) => return fail(format!("entry=Sm9SignMasterKey::verify_sign input={} outcome=rejected-valid", class), format!("tamper={:?} h={:x}: {}", c.tamper, h, e)),
    }
    pass(!want, class)
}

fn show_lib1(p: &Point) -> String {
    format!("[X={:x} Y={:x} Z={:x} (Montgomery)]", from_limbs(&p.x), from_limbs(&p.y), from_limbs(&p.z))
}

fn base_strategy() -> impl Strategy<Value = Base> {
    let n = r9::params().n.clone();
    (
        prop_oneof![4 => (0u64..6).prop_map(|i| gen::hex32(&(BigUint::from(i) * 0x1234_5678_9abc_def1u64))), 1 => gen::scalar256(&n)],
        prop_oneof![4 => 1..=16usize, 1 => 0..=64usize],
        any::<u64>(),
        gen::msg_len(1024),
        any::<u64>(),
        gen::scalar256(&n),
    )
        .prop_map(|(ks, id_len, id_seed, msg_len, msg_seed, r)| Base { ks, ks_rel: ((msg_seed % 6) as u8) << 4 | (((msg_seed >> 8) & 1) as u8) << 7, id_len, id_seed, msg_len, msg_seed, r })
}

pub fn tamper_strategy() -> impl Strategy<Value = Tamper> {
    prop_oneof![
        4 => any::<u8>().prop_map(Tamper::FlipH),
        4 => (0..512u16).prop_map(Tamper::FlipS),
        4 => (0..9u8).prop_map(Tamper::SetH),
        2 => Just(Tamper::HPlusN),
        1 => Just(Tamper::SNeg),
        1 => Just(Tamper::SPlusP1),
        1 => Just(Tamper::SDouble),
        1 => Just(Tamper::SOtherIdentity),
        1 => Just(Tamper::SOffCurve),
        1 => any::<u16>().prop_map(Tamper::SNearCurve),
        1 => Just(Tamper::SZeroZero),
        1 => Just(Tamper::SInfinity),
        1 => any::<u64>().prop_map(Tamper::SSameOtherZ),
        1 => Just(Tamper::OtherMessage),
        1 => Just(Tamper::OtherIdentity),
        1 => Just(Tamper::IdentityCase),
        1 => Just(Tamper::OtherMasterKey),
        1 => Just(Tamper::None),
        5 => multi::strategy().prop_map(Tamper::MultiH),
    ]
}

fn fixed_bases(seed: u64, count: usize) -> Vec<Base> {
    (0..count)
        .map(|i| {
            let s = seed.wrapping_mul(7477) + i as u64;
            Base { ks: gen::hex32(&BigUint::from(0xabcdef01u64 + (i as u64 % 3))), ks_rel: ((i % 6) as u8) << 4 | ((i / 6 % 2) as u8) << 7, id_len: [5usize, 3, 0, 20][i % 4], id_seed: s ^ 1, msg_len: [20usize, 0, 1, 100][i % 4], msg_seed: s ^ 2, r: Hex(expand_bytes(s ^ 3, 32)) }
        })
        .collect()
}

pub fn run(ctx: &Ctx) {
    let pr = r9::params();
    ctx.set_rule(
        "signing cases are (ks, representation of the master public key object: affine / as computed by g_mul / Z = 2 / random Z / Z with Montgomery limbs [1,0,0,0] / imaginary Z, identity, message, r): ks from a small pool (so that the reference pairing g = e(P1,Ppub-s) is cached) and the edge-biased generator, identities of 0..64 bytes, messages of 0..1024 bytes, r injected through the RNG hook; \
         tampering cases are (reference-made signature, tampering): every bit flip of h (256) and of the 64 bytes of S (512) for some bases, h in {0, 1, N-2, N-1, N, N+1, 2^256-1, h+-1}, S in {-S, S+P1, [2]S, another identity's S, off-curve, (0,0), infinity, \
         the same S with another Z (not an alteration)}; half of the verifications are done by an object whose secret field ks is a placeholder (a verifier knows only Ppub-s), multi-byte alterations of h that preserve the xor, the sum or the multiset of its bytes or words, another message / identity / master public key. Oracles: exact (h, S) equality with the reference signer for the same r; h in [1,N-1], S on the curve; the library accepts its own and the reference's signatures; \
         for tamperings the reference verifier decides and a panic is a violation. Non-trivial: fixed-r comparison done, or a rejected tampering.",
    );
    ctx.assume("reference signer/verifier (harness/src/refimpl/sm9.rs) reproduce the GM/T 0044.5 Annex A (h, S)");
    ctx.assume("hook used: RNG candidate override in gm_sm9 sm9_random_u256; the library draws r from [1, N-2] (its Fp12::pow needs an exponent below N-1), which is inside the standard's [1, N-1]");

    ctx.listed("annex_example", "GM/T 0044.5 Annex A: (h, S) for the published r", || vec![0u8], |_| {
        let ks = big("000130E7 8459D785 45CB54C5 87E02CF4 80CE0B66 340F319F 348A1D5B 1F2DC5F4");
        let m = master(&ks);
        let key = catch(|| m.lib.extract_key(b"Alice")).map_err(|p| Fail { key: "entry=Sm9SignMasterKey::extract_key outcome=panic".into(), detail: p })?.unwrap();
        let r: [u8; 32] = to32(&big("033C86 16B06704 813203DF D0096502 2ED15975 C662337A ED648835 DC4B1CBE"));
        let (res, _) = with_sm9_candidates(vec![r], || key.sign(b"Chinese IBS standard"));
        let (h, s) = match res { Ok(Ok(v)) => v, o => return fail("entry=Sm9SignKey::sign input=valid outcome=failure", format!("{:?}", o.is_ok())) };
        ensure!(format!("{:064X}", from_limbs(&h)) == "823C4B21E4BD2DFE1ED92C606653E996668563152FC33F55D7BFBB9BD9705ADB", "entry=Sm9SignKey::sign outcome=wrong-signature", "Annex h: {:x}", from_limbs(&h));
        let sb = catch(|| s.to_bytes_be()).map_err(|p| Fail { key: "entry=Point::to_bytes_be outcome=panic".into(), detail: p })?;
        ensure!(hex::encode_upper(&sb) == "0473BF96923CE58B6AD0E13E9643A406D8EB98417C50EF1B29CEF9ADB48B6D598C856712F1C2E0968AB7769F42A99586AED139D5B8B3E15891827CC2ACED9BAA05", "entry=Sm9SignKey::sign outcome=wrong-signature", "Annex S: {}", hex::encode_upper(&sb));
        let v = outcome(|| m.lib.verify_sign(b"Alice", b"Chinese IBS standard", &h, &s));
        ensure!(v.is_ok(), "entry=Sm9SignMasterKey::verify_sign input=own-signature outcome=rejected", "Annex signature: {}", v.describe());
        pass(true, "annex")
    });

    ctx.generated("fixed_r_exact", "proptest (ks, id, message, r) with r injected: exact (h, S), range/curve checks, library verification", ctx.tier.pick(800, 12_000), base_strategy, check_sign);
    let seed0 = ctx.seed;
    let maxlen = ctx.tier.pick(200usize, 1024usize);
    ctx.exhaustive("message_lengths", "every message length 0..=200 (thorough 0..=1024) with r injected: exact (h, S) and library verification", move || {
        (0..=maxlen).map(|l| Base { ks: gen::hex32(&BigUint::from(0xabcdef01u64)), ks_rel: ((l % 6) as u8) << 4 | ((l / 6 % 2) as u8) << 7, id_len: 1 + l % 9, id_seed: seed0 ^ l as u64, msg_len: l, msg_seed: seed0.wrapping_mul(31) ^ l as u64, r: Hex(expand_bytes(seed0 ^ 0x7777 ^ l as u64, 32)) }).collect()
    }, check_sign);

    let huge: Vec<usize> = ctx.tier.pick(vec![(1usize << 16) - 1, 1 << 16, (1 << 16) + 3, 100_000], vec![(1usize << 16) - 1, 1 << 16, (1 << 16) + 3, 100_000, (1 << 17) + 40, (1 << 18) + 8, (1 << 20) + 5]);
    ctx.listed("huge_messages", "messages of 2^16-1, 2^16, 2^16+3, 100000 bytes (thorough: up to 2^20+5) with r injected: exact (h, S) and library verification (size thresholds, chunked or parallel hashing)", move || {
        huge.iter().map(|l| Base { ks: gen::hex32(&BigUint::from(0xabcdef02u64)), ks_rel: 0, id_len: 5, id_seed: seed0 ^ *l as u64, msg_len: *l, msg_seed: seed0.wrapping_mul(37) ^ *l as u64, r: Hex(expand_bytes(seed0 ^ 0x7778 ^ *l as u64, 32)) }).collect::<Vec<_>>()
    }, check_sign);

    ctx.listed("structured_identities", "identities as applications write them (names, mailbox-style strings in several capitalisations, non-ASCII text, blanks at the edges, the empty string): exact (h, S) with r injected and library verification; and the signature offered under the identity with the case of its letters swapped, which must be refused", move || {
        let mut v = Vec::new();
        for i in 0..structured_identities().len() {
            v.push(TCase { base: Base { ks: gen::hex32(&BigUint::from(0xabcdef04u64)), ks_rel: ((i % 6) as u8) << 4, id_len: STRUCTURED_ID + i, id_seed: 0, msg_len: 10 + i, msg_seed: seed0 ^ (0x51d0 + i as u64), r: Hex(expand_bytes(seed0 ^ 0x777a ^ i as u64, 32)) }, tamper: Tamper::None });
            v.push(TCase { base: Base { ks: gen::hex32(&BigUint::from(0xabcdef04u64)), ks_rel: 0, id_len: STRUCTURED_ID + i, id_seed: 0, msg_len: 10 + i, msg_seed: seed0 ^ (0x51d0 + i as u64), r: Hex(expand_bytes(seed0 ^ 0x777a ^ i as u64, 32)) }, tamper: Tamper::IdentityCase });
        }
        v
    }, |c: &TCase| if c.tamper == Tamper::None { check_sign(&c.base) } else { check_tamper(c) });

    ctx.listed("long_identities", "identities of 122..129, 250..257, 1000, 4096, 8191, 8192, 65535, 65536, 70000 bytes with r injected: exact (h, S) and library verification (an identity is a byte string of any length)", move || {
        [122usize, 123, 127, 128, 129, 250, 251, 255, 256, 257, 1000, 4096, 8191, 8192, 65535, 65536, 70_000].iter().enumerate().map(|(i, l)| Base { ks: gen::hex32(&BigUint::from(0xabcdef03u64)), ks_rel: ((i % 6) as u8) << 4, id_len: *l, id_seed: seed0 ^ (0x1d00 + i as u64), msg_len: 20 + i, msg_seed: seed0.wrapping_mul(41) ^ i as u64, r: Hex(expand_bytes(seed0 ^ 0x7779 ^ i as u64, 32)) }).collect::<Vec<_>>()
    }, check_sign);

    let nrel = ctx.tier.pick(8u64, 60u64);
    ctx.listed("master_key_related_to_h1", "master keys crafted from the identity: ks = H1(ID||01) (the verifier's [h1]P2 + Ppub-s becomes a doubling), ks = 2*H1, ks = H1 - 1: sign with injected r, exact (h,S), verification; and the reference's signature must be accepted", move || {
        let mut v = Vec::new();
        for i in 0..nrel {
            for rel in 1..=3u8 {
                v.push(Base { ks: gen::hex32(&BigUint::one()), ks_rel: rel | ((i % 6) as u8) << 4, id_len: 1 + (i as usize % 20), id_seed: seed0 ^ (0x4e1 + i), msg_len: (i as usize * 7) % 50, msg_seed: seed0 ^ i, r: Hex(expand_bytes(seed0 ^ 0x4e2 ^ i, 32)) });
            }
        }
        v
    }, |b| { check_sign(b)?; check_ref_signed(b) });

    ctx.generated("reference_signed_accepted", "proptest: the reference signs, the library must accept", ctx.tier.pick(500, 6_000), base_strategy, check_ref_signed);

    let seed = ctx.seed;
    let nb = ctx.tier.pick(1usize, 16usize);
    let step = ctx.tier.pick(8usize, 1usize);
    ctx.exhaustive("bit_flips_h_and_S", "bit flips of h (256) and S (512) per base — every 8th bit in the quick tier (rotating offset), all 768 in the thorough tier", move || {
        let mut v = Vec::new();
        for (bi, b) in fixed_bases(seed, nb).into_iter().enumerate() {
            for i in (((seed as usize + bi) % step)..256).step_by(step) {
                v.push(TCase { base: b.clone(), tamper: Tamper::FlipH(i as u8) });
            }
            for i in (((seed as usize + bi) % step)..512).step_by(step) {
                v.push(TCase { base: b.clone(), tamper: Tamper::FlipS(i as u16) });
            }
        }
        v
    }, check_tamper);

    ctx.listed("related_master_key_sequences", "sign + verify under ks, then N-ks (negated master public key: same x), then ks again, then ks+1 — executed in order on one thread inside one case, so that anything the library remembers between calls (memoised pairing values) is carried over", move || {
        let mut v = Vec::new();
        for i in 0..3u64 {
            let b = |rel: u8, bump: u64, j: u64| Base { ks: gen::hex32(&(BigUint::from(0x5eed_0000u64 + i * 1000 + bump))), ks_rel: rel | ((j % 6) as u8) << 4, id_len: 3 + i as usize, id_seed: seed ^ i, msg_len: 10 + j as usize, msg_seed: seed ^ (i << 8) ^ j, r: Hex(expand_bytes(seed ^ 0x5e9 ^ (i << 8) ^ j, 32)) };
            v.push(vec![b(0, 0, 0), b(4, 0, 1), b(0, 0, 2), b(0, 1, 3), b(4, 0, 4), b(4, 1, 5)]);
        }
        v
    }, |steps: &Vec<Base>| seq(steps, |b| { check_sign(b)?; check_ref_signed(b) }));

    let zl_step = ctx.tier.pick(6usize, 1usize);
    ctx.listed("nonces_with_zero_limbs", "r with an all-zero 64-bit limb below a non-zero limb (every 6th pattern in the quick tier): exact (h, S)", move || {
        let n = &r9::params().n;
        gen::zero_limb_scalars().into_iter().enumerate().filter(|(i, k)| i % zl_step == 0 && k < &(n - 1u32) && k > &BigUint::one())
            .map(|(i, k)| Base { ks: gen::hex32(&BigUint::from(0xabcdef01u64)), ks_rel: ((i % 6) as u8) << 4, id_len: 4, id_seed: seed ^ 0x2e1, msg_len: 9, msg_seed: seed ^ i as u64, r: gen::hex32(&(&k - 1u32)) }).collect::<Vec<_>>()
    }, check_sign);

    ctx.cold("cold_start_sign", "SM9 sign (r injected) as the first library operation of a fresh process", move || fixed_bases(seed ^ 0xc09d, 2), check_sign);
    ctx.cold("cold_start_verify", "SM9 verify as the first library operation of a fresh process: untouched, altered h, -S, other message", move || {
        let mut v = Vec::new();
        for b in fixed_bases(seed ^ 0xc09e, 2) {
            for t in [Tamper::None, Tamper::FlipH(9), Tamper::SNeg, Tamper::OtherMessage] {
                v.push(TCase { base: b.clone(), tamper: t });
            }
        }
        v
    }, check_tamper);

    let nbm = ctx.tier.pick(1usize, 6usize);
    let dense = ctx.tier.pick(false, true);
    ctx.exhaustive("h_multi_byte_alterations", "alterations of h that keep the xor, the sum or the multiset of its bytes or words (byte pairs at word distances in the quick tier, all pairs in the thorough tier, x 3 masks; sum-preserving pairs, rotations, word shuffles, partial keeps, 60 replacements) — a folded or partial comparison of h2 with h accepts them", move || {
        let mut v = Vec::new();
        for b in fixed_bases(seed ^ 0x66, nbm) {
            for m in multi::family(32, dense, 60) {
                v.push(TCase { base: b.clone(), tamper: Tamper::MultiH(m) });
            }
        }
        v
    }, check_tamper);

    let nb2 = ctx.tier.pick(8usize, 32usize);
    ctx.exhaustive("component_substitutions", "all h edge values and S substitutions, other message / identity / master key, untouched — for each base", move || {
        let mut v = Vec::new();
        for b in fixed_bases(seed ^ 0x99, nb2) {
            for i in 0..9u8 {
                v.push(TCase { base: b.clone(), tamper: Tamper::SetH(i) });
            }
            for t in [Tamper::None, Tamper::HPlusN, Tamper::SSameOtherZ(7), Tamper::SNeg, Tamper::SPlusP1, Tamper::SDouble, Tamper::SOtherIdentity, Tamper::SOffCurve, Tamper::SZeroZero, Tamper::SInfinity, Tamper::OtherMessage, Tamper::OtherIdentity, Tamper::OtherMasterKey] {
                v.push(TCase { base: b.clone(), tamper: t });
            }
        }
        v
    }, check_tamper);

    let nc_step = ctx.tier.pick(3usize, 1usize);
    ctx.listed("s_near_curve_points", "S replaced by the points of the G1 near-curve family (off y^2 = x^3 + 5, on a neighbouring equation with one constant changed, boundary abscissas; every 3rd in the quick tier): verification must refuse", move || {
        let mut v = Vec::new();
        for b in fixed_bases(seed ^ 0x9a, 1) {
            for i in (0..g1_near_curve_points().len()).step_by(nc_step) {
                v.push(TCase { base: b.clone(), tamper: Tamper::SNearCurve(i as u16) });
            }
        }
        v
    }, check_tamper);

    ctx.generated("generated_tamperings", "proptest (base, tampering)", ctx.tier.pick(600, 8_000), || (base_strategy(), tamper_strategy()).prop_map(|(base, tamper)| TCase { base, tamper }), check_tamper);
    let _ = pr;
}
