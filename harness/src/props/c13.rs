//! C13 — SM9 field tower, mod-N arithmetic and G1/G2 group operations are exact.

use gm_sm9::fields::FieldElement;
use gm_sm9::points::{Point, TwistPoint};
use gm_sm9::verif_hooks as hk;
use num_bigint::BigUint;
use num_traits::{One, Zero};
use proptest::prelude::*;
use serde::{Deserialize, Serialize};

use super::sm9util::*;
use crate::engine::*;
use crate::gen;
use crate::refimpl::ec::Pt;
use crate::refimpl::field::{from_be, from_limbs, mod_inv, to_limbs, Fld, Fp, Fp2};
use crate::refimpl::sm9::{self as r9, F12};

// ------------------------------------------------------------------ tower fields

/// op on elements of Fp (level 1), Fp2, Fp4, Fp12; components are canonical residues mod p, library order.
#[derive(Serialize, Deserialize, Hash, Debug, Clone)]
pub struct TOp {
    pub level: u8,
    pub op: u8,
    pub a: Vec<Hex>,
    pub b: Vec<Hex>,
    pub e: Hex,
}

const T_OPS: &[&str] = &[
    "add", "sub", "mul", "sqr", "neg", "div2", "inv", "double", "triple", "pow", "frobenius", "frobenius2", "frobenius3", "frobenius6", "conjugate", "mul_fp", "mul_fp2", "a_mul_u|a_mul_v",
    "mul_u|mul_v", "sqr_u|sqr_v", "div", "line_mul", "to_mont", "from_mont",
];

fn ncomp(level: u8) -> usize {
    match level {
        1 => 1,
        2 => 2,
        4 => 4,
        _ => 12,
    }
}

/// reference embedding of `comps` (library component order) into the polynomial basis
fn embed(level: u8, comps: &[BigUint]) -> F12 {
    let mut out = r9::f12_zero();
    match level {
        1 => out.0[0] = comps[0].clone(),
        2 => {
            out.0[0] = comps[0].clone();
            out.0[6] = comps[1].clone();
        }
        4 => {
            for flat in 0..4 {
                out.0[3 * (flat / 2) + 6 * (flat % 2)] = comps[flat].clone();
            }
        }
        _ => {
            for flat in 0..12 {
                out.0[r9::tower_exponent(flat)] = comps[flat].clone();
            }
        }
    }
    out
}

fn in_subfield(level: u8, v: &F12) -> bool {
    let allowed: Vec<usize> = match level {
        1 => vec![0],
        2 => vec![0, 6],
        4 => vec![0, 3, 6, 9],
        _ => (0..12).collect(),
    };
    (0..12).all(|i| allowed.contains(&i) || v.0[i].is_zero())
}

fn comps_of(h: &[Hex], n: usize) -> Vec<BigUint> {
    let p = r9::p_static();
    (0..n).map(|i| h.get(i).map(|x| from_be(x) % p).unwrap_or_default()).collect()
}

fn check_top(c: &TOp) -> CaseResult {
    let pr = r9::params();
    let p = pr.p;
    let level = match c.level {
        1 | 2 | 4 => c.level,
        _ => 12,
    };
    let n = ncomp(level);
    let opn = T_OPS[c.op as usize % T_OPS.len()];
    let (ac, bc) = (comps_of(&c.a, n), comps_of(&c.b, n));
    let (ar, br) = (embed(level, &ac), embed(level, &bc));
    let e = from_be(&c.e);
    let name = format!("Fp{}::{}", if level == 1 { "".to_string() } else { level.to_string() }, opn);
    let zero_comps = ac.iter().filter(|x| x.is_zero()).count();
    // library operands
    let m = |v: &BigUint| to_mont(v);
    let a1 = m(&ac[0]);
    let b1 = m(&bc[0]);
    let (a2, b2) = (hk::fp2_new([m(&ac[0]), m(ac.get(1).unwrap_or(&BigUint::zero()))]), hk::fp2_new([m(&bc[0]), m(bc.get(1).unwrap_or(&BigUint::zero()))]));
    let pad = |v: &Vec<BigUint>, k: usize| -> Vec<[u64; 4]> { (0..k).map(|i| m(v.get(i).unwrap_or(&BigUint::zero()))).collect() };
    let (a4, b4) = (hk::fp4_new(pad(&ac, 4).try_into().unwrap()), hk::fp4_new(pad(&bc, 4).try_into().unwrap()));
    let (a12, b12) = (hk::fp12_new(pad(&ac, 12).try_into().unwrap()), hk::fp12_new(pad(&bc, 12).try_into().unwrap()));

    // expected value in the polynomial basis; None = operation not defined at this level / outside its domain
    let inv2 = mod_inv(&BigUint::from(2u32), p).unwrap();
    let u_el = {
        let mut z = r9::f12_zero();
        z.0[6] = BigUint::one();
        z
    };
    let v_el = {
        let mut z = r9::f12_zero();
        z.0[3] = BigUint::one();
        z
    };
    let want: Option<F12> = match opn {
        "add" => Some(ar.add(&br)),
        "sub" => Some(ar.sub(&br)),
        "mul" => Some(ar.mul(&br)),
        "sqr" => Some(ar.sqr()),
        "neg" => Some(ar.neg()),
        "div2" => Some(ar.scale(&inv2)),
        "double" => Some(ar.add(&ar)),
        "triple" => Some(ar.add(&ar).add(&ar)),
        "inv" => {
            if ar.is_zero() {
                None
            } else {
                ar.inv()
            }
        }
        "pow" => {
            if level == 12 {
                // Fp12::pow demands e <= N - 1
                Some(ar.pow(&(&e % &pr.n)))
            } else if level == 1 {
                Some(ar.pow(&e))
            } else {
                None
            }
        }
        "frobenius" if level == 12 => Some(ar.frobenius(1)),
        "frobenius2" if level == 12 => Some(ar.frobenius(2)),
        "frobenius3" if level == 12 => Some(ar.frobenius(3)),
        "frobenius6" if level == 12 => Some(ar.frobenius(6)),
        "conjugate" if level == 2 => Some(ar.frobenius(1)),
        "conjugate" if level == 4 => Some(ar.frobenius(2)),
        "mul_fp" if level == 2 || level == 4 => Some(ar.scale(&bc[0])),
        "mul_fp2" if level == 4 => Some(ar.mul(&embed(2, &bc[..2]))),
        "a_mul_u|a_mul_v" if level == 2 => Some(ar.mul(&u_el)),
        "a_mul_u|a_mul_v" if level == 4 => Some(ar.mul(&v_el)),
        "mul_u|mul_v" if level == 2 => Some(ar.mul(&br).mul(&u_el)),
        "mul_u|mul_v" if level == 4 => Some(ar.mul(&br).mul(&v_el)),
        "sqr_u|sqr_v" if level == 2 => Some(ar.sqr().mul(&u_el)),
        "sqr_u|sqr_v" if level == 4 => Some(ar.sqr().mul(&v_el)),
        "div" if level == 2 => {
            if br.is_zero() {
                None
            } else {
                Some(ar.mul(&br.inv().unwrap()))
            }
        }
        "line_mul" if level == 12 => {
            // b's first six components are the three Fp2 line coefficients lw[0], lw[1], lw[2]
            let mut l = r9::f12_zero();
            l.0[0] = bc[0].clone();
            l.0[6] = bc[1].clone();
            l.0[2] = bc[2].clone();
            l.0[8] = bc[3].clone();
            l.0[3] = bc[4].clone();
            l.0[9] = bc[5].clone();
            Some(ar.mul(&l))
        }
        "to_mont" if level == 1 => Some(embed(1, &[(&ac[0] << 256) % p])),
        "from_mont" if level == 1 => Some(embed(1, &[(&ac[0] * rinv()) % p])),
        _ => None,
    };
    let Some(want) = want else { return pass(false, format!("{}/not-applicable", name)) };

    // run the library
    let got: Result<F12, String> = catch(|| match (level, opn) {
        (1, "add") => embed(1, &[from_mont(&a1.fp_add(&b1))]),
        (1, "sub") => embed(1, &[from_mont(&a1.fp_sub(&b1))]),
        (1, "mul") => embed(1, &[from_mont(&a1.fp_mul(&b1))]),
        (1, "sqr") => embed(1, &[from_mont(&a1.fp_sqr())]),
        (1, "neg") => embed(1, &[from_mont(&a1.fp_neg())]),
        (1, "div2") => embed(1, &[from_mont(&a1.fp_div2())]),
        (1, "inv") => embed(1, &[from_mont(&a1.fp_inv())]),
        (1, "double") => embed(1, &[from_mont(&a1.fp_double())]),
        (1, "triple") => embed(1, &[from_mont(&a1.fp_triple())]),
        (1, "pow") => embed(1, &[from_mont(&hk::fp_pow(&a1, &to_limbs(&e)))]),
        // raw (non-Montgomery) views for the conversion functions
        (1, "to_mont") => embed(1, &[from_limbs(&gm_sm9::fields::fp::fp_to_mont(&to_limbs(&ac[0])))]),
        (1, "from_mont") => embed(1, &[from_limbs(&gm_sm9::fields::fp::fp_from_mont(&to_limbs(&ac[0])))]),
        (2, "add") => ref_f2_as_f12(&a2.fp_add(&b2)),
        (2, "sub") => ref_f2_as_f12(&a2.fp_sub(&b2)),
        (2, "mul") => ref_f2_as_f12(&a2.fp_mul(&b2)),
        (2, "sqr") => ref_f2_as_f12(&a2.fp_sqr()),
        (2, "neg") => ref_f2_as_f12(&a2.fp_neg()),
        (2, "div2") => ref_f2_as_f12(&a2.fp_div2()),
        (2, "inv") => ref_f2_as_f12(&a2.fp_inv()),
        (2, "double") => ref_f2_as_f12(&a2.fp_double()),
        (2, "triple") => ref_f2_as_f12(&a2.fp_triple()),
        (2, "conjugate") => ref_f2_as_f12(&hk::fp2_conjugate(&a2)),
        (2, "mul_fp") => ref_f2_as_f12(&hk::fp2_mul_fp(&a2, &b1)),
        (2, "a_mul_u|a_mul_v") => ref_f2_as_f12(&hk::fp2_a_mul_u(&a2)),
        (2, "mul_u|mul_v") => ref_f2_as_f12(&hk::fp2_mul_u(&a2, &b2)),
        (2, "sqr_u|sqr_v") => ref_f2_as_f12(&hk::fp2_sqr_u(&a2)),
        (2, "div") => ref_f2_as_f12(&hk::fp2_div(&a2, &b2)),
        (4, "add") => ref_f4(&a4.fp_add(&b4)),
        (4, "sub") => ref_f4(&a4.fp_sub(&b4)),
        (4, "mul") => ref_f4(&a4.fp_mul(&b4)),
        (4, "sqr") => ref_f4(&a4.fp_sqr()),
        (4, "neg") => ref_f4(&a4.fp_neg()),
        (4, "div2") => ref_f4(&a4.fp_div2()),
        (4, "inv") => ref_f4(&a4.fp_inv()),
        (4, "double") => ref_f4(&a4.fp_double()),
        (4, "triple") => ref_f4(&a4.fp_triple()),
        (4, "conjugate") => ref_f4(&hk::fp4_conjugate(&a4)),
        (4, "mul_fp") => ref_f4(&hk::fp4_mul_fp(&a4, &b1)),
        (4, "mul_fp2") => ref_f4(&hk::fp4_mul_fp2(&a4, &b2)),
        (4, "a_mul_u|a_mul_v") => ref_f4(&hk::fp4_a_mul_v(&a4)),
        (4, "mul_u|mul_v") => ref_f4(&hk::fp4_mul_v(&a4, &b4)),
        (4, "sqr_u|sqr_v") => ref_f4(&hk::fp4_sqr_v(&a4)),
        (12, "add") => ref_f12(&a12.fp_add(&b12)),
        (12, "sub") => ref_f12(&a12.fp_sub(&b12)),
        (12, "mul") => ref_f12(&a12.fp_mul(&b12)),
        (12, "sqr") => ref_f12(&a12.fp_sqr()),
        (12, "neg") => ref_f12(&a12.fp_neg()),
        (12, "div2") => ref_f12(&a12.fp_div2()),
        (12, "inv") => ref_f12(&a12.fp_inv()),
        (12, "double") => ref_f12(&a12.fp_double()),
        (12, "triple") => ref_f12(&a12.fp_triple()),
        (12, "pow") => ref_f12(&hk::fp12_pow(&a12, &to_limbs(&(&e % &pr.n)))),
        (12, "frobenius") => ref_f12(&hk::fp12_frobenius(&a12)),
        (12, "frobenius2") => ref_f12(&hk::fp12_frobenius2(&a12)),
        (12, "frobenius3") => ref_f12(&hk::fp12_frobenius3(&a12)),
        (12, "frobenius6") => ref_f12(&hk::fp12_frobenius6(&a12)),
        (12, "line_mul") => {
            let lw = [hk::fp2_new([m(&bc[0]), m(&bc[1])]), hk::fp2_new([m(&bc[2]), m(&bc[3])]), hk::fp2_new([m(&bc[4]), m(&bc[5])])];
            ref_f12(&hk::fp12_line_mul(&a12, &lw))
        }
        _ => unreachable!("op table"),
    });
    let got = match got {
        Ok(v) => v,
        Err(pn) => return fail(format!("entry={} outcome=panic", name), format!("a={:?} b={:?} e={:x}: {}", c.a, c.b, e, pn)),
    };
    ensure!(in_subfield(level, &got), format!("entry={} outcome=leaves-subfield", name), "result has components outside the subfield");
    if got != want {
        let zc = if level > 1 && zero_comps > 0 { " input=zero-component" } else { "" };
        return fail(format!("entry={} outcome=wrong-value{}", name, zc), format!("a={:?} b={:?} e={:x}\nlibrary  {:x?}\nexact    {:x?}", c.a, c.b, e, got.0, want.0));
    }
    pass(zero_comps > 0 || level == 1, format!("{}{}", name, if zero_comps > 0 && level > 1 { "/zero-comp" } else { "" }))
}

fn component(p: &BigUint) -> impl Strategy<Value = Hex> {
    prop_oneof![3 => Just(gen::hex32(&BigUint::zero())), 7 => gen::residue(p)]
}

fn top_strategy(level: u8, ops: Vec<u8>) -> impl Strategy<Value = TOp> {
    let p = r9::p_static().clone();
    let n = ncomp(level);
    (prop::sample::select(ops), prop::collection::vec(component(&p), n), prop::collection::vec(component(&p), n), gen::scalar256(&r9::params().n))
        .prop_map(move |(op, a, b, e)| TOp { level, op, a, b, e })
}

// ------------------------------------------------------------------ mod N

#[derive(Serialize, Deserialize, Hash, Debug, Clone)]
pub struct NOp {
    pub op: u8,
    pub a: Hex,
    pub b: Hex,
}

/// add / sub / double with operands crafted on the *stored* values (Montgomery residues for Fp, plain values mod N) so that the integer sum or
/// difference lands on a chosen target — on both sides of each of N, p and 2^256, whichever modulus the operation belongs to: a reduction decided
/// against the wrong modulus, or with `>` for `>=`, or ignoring the carry out of 256 bits, differs exactly there.
#[derive(Serialize, Deserialize, Hash, Debug, Clone)]
pub struct Sum {
    /// 0: Fp (fp_add / fp_sub / fp_double on stored residues); 1: mod N (mod_n_add / mod_n_sub)
    pub field: u8,
    /// 0 add: b := target - a; 1 sub: b := a - target (a - b = target, negative targets through the wrap); 2 double: a := target / 2 (Fp only)
    pub op: u8,
    pub a: Hex,
    pub target: Hex,
    /// the target is meant negatively (sub only): a - b = -target
    pub neg: bool,
}

/// big-endian bytes of a value that may exceed 256 bits
fn gen_hex(v: &BigUint) -> Hex {
    Hex(v.to_bytes_be())
}

fn check_sum(c: &Sum) -> CaseResult {
    use gm_sm9::fields as f;
    let pr = r9::params();
    let m: &BigUint = if c.field == 0 { pr.p } else { &pr.n };
    let t = from_be(&c.target);
    let a = from_be(&c.a) % m;
    let two256 = BigUint::one() << 256usize;
    let (a, b) = match c.op % 3 {
        0 => {
            // a + b = t with 0 <= a, b < m
            let lo = if t >= *m { &t - m + 1u32 } else { BigUint::zero() };
            let hi = if t < *m { t.clone() } else { m - 1u32 };
            if lo > hi {
                return pass(false, "target-out-of-reach");
            }
            let a = &lo + &a % (&hi - &lo + 1u32);
            let b = &t - &a;
            (a, b)
        }
        1 => {
            // a - b = t (or -t) with 0 <= a, b < m
            if t >= *m {
                return pass(false, "target-out-of-reach");
            }
            if c.neg {
                let b = &t + &a % (m - &t);
                (&b - &t, b)
            } else {
                let a = &t + &a % (m - &t);
                let b = &a - &t;
                (a, b)
            }
        }
        _ => {
            let a = (&t >> 1usize) % m;
            (a.clone(), a)
        }
    };
    let _ = two256;
    let (al, bl) = (to_limbs(&a), to_limbs(&b));
    let (name, want, got): (&str, BigUint, Result<[u64; 4], String>) = match (c.field, c.op % 3) {
        (0, 0) => ("Fp::fp_add", (&a + &b) % m, catch(|| al.fp_add(&bl))),
        (0, 1) => ("Fp::fp_sub", (&a + m - &b) % m, catch(|| al.fp_sub(&bl))),
        (0, _) => ("Fp::fp_double", (&a * 2u32) % m, catch(|| al.fp_double())),
        (_, 0) => ("mod_n_add", (&a + &b) % m, catch(|| f::mod_n_add(&al, &bl))),
        (_, 1) => ("mod_n_sub", (&a + m - &b) % m, catch(|| f::mod_n_sub(&al, &bl))),
        _ => return pass(false, "no-double-mod-n"),
    };
    let got = got.map_err(|p| Fail { key: format!("entry={} outcome=panic", name), detail: p })?;
    ensure!(from_limbs(&got) == want, format!("entry={} outcome=wrong-value input=crafted-sum", name), "stored a={:x} b={:x}: library {:x} expected {:x} (integer sum/difference aimed at {}{:x})", a, b, from_limbs(&got), want, if c.neg { "-" } else { "" }, t);
    pass(true, format!("{}/{}", name, if t >= *m { "at-or-above-modulus" } else { "below-modulus" }))
}

const N_OPS: &[&str] = &["mod_n_add", "mod_n_sub", "mod_n_mul", "mod_n_inv", "mod_n_pow"];

fn check_nop(c: &NOp) -> CaseResult {
    let n = &r9::params().n;
    let op = N_OPS[c.op as usize % N_OPS.len()];
    let (a, b) = (from_be(&c.a) % n, from_be(&c.b) % n);
    let (al, bl) = (to_limbs(&a), to_limbs(&b));
    use gm_sm9::fields as f;
    let want = match op {
        "mod_n_add" => (&a + &b) % n,
        "mod_n_sub" => (&a + n - &b) % n,
        "mod_n_mul" => (&a * &b) % n,
        "mod_n_inv" => {
            if a.is_zero() {
                return pass(false, "mod_n_inv/zero-skipped");
            }
            mod_inv(&a, n).unwrap()
        }
        _ => a.modpow(&from_be(&c.b), n),
    };
    let got = catch(|| match op {
        "mod_n_add" => f::mod_n_add(&al, &bl),
        "mod_n_sub" => f::mod_n_sub(&al, &bl),
        "mod_n_mul" => f::mod_n_mul(&al, &bl),
        "mod_n_inv" => f::mod_n_inv(&al),
        _ => f::mod_n_pow(&al, &to_limbs(&from_be(&c.b))),
    })
    .map_err(|p| Fail { key: format!("entry={} outcome=panic", op), detail: format!("a={:x} b={:x}: {}", a, b, p) })?;
    ensure!(from_limbs(&got) == want, format!("entry={} outcome=wrong-value", op), "a={:x} b={} library={:x} exact={:x}", a, hex::encode(&c.b.0), from_limbs(&got), want);
    pass(true, op)
}

#[derive(Serialize, Deserialize, Hash, Debug, Clone)]
pub struct Booth {
    pub k: Hex,
    pub w: u8,
}

fn check_booth(c: &Booth) -> CaseResult {
    let k = from_be(&c.k);
    let w = if c.w % 2 == 0 { 5u64 } else { 7u64 };
    let n = (256 + w - 1) / w;
    let kl = to_limbs(&k);
    let mut sum = num_bigint::BigInt::zero();
    for i in 0..n {
        let d = catch(|| gm_sm9::u256::sm9_u256_get_booth(&kl, w, i)).map_err(|p| Fail { key: "entry=sm9_u256_get_booth outcome=panic".into(), detail: format!("k={:x} w={} i={}: {}", k, w, i, p) })?;
        ensure!(d.abs() as u64 <= 1 << (w - 1), "entry=sm9_u256_get_booth outcome=digit-out-of-range", "k={:x} w={} i={} digit {}", k, w, i, d);
        sum += num_bigint::BigInt::from(d) << (w * i) as usize;
    }
    ensure!(sum == num_bigint::BigInt::from(k.clone()), "entry=sm9_u256_get_booth outcome=wrong-recoding", "k={:x} w={}: digits sum to {:x}", k, w, sum);
    pass(true, format!("w={}", w))
}

// ------------------------------------------------------------------ G1

#[derive(Serialize, Deserialize, Hash, Debug, Clone)]
pub struct G1Rep {
    pub k: Hex,
    pub lambda: Hex,
}

impl G1Rep {
    fn reference(&self) -> Pt<Fp> {
        if from_be(&self.lambda).is_zero() {
            None
        } else {
            r9::p1_mul(&(from_be(&self.k) % &r9::params().n))
        }
    }
    fn library(&self) -> Point {
        let l = from_be(&self.lambda) % r9::p_static();
        if l.is_zero() {
            lib_g1(&None, &(from_be(&self.k) % r9::p_static()))
        } else {
            lib_g1(&self.reference(), &l)
        }
    }
}

fn check_g1(what: &str, got: &Point, want: &Pt<Fp>, desc: &str) -> Result<(), Fail> {
    let r = ref_g1(got).map_err(|e| Fail { key: format!("entry={} outcome=non-canonical-coordinate", what), detail: format!("{}: {}", desc, e) })?;
    if &r != want {
        return Err(Fail { key: format!("entry={} outcome=wrong-point", what), detail: format!("{}: library {} ; group law {}", desc, show1(&r), show1(want)) });
    }
    Ok(())
}

#[derive(Serialize, Deserialize, Hash, Debug, Clone)]
pub struct G1Pair {
    pub p: G1Rep,
    pub relation: u8,
    pub q: G1Rep,
}

fn g1rep() -> impl Strategy<Value = G1Rep> {
    let p = r9::p_static().clone();
    let n = r9::params().n.clone();
    let k = prop_oneof![6 => (1u64..5000).prop_map(|v| gen::hex32(&BigUint::from(v))), 1 => (1u64..100).prop_map(move |v| gen::hex32(&(&n - BigUint::from(v)))), 2 => prop::array::uniform32(any::<u8>()).prop_map(|a| Hex(a.to_vec()))];
    let lam = prop_oneof![
        3 => Just(gen::hex32(&BigUint::one())),
        1 => Just(gen::hex32(&BigUint::from(2u32))),
        // Montgomery limbs equal to the plain integers 1, 2 (field elements R^-1, 2R^-1)
        1 => (1u32..3).prop_map(|k| gen::hex32(&((BigUint::from(k) * rinv()) % r9::p_static()))),
        4 => prop::array::uniform32(any::<u8>()).prop_map(move |a| gen::hex32(&(from_be(&a) % (&p - 1u32) + 1u32))),
        1 => Just(gen::hex32(&BigUint::zero())),
    ];
    (k, lam).prop_map(|(k, lambda)| G1Rep { k, lambda })
}

fn check_g1_pair(c: &G1Pair) -> CaseResult {
    let pr = r9::params();
    let p_ref = c.p.reference();
    let p_lib = c.p.library();
    let (q_ref, q_lib) = match c.relation {
        1..=8 => {
            let base = if c.relation % 2 == 1 { p_ref.clone() } else { pr.g1.neg(&p_ref) };
            let l = if c.relation <= 2 { from_be(&c.q.lambda) % pr.p } else { super::sm2util::tied_lambda(&(from_be(&c.p.lambda) % pr.p), c.relation, pr.p) };
            if l.is_zero() || base.is_none() {
                (None, lib_g1(&None, &(from_be(&c.q.k) % pr.p)))
            } else {
                (base.clone(), lib_g1(&base, &l))
            }
        }
        _ => (c.q.reference(), c.q.library()),
    };
    let desc = format!("P={} (Z={}) Q={} (Z={})", show1(&p_ref), hex::encode(&c.p.lambda.0), show1(&q_ref), hex::encode(&c.q.lambda.0));
    let same_z = c.p.lambda == c.q.lambda;
    let class = match (p_ref.is_none(), q_ref.is_none()) {
        (true, true) => "O+O".to_string(),
        (true, false) => "O+Q".to_string(),
        (false, true) => "P+O".to_string(),
        _ if p_ref == q_ref => format!("P=Q/{}", if c.relation >= 3 { "tiedZ" } else if same_z { "sameZ" } else { "diffZ" }),
        _ if pr.g1.add(&p_ref, &q_ref).is_none() => format!("P=-Q/{}", if c.relation >= 3 { "tiedZ" } else if same_z { "sameZ" } else { "diffZ" }),
        _ => "generic".to_string(),
    };
    let tag = |mut f: Fail| {
        f.key = format!("{} input={}", f.key, class);
        f
    };
    let add = catch(|| p_lib.point_add(&q_lib)).map_err(|e| Fail { key: "entry=Point::point_add outcome=panic".into(), detail: e })?;
    check_g1("Point::point_add", &add, &pr.g1.add(&p_ref, &q_ref), &desc).map_err(tag)?;
    let sub = catch(|| p_lib.point_sub(&q_lib)).map_err(|e| Fail { key: "entry=Point::point_sub outcome=panic".into(), detail: e })?;
    check_g1("Point::point_sub", &sub, &pr.g1.sub(&p_ref, &q_ref), &desc).map_err(tag)?;
    // equality: true exactly when the two representations denote the same point
    let eq = catch(|| p_lib.point_equals(&q_lib)).map_err(|e| Fail { key: "entry=Point::point_equals outcome=panic".into(), detail: e })?;
    if p_ref.is_some() && q_ref.is_some() {
        ensure!(eq == (p_ref == q_ref), format!("entry=Point::point_equals outcome=wrong-answer input={}", class), "{} -> {}", desc, eq);
    }
    // unary operations on P
    let d = catch(|| p_lib.point_double()).map_err(|e| Fail { key: "entry=Point::point_double outcome=panic".into(), detail: e })?;
    check_g1("Point::point_double", &d, &pr.g1.dbl(&p_ref), &desc)?;
    let ng = catch(|| p_lib.point_neg()).map_err(|e| Fail { key: "entry=Point::point_neg outcome=panic".into(), detail: e })?;
    check_g1("Point::point_neg", &ng, &pr.g1.neg(&p_ref), &desc)?;
    if p_ref.is_some() {
        ensure!(p_lib.is_on_curve(), "entry=Point::is_on_curve outcome=false-on-curve-point", "{}", desc);
        let bytes = catch(|| p_lib.to_bytes_be()).map_err(|e| Fail { key: "entry=Point::to_bytes_be outcome=panic".into(), detail: e })?;
        let mut want = vec![4u8];
        want.extend_from_slice(&r9::g1_bytes(&p_ref).unwrap());
        ensure!(bytes == want, "entry=Point::to_bytes_be outcome=wrong-encoding", "{} -> {}", desc, hex::encode(&bytes));
        let (x, y) = p_ref.clone().unwrap();
        let bad = Some((x.clone(), y.add(&y.from_u64_like(1))));
        ensure!(!lib_g1(&bad, &(from_be(&c.p.lambda) % pr.p)).is_on_curve(), "entry=Point::is_on_curve outcome=true-off-curve", "{} with y+1", desc);
    }
    ensure!(p_lib.is_zero() == p_ref.is_none(), "entry=Point::is_zero outcome=mismatch", "{}", desc);
    pass(class != "generic" || !same_z, class)
}

/// P = [k]P1 = (x, y) and Q = (w x, y) with w a primitive cube root of unity mod p: a different point with the same ordinate (b-only curve)
#[derive(Serialize, Deserialize, Hash, Debug, Clone)]
pub struct G1SameY {
    pub k: Hex,
    pub lambda_p: Hex,
    pub lambda_q: Hex,
    pub second_root: bool,
}

fn check_g1_same_y(c: &G1SameY) -> CaseResult {
    let pr = r9::params();
    let p = pr.p;
    let k = from_be(&c.k) % (&pr.n - 1u32) + 1u32;
    let p_ref = r9::p1_mul(&k);
    let (x, y) = p_ref.clone().unwrap();
    // w = (-1 + sqrt(-3)) / 2
    let Some(s) = r9::fp(&(p - 3u32)).sqrt_any() else { return pass(false, "no-cube-root-of-unity") };
    let half = mod_inv(&BigUint::from(2u32), p).unwrap();
    let w = ((p - 1u32 + if c.second_root { p - &s.v } else { s.v.clone() }) * &half) % p;
    let q_ref: Pt<Fp> = Some((r9::fp(&((&x.v * &w) % p)), y.clone()));
    if !pr.g1.on_curve(&q_ref) || q_ref == p_ref {
        return pass(false, "partner-not-usable");
    }
    let nz = |h: &Hex| { let v = from_be(h) % p; if v.is_zero() { BigUint::one() } else { v } };
    let (lp, lq) = (nz(&c.lambda_p), nz(&c.lambda_q));
    let (p_lib, q_lib) = (lib_g1(&p_ref, &lp), lib_g1(&q_ref, &lq));
    let desc = format!("P={} Q={} (same y, Z_P={:x}, Z_Q={:x})", show1(&p_ref), show1(&q_ref), lp, lq);
    for (what, a, b, want) in [
        ("P+Q", &p_lib, &q_lib, pr.g1.add(&p_ref, &q_ref)),
        ("Q+P", &q_lib, &p_lib, pr.g1.add(&p_ref, &q_ref)),
        ("P-Q", &p_lib, &lib_g1(&pr.g1.neg(&q_ref), &lq), pr.g1.sub(&p_ref, &q_ref)),
    ] {
        let got = catch(|| a.point_add(b)).map_err(|e| Fail { key: "entry=Point::point_add outcome=panic".into(), detail: format!("{} {}: {}", what, desc, e) })?;
        check_g1("Point::point_add", &got, &want, &format!("{} {}", what, desc)).map_err(|mut f| {
            f.key = format!("{} input=same-y", f.key);
            f
        })?;
    }
    pass(true, "g1-same-y")
}

/// A boundary point of G1 (see sm9util::g1_edge_points) in the representation Z = lambda, with a scalar.
#[derive(Serialize, Deserialize, Hash, Debug, Clone)]
pub struct G1Edge {
    pub point: usize,
    pub lambda: Hex,
    pub scalar: Hex,
}

fn check_g1_edge(c: &G1Edge) -> CaseResult {
    let pr = r9::params();
    let eps = g1_edge_points();
    let (label, x, y) = &eps[c.point % eps.len()];
    let p_ref: Pt<Fp> = Some((r9::fp(x), r9::fp(y)));
    let mut l = from_be(&c.lambda) % pr.p;
    if l.is_zero() {
        l = BigUint::one();
    }
    let p_lib = lib_g1(&p_ref, &l);
    let desc = format!("P = edge point {} x={:x} y={:x} (Z={:x})", label, x, y, l);
    ensure!(catch(|| p_lib.is_on_curve()).map_err(|e| Fail { key: "entry=Point::is_on_curve outcome=panic".into(), detail: e })?, "entry=Point::is_on_curve outcome=false-on-curve-point", "{}", desc);
    let d = catch(|| p_lib.point_double()).map_err(|e| Fail { key: "entry=Point::point_double outcome=panic".into(), detail: e })?;
    check_g1("Point::point_double", &d, &pr.g1.dbl(&p_ref), &desc)?;
    let g = r9::p1_mul(&BigUint::one());
    for (what, q_ref, q_lib) in [("P+P1", g.clone(), lib_g1(&g, &BigUint::one())), ("P+P", p_ref.clone(), lib_g1(&p_ref, &BigUint::from(2u32))), ("P+(-P)", pr.g1.neg(&p_ref), lib_g1(&pr.g1.neg(&p_ref), &BigUint::one()))] {
        let got = catch(|| p_lib.point_add(&q_lib)).map_err(|e| Fail { key: "entry=Point::point_add outcome=panic".into(), detail: format!("{} {}: {}", what, desc, e) })?;
        check_g1("Point::point_add", &got, &pr.g1.add(&p_ref, &q_ref), &format!("{} {}", what, desc))?;
        let got = catch(|| q_lib.point_add(&p_lib)).map_err(|e| Fail { key: "entry=Point::point_add outcome=panic".into(), detail: format!("{} {}: {}", what, desc, e) })?;
        check_g1("Point::point_add", &got, &pr.g1.add(&p_ref, &q_ref), &format!("(swapped) {} {}", what, desc))?;
    }
    let k = from_be(&c.scalar);
    let got = catch(|| p_lib.point_mul(&scalar_limbs(&k))).map_err(|e| Fail { key: "entry=Point::point_mul input=k outcome=panic".into(), detail: format!("k={:x} {}: {}", k, desc, e) })?;
    check_g1("Point::point_mul", &got, &pr.g1.mul(&(&k % &pr.n), &p_ref), &format!("k={:x} {}", k, desc))?;
    let bytes = catch(|| p_lib.to_bytes_be()).map_err(|e| Fail { key: "entry=Point::to_bytes_be outcome=panic".into(), detail: e })?;
    let mut want = vec![4u8];
    want.extend_from_slice(&r9::g1_bytes(&p_ref).unwrap());
    ensure!(bytes == want, "entry=Point::to_bytes_be outcome=wrong-encoding", "{} -> {}", desc, hex::encode(&bytes));
    pass(true, format!("g1-edge/{}", if l.is_one() { "affine" } else { "jacobian" }))
}

#[derive(Serialize, Deserialize, Hash, Debug, Clone)]
pub struct G1Mul {
    /// None: fixed-base g_mul; Some: variable-base point_mul on that point
    pub p: Option<G1Rep>,
    pub scalar: Hex,
}

fn check_g1_mul(c: &G1Mul) -> CaseResult {
    let pr = r9::params();
    let k = from_be(&c.scalar);
    let kr = &k % &pr.n;
    let class = if k.is_zero() { "k=0" } else if k >= pr.n { "k>=N" } else if k.bits() <= 7 { "k-small" } else { "k" };
    match &c.p {
        None => {
            let got = catch(|| Point::g_mul(&scalar_limbs(&k))).map_err(|e| Fail { key: format!("entry=Point::g_mul input={} outcome=panic", class), detail: format!("k={:x}: {}", k, e) })?;
            check_g1("Point::g_mul", &got, &r9::p1_mul(&kr), &format!("k={:x}", k)).map_err(|mut f| {
                f.key = format!("{} input={}", f.key, class);
                f
            })?;
            pass(true, format!("g_mul/{}", class))
        }
        Some(rep) => {
            let got = catch(|| rep.library().point_mul(&scalar_limbs(&k))).map_err(|e| Fail { key: format!("entry=Point::point_mul input={} outcome=panic", class), detail: format!("k={:x}: {}", k, e) })?;
            let p_ref = rep.reference();
            check_g1("Point::point_mul", &got, &pr.g1.mul(&kr, &p_ref), &format!("k={:x} P={} (Z={})", k, show1(&p_ref), hex::encode(&rep.lambda.0))).map_err(|mut f| {
                f.key = format!("{} input={}", f.key, class);
                f
            })?;
            pass(true, format!("point_mul/{}", class))
        }
    }
}

#[derive(Serialize, Deserialize, Hash, Debug, Clone)]
pub struct TableEntry {
    pub row: usize,
    pub j: usize,
}

fn check_table(t: &TableEntry) -> CaseResult {
    let tab = hk::precomputed_table();
    let k = BigUint::from(t.j as u64 + 1) << (7 * t.row);
    let want = r9::p1_mul(&(k % &r9::params().n));
    let (x, y) = (tab[t.row][2 * t.j], tab[t.row][2 * t.j + 1]);
    ensure!(canonical(&x) && canonical(&y), "entry=SM9_P256_PRECOMPUTED outcome=non-canonical", "row {} j {}", t.row, t.j);
    let got = Some((r9::fp(&from_mont(&x)), r9::fp(&from_mont(&y))));
    ensure!(got == want, "entry=SM9_P256_PRECOMPUTED outcome=wrong-entry", "table[{}][{}] = {} but [{}*2^{}]P1 = {}", t.row, t.j, show1(&got), t.j + 1, 7 * t.row, show1(&want));
    pass(true, format!("row{}", t.row))
}

// ------------------------------------------------------------------ G2

#[derive(Serialize, Deserialize, Hash, Debug, Clone)]
pub struct G2Rep {
    pub k: Hex,
    /// Z = l0 + l1 u ; (0, 0) = infinity
    pub l0: Hex,
    pub l1: Hex,
}

impl G2Rep {
    fn lambda(&self) -> Fp2 {
        r9::fp2(&(from_be(&self.l0) % r9::p_static()), &(from_be(&self.l1) % r9::p_static()))
    }
    fn reference(&self) -> Pt<Fp2> {
        if self.lambda().is_zero() {
            None
        } else {
            r9::p2_mul(&(from_be(&self.k) % &r9::params().n))
        }
    }
    fn library(&self) -> TwistPoint {
        let l = self.lambda();
        if l.is_zero() {
            let mu = r9::fp2(&(from_be(&self.k) % r9::p_static()), &BigUint::zero());
            lib_g2(&None, &mu)
        } else {
            lib_g2(&self.reference(), &l)
        }
    }
    fn affine(&self) -> bool {
        self.lambda() == fp2_one()
    }
}

fn check_g2(what: &str, got: &TwistPoint, want: &Pt<Fp2>, desc: &str) -> Result<(), Fail> {
    let r = ref_g2(got).map_err(|e| Fail { key: format!("entry={} outcome=non-canonical-coordinate", what), detail: format!("{}: {}", desc, e) })?;
    if &r != want {
        return Err(Fail { key: format!("entry={} outcome=wrong-point", what), detail: format!("{}: library {} ; group law {}", desc, show2(&r), show2(want)) });
    }
    Ok(())
}

#[derive(Serialize, Deserialize, Hash, Debug, Clone)]
pub struct G2Pair {
    pub p: G2Rep,
    pub relation: u8,
    pub q: G2Rep,
}

fn g2rep() -> impl Strategy<Value = G2Rep> {
    let p = r9::p_static().clone();
    let n = r9::params().n.clone();
    let k = prop_oneof![8 => (1u64..200).prop_map(|v| gen::hex32(&BigUint::from(v))), 1 => (1u64..20).prop_map(move |v| gen::hex32(&(&n - BigUint::from(v))))];
    let p2 = p.clone();
    let lam = prop_oneof![
        3 => Just((gen::hex32(&BigUint::one()), gen::hex32(&BigUint::zero()))),
        1 => Just((gen::hex32(&BigUint::zero()), gen::hex32(&BigUint::one()))),
        1 => (1u32..3).prop_map(|k| (gen::hex32(&((BigUint::from(k) * rinv()) % r9::p_static())), gen::hex32(&BigUint::zero()))),
        4 => (prop::array::uniform32(any::<u8>()), prop::array::uniform32(any::<u8>())).prop_map(move |(a, b)| (gen::hex32(&(from_be(&a) % (&p - 1u32) + 1u32)), gen::hex32(&(from_be(&b) % &p2)))),
        1 => Just((gen::hex32(&BigUint::zero()), gen::hex32(&BigUint::zero()))),
    ];
    (k, lam).prop_map(|(k, (l0, l1))| G2Rep { k, l0, l1 })
}

fn check_g2_pair(c: &G2Pair) -> CaseResult {
    let pr = r9::params();
    let p_ref = c.p.reference();
    let p_lib = c.p.library();
    let (q_ref, q_lib) = match c.relation {
        1..=8 => {
            let base = if c.relation % 2 == 1 { p_ref.clone() } else { pr.g2.neg(&p_ref) };
            let l = if c.relation <= 2 { c.q.lambda() } else {
                // Z_Q = t Z_P with t = -1, w, w^2 in the base field
                let t = super::sm2util::tied_lambda(&BigUint::one(), c.relation, pr.p);
                c.p.lambda().mul(&r9::fp2(&t, &BigUint::zero()))
            };
            if l.is_zero() || base.is_none() {
                (None, TwistPoint::zero())
            } else {
                (base.clone(), lib_g2(&base, &l))
            }
        }
        _ => (c.q.reference(), c.q.library()),
    };
    let desc = format!("P=[{}]P2 (Z={:?}) Q={} (Z={:?})", hex::encode(&c.p.k.0).trim_start_matches('0'), c.p.lambda(), show2(&q_ref), c.q.lambda());
    let rhs = if c.q.affine() || q_ref.is_none() { "rhs-affine" } else { "rhs-jacobian" };
    let class = match (p_ref.is_none(), q_ref.is_none()) {
        (true, true) => "O+O".to_string(),
        (true, false) => "O+Q".to_string(),
        (false, true) => "P+O".to_string(),
        _ if p_ref == q_ref => "P=Q".to_string(),
        _ if pr.g2.add(&p_ref, &q_ref).is_none() => "P=-Q".to_string(),
        _ => "generic".to_string(),
    };
    let tag = |mut f: Fail| {
        f.key = format!("{} input={}/{}", f.key, class, rhs);
        f
    };
    let add = catch(|| p_lib.point_add(&q_lib)).map_err(|e| Fail { key: "entry=TwistPoint::point_add outcome=panic".into(), detail: e })?;
    check_g2("TwistPoint::point_add", &add, &pr.g2.add(&p_ref, &q_ref), &desc).map_err(tag)?;
    let addf = catch(|| hk::twist_point_add_full(&p_lib, &q_lib)).map_err(|e| Fail { key: "entry=twist_point_add_full outcome=panic".into(), detail: e })?;
    check_g2("twist_point_add_full", &addf, &pr.g2.add(&p_ref, &q_ref), &desc).map_err(tag)?;
    let sub = catch(|| p_lib.point_sub(&q_lib)).map_err(|e| Fail { key: "entry=TwistPoint::point_sub outcome=panic".into(), detail: e })?;
    check_g2("TwistPoint::point_sub", &sub, &pr.g2.sub(&p_ref, &q_ref), &desc).map_err(tag)?;
    let d = catch(|| p_lib.point_double()).map_err(|e| Fail { key: "entry=TwistPoint::point_double outcome=panic".into(), detail: e })?;
    check_g2("TwistPoint::point_double", &d, &pr.g2.dbl(&p_ref), &desc)?;
    let ng = catch(|| p_lib.point_neg()).map_err(|e| Fail { key: "entry=TwistPoint::point_neg outcome=panic".into(), detail: e })?;
    check_g2("TwistPoint::point_neg", &ng, &pr.g2.neg(&p_ref), &desc)?;
    if p_ref.is_some() && q_ref.is_some() {
        let eq = catch(|| p_lib.point_equals(&q_lib)).map_err(|e| Fail { key: "entry=TwistPoint::point_equals outcome=panic".into(), detail: e })?;
        ensure!(eq == (p_ref == q_ref), format!("entry=TwistPoint::point_equals outcome=wrong-answer input={}", class), "{} -> {}", desc, eq);
    }
    pass(class != "generic" || rhs == "rhs-jacobian", format!("{}/{}", class, rhs))
}

#[derive(Serialize, Deserialize, Hash, Debug, Clone)]
pub struct G2Mul {
    pub p: Option<G2Rep>,
    pub scalar: Hex,
}

fn check_g2_mul(c: &G2Mul) -> CaseResult {
    let pr = r9::params();
    let k = from_be(&c.scalar);
    let kr = &k % &pr.n;
    let class = if k.is_zero() { "k=0" } else if k >= pr.n { "k>=N" } else { "k" };
    match &c.p {
        None => {
            let got = catch(|| TwistPoint::g_mul(&scalar_limbs(&k))).map_err(|e| Fail { key: "entry=TwistPoint::g_mul outcome=panic".into(), detail: e })?;
            check_g2("TwistPoint::g_mul", &got, &r9::p2_mul(&kr), &format!("k={:x}", k))?;
            pass(true, format!("g_mul/{}", class))
        }
        Some(rep) => {
            let got = catch(|| rep.library().point_mul(&scalar_limbs(&k))).map_err(|e| Fail { key: "entry=TwistPoint::point_mul outcome=panic".into(), detail: e })?;
            check_g2("TwistPoint::point_mul", &got, &pr.g2.mul(&kr, &rep.reference()), &format!("k={:x} P=[{}]P2 Z={:?}", k, hex::encode(&rep.k.0).trim_start_matches('0'), rep.lambda()))?;
            pass(true, format!("point_mul/{}{}", class, if rep.affine() { "" } else { "/jacobian" }))
        }
    }
}

pub fn run(ctx: &Ctx) {
    let pr = r9::params();
    ctx.set_rule(
        "field cases are (level in {Fp, Fp2, Fp4, Fp12}, operation, operand components, exponent): components are 0 with probability 0.3 or edge-biased residues, plus exhaustive zero-component masks \
         (all 4 / 16 / 4096 subsets for Fp2 / Fp4 / Fp12) for inversion, squaring and multiplication; mod-N operations on boundary-limb pairs and values around N, p; Booth recodings (w = 5, 7) of edge and random scalars; \
         G1: all 37x64 table entries, every single-window fixed-base scalar d*2^(7i) (d = 1..=127) and variable-base 5-bit window value x position (with and without the carry bit below), scalars around N, point pairs in chosen Jacobian \
         representations (equal / opposite with different Z, infinity); G2: the same pair classes with affine and Jacobian right-hand sides for point_add / full addition / sub / double / neg / equality, point_mul and g_mul. \
         Oracle: polynomial-basis Fp12 = Fp[w]/(w^12+2) and affine curves over BigUint. Non-trivial: zero component, boundary operand, special point pair, Jacobian operand or single-window scalar.",
    );
    ctx.assume("reference tower/curves (harness/src/refimpl/{field,ec,sm9}.rs): a*a^-1 = 1, Frobenius formula == x^p, [N]P1 = [N]P2 = O, Annex key-extraction/signature/ciphertext/exchange vectors reproduced");
    ctx.assume("operands are canonical (< p resp. < N); Fp12::pow is exercised with exponents < N-1 as it demands");

    // ---- tower
    let all_ops: Vec<u8> = (0..T_OPS.len() as u8).collect();
    for level in [1u8, 2, 4, 12] {
        let ops = all_ops.clone();
        let cnt = match level {
            1 => ctx.tier.pick(40_000, 400_000),
            12 => ctx.tier.pick(6_000, 100_000),
            _ => ctx.tier.pick(20_000, 200_000),
        };
        ctx.generated(&format!("tower_level{}_generated", level), "proptest (operation, components with zeros, exponent)", cnt, move || top_strategy(level, ops.clone()), check_top);
    }
    let seed = ctx.seed;
    ctx.exhaustive("tower_zero_masks", "inv / sqr / mul / div2 with every subset of components zero: Fp2 (4 masks), Fp4 (16), Fp12 (4096 for inv and sqr, 256 mask pairs for mul)", move || {
        let p = r9::p_static();
        let val = |s: u64| gen::hex32(&(from_be(&expand_bytes(seed ^ s, 32)) % (p - 1u32) + 1u32));
        let zero = gen::hex32(&BigUint::zero());
        let mut v = Vec::new();
        for (level, n) in [(2u8, 2usize), (4, 4), (12, 12)] {
            for mask in 0..(1u32 << n) {
                let a: Vec<Hex> = (0..n).map(|i| if mask >> i & 1 == 1 { zero.clone() } else { val(mask as u64 * 16 + i as u64) }).collect();
                let b: Vec<Hex> = (0..n).map(|i| val(0x1000_0000 + mask as u64 * 16 + i as u64)).collect();
                for op in [6u8, 3, 5] {
                    v.push(TOp { level, op, a: a.clone(), b: b.clone(), e: zero.clone() });
                }
                if n < 12 || mask % 16 == 0 {
                    v.push(TOp { level, op: 2, a: a.clone(), b: a.iter().rev().cloned().collect(), e: zero.clone() });
                    v.push(TOp { level, op: 2, a, b, e: zero.clone() });
                }
            }
        }
        v
    }, check_top);

    // ---- mod N
    ctx.exhaustive("modn_boundary_pairs", "add / sub / mul on all pairs of boundary-limb values below N; inv / pow on values near 0, N, p", || {
        let n = &pr.n;
        let vals = gen::boundary_limb_values(n);
        let mut v = Vec::new();
        for a in &vals {
            for b in &vals {
                for op in 0..3u8 {
                    v.push(NOp { op, a: gen::hex32(a), b: gen::hex32(b) });
                }
            }
        }
        let near = gen::near_values(n, &[pr.p.clone()]);
        for a in &near {
            for b in &near {
                for op in 0..5u8 {
                    v.push(NOp { op, a: gen::hex32(a), b: gen::hex32(b) });
                }
            }
        }
        v
    }, check_nop);
    ctx.exhaustive("crafted_sums_and_differences", "fp_add / fp_sub / fp_double (on stored Montgomery residues) and mod_n_add / mod_n_sub with operands crafted so that the integer sum (resp. difference) lands within 2 of 0, N, p, (N+p)/2, 2N, N+p, 2p-2, 2^255, 2^256 — every target for both moduli, 6 operand draws each — and on the 2 x 625 limb-wise neighbours of N and p (each limb equal to the modulus' limb, one below, one above, 0 or all ones): a reduction decided against the other modulus, with > for >=, or blind to the carry out of 256 bits", || {
        let (n, p) = (&pr.n, pr.p);
        let two256 = BigUint::one() << 256usize;
        let mut anchors: Vec<BigUint> = vec![BigUint::from(2u32), n.clone(), p.clone(), (n + p) >> 1usize, n * 2u32, n + p, p * 2u32 - 4u32, BigUint::one() << 255usize, two256.clone(), &two256 - p, &two256 - n];
        anchors.push(&two256 + (p - n));
        let mut v = Vec::new();
        for (i, anchor) in anchors.iter().enumerate() {
            for d in 0..5u32 {
                let t = anchor + d - 2u32;
                for draw in 0..6u64 {
                    let a = Hex(expand_bytes((i as u64) << 16 | (d as u64) << 8 | draw, 32));
                    for field in 0..2u8 {
                        v.push(Sum { field, op: 0, a: a.clone(), target: gen_hex(&t), neg: false });
                        v.push(Sum { field, op: 1, a: a.clone(), target: gen_hex(&t), neg: false });
                        v.push(Sum { field, op: 1, a: a.clone(), target: gen_hex(&t), neg: true });
                        if draw == 0 {
                            v.push(Sum { field, op: 2, a: a.clone(), target: gen_hex(&t), neg: false });
                            v.push(Sum { field, op: 2, a: a.clone(), target: gen_hex(&(&t + 1u32)), neg: false });
                        }
                    }
                }
            }
        }
        // limb-wise neighbours of each modulus: every limb independently equal to the modulus' limb, one below, one above, 0 or all ones — values that
        // tie with the modulus in some limbs and differ in others (a comparison that walks the limbs in the wrong order, or in halves, decides these wrongly)
        for (mi, m) in [n, p].iter().enumerate() {
            let ml = to_limbs(m);
            for code in 0..625u32 {
                let mut l = [0u64; 4];
                let mut c = code;
                for i in 0..4 {
                    l[i] = match c % 5 { 0 => ml[i], 1 => ml[i].wrapping_sub(1), 2 => ml[i].wrapping_add(1), 3 => 0, _ => u64::MAX };
                    c /= 5;
                }
                let t = from_limbs(&l);
                let a = Hex(expand_bytes(0x11b0 + code as u64 + ((mi as u64) << 12), 32));
                for field in 0..2u8 {
                    v.push(Sum { field, op: 0, a: a.clone(), target: gen_hex(&t), neg: false });
                    v.push(Sum { field, op: 1, a: a.clone(), target: gen_hex(&t), neg: code % 2 == 0 });
                }
            }
        }
        v
    }, check_sum);

    ctx.exhaustive("modn_crafted_products_and_inverses", "mod_n_mul with operands crafted so that the integer product a*b lands on chosen targets: just above N, 2N, kN (s * (ceil(T/s) + t) for small s, t), around 2^256, 2^255, N + 2^190 (a product that fits 256 bits, shares its top limb with N and still needs one subtraction); a = isqrt(N)+-2; mod_n_inv of values whose inverse is short or sparse (inverses of 2, 3, 2^64, 2^128, 2^192-1, boundary-limb values), and inv(inv(x)) == x", || {
        let n = &pr.n;
        let mut v = Vec::new();
        let mut targets: Vec<BigUint> = vec![n.clone(), n + 1u32, n * 2u32, n * 3u32, BigUint::one() << 256, BigUint::one() << 255, n + (BigUint::one() << 190), n + (BigUint::one() << 128), (n * 2u32) + (BigUint::one() << 100)];
        targets.push(((BigUint::from(0xB640000002A3A6F2u64)) << 192) - 1u32); // the top of the window that shares N's top limb
        for t in &targets {
            for s in [2u32, 3, 5, 7, 65537] {
                for dt in 0..3u32 {
                    let b = (t + (s - 1)) / s + dt;
                    if &b < n {
                        v.push(NOp { op: 2, a: gen::hex32(&BigUint::from(s)), b: gen::hex32(&b) });
                        v.push(NOp { op: 2, a: gen::hex32(&b), b: gen::hex32(&BigUint::from(s)) });
                    }
                }
            }
        }
        let rt = n.sqrt();
        for d in 0..5u32 {
            for x in [&rt + d, &rt - d] {
                v.push(NOp { op: 2, a: gen::hex32(&x), b: gen::hex32(&x) });
                v.push(NOp { op: 4, a: gen::hex32(&x), b: gen::hex32(&BigUint::from(2u32)) });
            }
        }
        // inverses that come out short or sparse: inv(y) for y = x^-1 with x small / boundary-limbed
        let mut xs: Vec<BigUint> = vec![BigUint::from(2u32), BigUint::from(3u32), BigUint::from(65537u32), BigUint::one() << 64, BigUint::one() << 128, (BigUint::one() << 192) - 1u32, BigUint::one() << 192, (BigUint::one() << 64) - 1u32];
        xs.extend(gen::boundary_limb_values(n).into_iter().filter(|x| x.bits() > 1).step_by(7));
        for x in xs {
            if let Some(y) = mod_inv(&x, n) {
                v.push(NOp { op: 3, a: gen::hex32(&y), b: gen::hex32(&BigUint::one()) });
                v.push(NOp { op: 3, a: gen::hex32(&x), b: gen::hex32(&BigUint::one()) });
            }
        }
        v
    }, check_nop);

    ctx.generated("modn_generated", "proptest (operation, a, b) modulo N from the edge-biased generator", ctx.tier.pick(40_000, 600_000), || {
        (0..5u8, gen::scalar256(&r9::params().n), gen::scalar256(&r9::params().n)).prop_map(|(op, a, b)| NOp { op, a, b })
    }, check_nop);
    ctx.generated("booth_recoding", "sum of Booth digits * 2^(w*i) == k for w in {5, 7}", ctx.tier.pick(20_000, 300_000), || (gen::scalar256(&r9::params().n), 0..2u8).prop_map(|(k, w)| Booth { k, w }), check_booth);

    // ---- G1
    ctx.exhaustive("g1_table", "all 37 x 64 entries == Montgomery form of [(j+1)*2^(7i)]P1", || {
        let mut v = Vec::new();
        for row in 0..37 {
            for j in 0..64 {
                v.push(TableEntry { row, j });
            }
        }
        v
    }, check_table);
    ctx.exhaustive("g1_gmul_single_window", "every scalar d*2^(7i), d = 1..=127, i = 0..=36 (both Booth signs, carry into the next window)", || {
        let mut v = Vec::new();
        for i in 0..37u32 {
            for d in 1..=127u32 {
                let k = BigUint::from(d) << (7 * i);
                if k.bits() <= 256 {
                    v.push(G1Mul { p: None, scalar: gen::hex32(&k) });
                }
            }
        }
        v
    }, check_g1_mul);
    ctx.exhaustive("g1_pointmul_windows", "variable-base: every 5-bit value v at every window position, with and without the bit below set (carry-in), on an affine and a Jacobian point", || {
        let mut v = Vec::new();
        for i in 0..52u32 {
            for val in 1..32u32 {
                for carry in [false, true] {
                    let mut k = BigUint::from(val) << (5 * i);
                    if carry && i > 0 {
                        k |= BigUint::one() << (5 * i - 1);
                    }
                    if k.bits() > 256 {
                        continue;
                    }
                    let lam = if (i + val) % 2 == 0 { BigUint::one() } else { BigUint::from(0xfeed_beef_1234u64) };
                    v.push(G1Mul { p: Some(G1Rep { k: gen::hex32(&BigUint::from(3u32 + i)), lambda: gen::hex32(&lam) }), scalar: gen::hex32(&k) });
                }
            }
        }
        v
    }, check_g1_mul);
    ctx.cold("cold_start_g1_mul", "G1 fixed-base and variable-base multiplication as the first library operation of a fresh process", || {
        vec![
            G1Mul { p: None, scalar: Hex(expand_bytes(0xc13d, 32)) },
            G1Mul { p: None, scalar: gen::hex32(&BigUint::from(3u32)) },
            G1Mul { p: Some(G1Rep { k: gen::hex32(&BigUint::from(77u32)), lambda: gen::hex32(&BigUint::from(2u32)) }), scalar: Hex(expand_bytes(0xc13e, 32)) },
        ]
    }, check_g1_mul);
    ctx.cold("cold_start_concurrent", "eight threads of a fresh process call G1 g_mul / point_mul for the first time at the same moment", || {
        (0..2u64).map(|r| (0..8u64).map(|i| G1Mul { p: if i % 2 == 0 { None } else { Some(G1Rep { k: gen::hex32(&BigUint::from(3 + i)), lambda: gen::hex32(&BigUint::from(1 + i % 3)) }) }, scalar: Hex(expand_bytes((r << 8 | i) ^ 0xc13a, 32)) }).collect::<Vec<_>>()).collect::<Vec<_>>()
    }, |steps: &Vec<G1Mul>| par(steps, check_g1_mul));
    ctx.cold("cold_start_g2_mul", "G2 fixed-base and variable-base multiplication as the first library operation of a fresh process", || {
        vec![
            G2Mul { p: None, scalar: Hex(expand_bytes(0xc13f, 32)) },
            G2Mul { p: Some(G2Rep { k: gen::hex32(&BigUint::from(5u32)), l0: gen::hex32(&BigUint::from(1u32)), l1: gen::hex32(&BigUint::from(0u32)) }), scalar: Hex(expand_bytes(0xc140, 32)) },
        ]
    }, check_g2_mul);
    ctx.cold("cold_start_tower_ops", "one extension-field operation (every operation x every level) as the first library operation of a fresh process", || {
        let mut v = Vec::new();
        for level in [1u8, 2, 4, 12] {
            for op in 0..T_OPS.len() as u8 {
                let comp = |t: u64| (0..12u64).map(|i| Hex(expand_bytes((level as u64) << 16 | (op as u64) << 8 | t << 4 | i, 32))).collect::<Vec<_>>();
                v.push(TOp { level, op, a: comp(1), b: comp(2), e: Hex(expand_bytes(op as u64 ^ 0xc141, 32)) });
            }
        }
        v
    }, check_top);

    ctx.listed("g1_same_ordinate_pairs", "P = [k]P1 = (x, y) and its partners (w x, y), (w^2 x, y) with w a primitive cube root of unity: distinct points with the same y, in several Jacobian representations: P+Q, Q+P, P-Q", || {
        let mut v = Vec::new();
        for i in 0..10u64 {
            for (lp, lq) in [(1u64, 1u64), (1, 2), (0x1234_5678_9abc, 1), (0xdead_beef, 0xfeed_f00d)] {
                v.push(G1SameY { k: Hex(expand_bytes(i ^ 0x5a3e, 32)), lambda_p: gen::hex32(&BigUint::from(lp)), lambda_q: gen::hex32(&BigUint::from(lq)), second_root: i % 2 == 1 });
            }
        }
        v
    }, check_g1_same_y);

    ctx.listed("g1_near_curve_points", "points off y^2 = x^3 + 5 but on a neighbouring equation with one constant changed (b = 4, 6, 0, -5, 10, 5R, 5R^-1; a' = 1, -1, -3), abscissas at representation boundaries incl. those where the Montgomery image of x, x^2 or x^3 is next to 0 or p: is_on_curve must say no, in affine form and two Jacobian representations", || (0..g1_near_curve_points().len()).collect::<Vec<usize>>(), |i: &usize| {
        let pr = r9::params();
        let (label, x, y) = &g1_near_curve_points()[*i];
        let bad = Some((r9::fp(x), r9::fp(y)));
        for lambda in [BigUint::one(), BigUint::from(2u32), from_be(&expand_bytes(*i as u64 ^ 0x2ea3, 32)) % (pr.p - 2u32) + 2u32] {
            let bl = lib_g1(&bad, &lambda);
            let v = catch(|| bl.is_on_curve()).map_err(|e| Fail { key: "entry=Point::is_on_curve outcome=panic".into(), detail: e })?;
            ensure!(!v, "entry=Point::is_on_curve outcome=true-off-curve input=near-curve", "{} ({:x}, {:x}) with Z = {:x}", label, x, y, lambda);
        }
        pass(true, "near-curve")
    });

    ctx.listed("g1_edge_points", "boundary points of G1 (x next to 0, N, p, 2^256-p, powers of two; Montgomery x with all-ones / zero limbs; y with a leading zero byte) in affine and two Jacobian representations: double, add (P1, itself, its negative; both orders), point_mul, encode", || {
        let mut v = Vec::new();
        for point in 0..g1_edge_points().len() {
            for (j, lambda) in [BigUint::one(), BigUint::from(2u32), from_be(&expand_bytes(point as u64 ^ 0xed13, 32))].iter().enumerate() {
                v.push(G1Edge { point, lambda: gen::hex32(lambda), scalar: Hex(expand_bytes((point * 3 + j) as u64 ^ 0xed14, 32)) });
            }
        }
        v
    }, check_g1_edge);

    ctx.exhaustive("g1_scalars_around_n", "g_mul and point_mul for N-4..=N+8, 0, 1, 2, 2^255, 2^256-1", || {
        let n = &pr.n;
        let mut ks: Vec<BigUint> = (0..=12u32).map(|i| n - 4u32 + i).collect();
        ks.extend([BigUint::zero(), BigUint::one(), BigUint::from(2u32), BigUint::one() << 255, (BigUint::one() << 256) - 1u32]);
        let mut v = Vec::new();
        for k in ks {
            v.push(G1Mul { p: None, scalar: gen::hex32(&k) });
            v.push(G1Mul { p: Some(G1Rep { k: gen::hex32(&BigUint::from(5u32)), lambda: gen::hex32(&BigUint::one()) }), scalar: gen::hex32(&k) });
            v.push(G1Mul { p: Some(G1Rep { k: gen::hex32(&BigUint::from(77u32)), lambda: gen::hex32(&BigUint::from(9u32)) }), scalar: gen::hex32(&k) });
        }
        v
    }, check_g1_mul);
    ctx.exhaustive("g1_mul_zero_limbs", "G1 g_mul and point_mul (affine and Jacobian base) for scalars with an all-zero 64-bit limb below a non-zero limb and zero runs across limb boundaries", || {
        let mut v = Vec::new();
        for k in gen::zero_limb_scalars() {
            v.push(G1Mul { p: None, scalar: gen::hex32(&k) });
            v.push(G1Mul { p: Some(G1Rep { k: gen::hex32(&BigUint::from(77u32)), lambda: gen::hex32(&BigUint::from(9u32)) }), scalar: gen::hex32(&k) });
        }
        v
    }, check_g1_mul);
    let g2_step = ctx.tier.pick(4usize, 1usize);
    ctx.exhaustive("g2_mul_zero_limbs", "G2 g_mul and point_mul for scalars with an all-zero 64-bit limb below a non-zero limb (every 4th pattern in the quick tier)", move || {
        let mut v = Vec::new();
        for (i, k) in gen::zero_limb_scalars().into_iter().enumerate() {
            if i % g2_step != 0 {
                continue;
            }
            v.push(G2Mul { p: None, scalar: gen::hex32(&k) });
            v.push(G2Mul { p: Some(G2Rep { k: gen::hex32(&BigUint::from(5u32)), l0: gen::hex32(&BigUint::from(3u32)), l1: gen::hex32(&BigUint::from(1u32)) }), scalar: gen::hex32(&k) });
        }
        v
    }, check_g2_mul);
    ctx.exhaustive("pow_exponent_edges", "Fp pow and Fp12 pow with exponents 0, 1, 2, 3, N-3, N-2, N-1 (the largest exponent Fp12::pow admits), p-2, p-1 (Fp only), 2^255, 2^256-1 (Fp only)", || {
        let pow_op = T_OPS.iter().position(|o| *o == "pow").unwrap() as u8;
        let n = &r9::params().n;
        let p = r9::p_static();
        let mut v = Vec::new();
        let es12: Vec<BigUint> = vec![BigUint::zero(), BigUint::one(), BigUint::from(2u32), BigUint::from(3u32), n - 3u32, n - 2u32, n - 1u32];
        let mut es1 = es12.clone();
        es1.extend([p - 2u32, p - 1u32, BigUint::one() << 255, (BigUint::one() << 256) - 1u32]);
        for (level, es) in [(12u8, es12), (1u8, es1)] {
            for (i, e) in es.iter().enumerate() {
                for t in 0..3u64 {
                    let comp = |u: u64| (0..12u64).map(|j| Hex(expand_bytes((level as u64) << 20 | (i as u64) << 12 | t << 8 | u << 4 | j, 32))).collect::<Vec<_>>();
                    v.push(TOp { level, op: pow_op, a: comp(1), b: comp(2), e: gen::hex32(e) });
                }
            }
        }
        v
    }, check_top);

    ctx.exhaustive("pow_zero_limb_exponents", "Fp pow and Fp12 pow with exponents that have an all-zero 64-bit limb below a non-zero limb", || {
        let pow_op = T_OPS.iter().position(|o| *o == "pow").unwrap() as u8;
        let mut v = Vec::new();
        for (i, k) in gen::zero_limb_scalars().into_iter().enumerate() {
            for level in [1u8, 12] {
                let comp = |t: u64| (0..12u64).map(|j| Hex(expand_bytes((level as u64) << 16 | t << 8 | j | (i as u64 % 3) << 24, 32))).collect::<Vec<_>>();
                v.push(TOp { level, op: pow_op, a: comp(1), b: comp(2), e: gen::hex32(&k) });
            }
        }
        v
    }, check_top);

    ctx.generated("g1_mul_generated", "proptest scalars (edge-biased) through g_mul and point_mul", ctx.tier.pick(3_000, 40_000), || {
        (prop::option::of(g1rep()), gen::scalar256(&r9::params().n)).prop_map(|(p, scalar)| G1Mul { p, scalar })
    }, check_g1_mul);
    ctx.generated("g1_point_pairs", "proptest (P rep, relation, Q rep): add, sub, equals, double, neg, on-curve, encoding", ctx.tier.pick(3_000, 40_000), || {
        (g1rep(), prop_oneof![3 => Just(0u8), 2 => Just(1u8), 2 => Just(2u8), 2 => 3..=8u8], g1rep()).prop_map(|(p, relation, q)| G1Pair { p, relation, q })
    }, check_g1_pair);

    // ---- G2
    ctx.generated("g2_point_pairs", "proptest (P rep, relation, Q rep) on the twist: mixed and full addition, sub, double, neg, equality", ctx.tier.pick(1_200, 20_000), || {
        (g2rep(), prop_oneof![3 => Just(0u8), 2 => Just(1u8), 2 => Just(2u8), 2 => 3..=8u8], g2rep()).prop_map(|(p, relation, q)| G2Pair { p, relation, q })
    }, check_g2_pair);
    ctx.generated("g2_mul_generated", "proptest scalars through TwistPoint::g_mul and point_mul (affine and Jacobian base)", ctx.tier.pick(250, 4_000), || {
        (prop::option::of(g2rep()), gen::scalar256(&r9::params().n)).prop_map(|(p, scalar)| G2Mul { p, scalar })
    }, check_g2_mul);
    ctx.exhaustive("g2_scalars_around_n", "TwistPoint g_mul / point_mul for 0, 1, 2, N-1, N, N+1, 2^256-1", || {
        let n = &pr.n;
        let mut v = Vec::new();
        for k in [BigUint::zero(), BigUint::one(), BigUint::from(2u32), n - 1u32, n.clone(), n + 1u32, (BigUint::one() << 256) - 1u32] {
            v.push(G2Mul { p: None, scalar: gen::hex32(&k) });
            v.push(G2Mul { p: Some(G2Rep { k: gen::hex32(&BigUint::from(3u32)), l0: gen::hex32(&BigUint::from(5u32)), l1: gen::hex32(&BigUint::from(7u32)) }), scalar: gen::hex32(&k) });
        }
        v
    }, check_g2_mul);
}
