//! C11 — SM2 curve and field arithmetic implement the group law exactly.

use gm_sm2::p256_ecc::Point;
use gm_sm2::verif_hooks as hk;
use gm_sm2::verif_hooks::FieldModOperation;
use num_bigint::BigUint;
use num_traits::{One, Zero};
use proptest::prelude::*;
use serde::{Deserialize, Serialize};

use super::sm2util::*;
use crate::engine::*;
use crate::gen;
use crate::refimpl::ec::Pt;
use crate::refimpl::field::{from_be, from_limbs, mod_inv, to_limbs, Fld, Fp};
use crate::refimpl::sm2 as r2;

// ------------------------------------------------------------------ points

/// A curve point [k]G in the Jacobian representation Z = lambda (lambda = 0: the point at infinity
/// written as (mu^2, mu^3, 0) with mu = k, or Point::zero() when k = 0).
#[derive(Serialize, Deserialize, Hash, Debug, Clone)]
pub struct PRep {
    pub k: Hex,
    pub lambda: Hex,
}

impl PRep {
    fn reference(&self) -> Pt<Fp> {
        if from_be(&self.lambda).is_zero() {
            None
        } else {
            r2::g_mul(&(from_be(&self.k) % &r2::params().n))
        }
    }
    fn library(&self) -> Point {
        let l = from_be(&self.lambda) % r2::p_static();
        if l.is_zero() {
            let mu = from_be(&self.k) % r2::p_static();
            if mu.is_zero() {
                Point::zero()
            } else {
                infinity_rep(&mu)
            }
        } else {
            lib_point(&self.reference(), &l)
        }
    }
    fn class(&self) -> &'static str {
        let l = from_be(&self.lambda);
        if l.is_zero() {
            "inf"
        } else if l.is_one() {
            "affine"
        } else {
            "jacobian"
        }
    }
}

fn point_k() -> impl Strategy<Value = Hex> {
    let n = r2::params().n.clone();
    prop_oneof![
        6 => (1u64..5000).prop_map(|v| gen::hex32(&BigUint::from(v))),
        1 => (1u64..100).prop_map(move |v| gen::hex32(&(&n - BigUint::from(v)))),
        2 => prop::array::uniform32(any::<u8>()).prop_map(|a| Hex(a.to_vec())),
    ]
}

fn lambda() -> impl Strategy<Value = Hex> {
    let p = r2::p_static().clone();
    prop_oneof![
        3 => Just(gen::hex32(&BigUint::one())),
        1 => Just(gen::hex32(&BigUint::from(2u32))),
        1 => Just(gen::hex32(&(&p - BigUint::one()))),
        // Montgomery limbs equal to the plain integers 1, 2 (field elements R^-1, 2R^-1)
        1 => (1u32..3).prop_map(|k| gen::hex32(&((BigUint::from(k) * mod_inv(&(r256() % r2::p_static()), r2::p_static()).unwrap()) % r2::p_static()))),
        4 => prop::array::uniform32(any::<u8>()).prop_map(move |a| gen::hex32(&(from_be(&a) % &p))).prop_filter("lambda != 0", |h| !from_be(&h.0).is_zero()),
        1 => Just(gen::hex32(&BigUint::zero())),
    ]
}

fn prep() -> impl Strategy<Value = PRep> {
    (point_k(), lambda()).prop_map(|(k, lambda)| PRep { k, lambda })
}

#[derive(Serialize, Deserialize, Hash, Debug, Clone)]
pub struct Pair {
    pub p: PRep,
    /// 0: independent Q, 1: Q = P (Z = lambda2), 2: Q = -P (Z = lambda2)
    pub relation: u8,
    pub q: PRep,
}

fn check_lib_point(what: &str, got: &Point, want: &Pt<Fp>, ctxs: &str) -> Result<(), Fail> {
    let r = ref_point(got).map_err(|e| Fail { key: format!("entry={} outcome=non-canonical-coordinate", what), detail: format!("{}: {}", ctxs, e) })?;
    if &r != want {
        return Err(Fail {
            key: format!("entry={} outcome=wrong-point", what),
            detail: format!("{}: library {} = {} ; group law gives {}", ctxs, show_lib(got), show(&r), show(want)),
        });
    }
    // is_zero must agree with the mathematical infinity
    if got.is_zero() != want.is_none() {
        return Err(Fail { key: format!("entry={} outcome=is_zero-mismatch", what), detail: ctxs.to_string() });
    }
    Ok(())
}

fn check_pair(c: &Pair) -> CaseResult {
    let pr = r2::params();
    let p_ref = c.p.reference();
    let (q_ref, q_lib) = match c.relation {
        1..=8 => {
            let base = if c.relation % 2 == 1 { p_ref.clone() } else { pr.curve.neg(&p_ref) };
            let l = if c.relation <= 2 { from_be(&c.q.lambda) % pr.p } else { tied_lambda(&(from_be(&c.p.lambda) % pr.p), c.relation, pr.p) };
            if l.is_zero() || base.is_none() {
                // Q is the point at infinity, in the representation that c.q's (k, lambda) select
                let mu = from_be(&c.q.k) % pr.p;
                (None, if mu.is_zero() || !l.is_zero() { Point::zero() } else { infinity_rep(&mu) })
            } else {
                (base.clone(), lib_point(&base, &l))
            }
        }
        _ => (c.q.reference(), c.q.library()),
    };
    let p_lib = c.p.library();
    let want = pr.curve.add(&p_ref, &q_ref);
    let desc = format!("P={} (Z={}) Q={} (Z={})", show(&p_ref), hex::encode(&c.p.lambda.0), show(&q_ref), hex::encode(&c.q.lambda.0));
    let got = catch(|| p_lib.point_add(&q_lib)).map_err(|e| Fail { key: "entry=Point::point_add outcome=panic".into(), detail: format!("{}: {}", desc, e) })?;
    let same_z = c.p.lambda == c.q.lambda;
    let class = match (p_ref.is_none(), q_ref.is_none()) {
        (true, true) => "O+O".to_string(),
        (true, false) => "O+Q".to_string(),
        (false, true) => "P+O".to_string(),
        _ => {
            if p_ref == q_ref {
                format!("P=Q/{}", if c.relation >= 3 { "tiedZ" } else if same_z { "sameZ" } else { "diffZ" })
            } else if want.is_none() {
                format!("P=-Q/{}", if c.relation >= 3 { "tiedZ" } else if same_z { "sameZ" } else { "diffZ" })
            } else {
                format!("generic/{}+{}", c.p.class(), c.q.class())
            }
        }
    };
    let key_class = class.split('/').next().unwrap().to_string() + if class.contains("diffZ") { "/diffZ" } else { "" };
    check_lib_point("Point::point_add", &got, &want, &desc).map_err(|mut f| {
        f.key = format!("{} input={}", f.key, key_class);
        f
    })?;
    // commutativity as a by-product
    let got2 = catch(|| q_lib.point_add(&p_lib)).map_err(|e| Fail { key: "entry=Point::point_add outcome=panic".into(), detail: format!("{}: {}", desc, e) })?;
    check_lib_point("Point::point_add", &got2, &want, &format!("(swapped) {}", desc)).map_err(|mut f| {
        f.key = format!("{} input={}", f.key, key_class);
        f
    })?;
    pass(!class.starts_with("generic/affine+affine"), class)
}

fn check_unary(c: &PRep) -> CaseResult {
    let pr = r2::params();
    let p_ref = c.reference();
    let p_lib = c.library();
    let desc = format!("P={} (Z={})", show(&p_ref), hex::encode(&c.lambda.0));
    // doubling
    let d = catch(|| p_lib.point_dbl()).map_err(|e| Fail { key: "entry=Point::point_dbl outcome=panic".into(), detail: e })?;
    check_lib_point("Point::point_dbl", &d, &pr.curve.dbl(&p_ref), &desc)?;
    // negation
    let ng = catch(|| p_lib.neg()).map_err(|e| Fail { key: "entry=Point::neg outcome=panic".into(), detail: e })?;
    check_lib_point("Point::neg", &ng, &pr.curve.neg(&p_ref), &desc)?;
    // validity predicates on a genuine point
    let v = catch(|| p_lib.is_valid()).map_err(|e| Fail { key: "entry=Point::is_valid outcome=panic".into(), detail: e })?;
    ensure!(v, "entry=Point::is_valid outcome=false-on-curve-point", "{}", desc);
    ensure!(p_lib.is_zero() == p_ref.is_none(), "entry=Point::is_zero outcome=mismatch", "{}", desc);
    if let Some((x, y)) = &p_ref {
        // affine conversion and encodings
        let a = catch(|| p_lib.to_affine_point()).map_err(|e| Fail { key: "entry=Point::to_affine_point outcome=panic".into(), detail: e })?;
        ensure!(from_mont(&a.z).is_one(), "entry=Point::to_affine_point outcome=z!=1", "{}", desc);
        ensure!(from_mont(&a.x) == x.v && from_mont(&a.y) == y.v, "entry=Point::to_affine_point outcome=wrong-point", "{} -> {}", desc, show_lib(&a));
        ensure!(a.is_valid_affine_point(), "entry=Point::is_valid_affine_point outcome=false-on-curve-point", "{}", desc);
        let u = catch(|| p_lib.to_byte_be(false)).map_err(|e| Fail { key: "entry=Point::to_byte_be outcome=panic".into(), detail: e })?;
        ensure!(u == r2::encode_uncompressed(&p_ref), "entry=Point::to_byte_be outcome=wrong-encoding", "{} uncompressed {}", desc, hex::encode(&u));
        let cp = catch(|| p_lib.to_byte_be(true)).map_err(|e| Fail { key: "entry=Point::to_byte_be outcome=panic".into(), detail: e })?;
        ensure!(cp == r2::encode_compressed(&p_ref), "entry=Point::to_byte_be outcome=wrong-encoding", "{} compressed {}", desc, hex::encode(&cp));
        // off-curve perturbations are rejected by both predicates
        let l = from_be(&c.lambda) % pr.p;
        for (dx, dy) in [(1u32, 0u32), (0, 1)] {
            let bad = Some((x.add(&x.from_u64_like(dx as u64)), y.add(&y.from_u64_like(dy as u64))));
            if pr.curve.on_curve(&bad) {
                continue;
            }
            let bl = lib_point(&bad, &l);
            ensure!(!bl.is_valid(), "entry=Point::is_valid outcome=true-off-curve", "{} perturbed by ({},{})", desc, dx, dy);
            let ba = lib_point(&bad, &BigUint::one());
            ensure!(!ba.is_valid_affine_point(), "entry=Point::is_valid_affine_point outcome=true-off-curve", "{} perturbed by ({},{})", desc, dx, dy);
        }
    }
    pass(c.class() != "affine", c.class())
}

/// A boundary point of the curve (see sm2util::edge_points) in the representation Z = lambda, with a scalar.
#[derive(Serialize, Deserialize, Hash, Debug, Clone)]
pub struct EdgeOp {
    pub point: usize,
    pub lambda: Hex,
    pub scalar: Hex,
}

fn check_edge_point(c: &EdgeOp) -> CaseResult {
    let pr = r2::params();
    let eps = edge_points();
    let (label, x, y) = &eps[c.point % eps.len()];
    let p_ref = r2::pt(x, y);
    let mut l = from_be(&c.lambda) % pr.p;
    if l.is_zero() {
        l = BigUint::one();
    }
    let p_lib = lib_point(&p_ref, &l);
    let desc = format!("P = edge point {} x={:x} y={:x} (Z={:x})", label, x, y, l);
    ensure!(catch(|| p_lib.is_valid()).map_err(|e| Fail { key: "entry=Point::is_valid outcome=panic".into(), detail: e })?, "entry=Point::is_valid outcome=false-on-curve-point", "{}", desc);
    let d = catch(|| p_lib.point_dbl()).map_err(|e| Fail { key: "entry=Point::point_dbl outcome=panic".into(), detail: e })?;
    check_lib_point("Point::point_dbl", &d, &pr.curve.dbl(&p_ref), &desc)?;
    let g = r2::g_mul(&BigUint::one());
    for (what, q_ref, q_lib) in [("P+G", g.clone(), lib_point(&g, &BigUint::one())), ("P+P", p_ref.clone(), lib_point(&p_ref, &BigUint::from(2u32))), ("P+(-P)", pr.curve.neg(&p_ref), lib_point(&pr.curve.neg(&p_ref), &BigUint::one()))] {
        let got = catch(|| p_lib.point_add(&q_lib)).map_err(|e| Fail { key: "entry=Point::point_add outcome=panic".into(), detail: format!("{} {}: {}", what, desc, e) })?;
        check_lib_point("Point::point_add", &got, &pr.curve.add(&p_ref, &q_ref), &format!("{} {}", what, desc))?;
    }
    let k = from_be(&c.scalar);
    let got = catch(|| p_lib.scalar_mul(&scalar_limbs(&k))).map_err(|e| Fail { key: "entry=Point::scalar_mul outcome=panic".into(), detail: format!("k={:x} {}: {}", k, desc, e) })?;
    check_lib_point("Point::scalar_mul", &got, &pr.curve.mul(&(&k % &pr.n), &p_ref), &format!("k={:x} {}", k, desc))?;
    // encodings both ways
    for compressed in [false, true] {
        let enc = if compressed { r2::encode_compressed(&p_ref) } else { r2::encode_uncompressed(&p_ref) };
        let u = catch(|| p_lib.to_byte_be(compressed)).map_err(|e| Fail { key: "entry=Point::to_byte_be outcome=panic".into(), detail: e })?;
        ensure!(u == enc, "entry=Point::to_byte_be outcome=wrong-encoding", "{} compressed={} {}", desc, compressed, hex::encode(&u));
        match outcome(|| gm_sm2::verif_hooks::point_from_byte(&enc)) {
            Outcome::Ok(q) => check_lib_point("Point::from_byte", &q, &p_ref, &desc)?,
            o => return fail("entry=Point::from_byte input=valid outcome=rejected", format!("{} encoding {}: {}", desc, hex::encode(&enc), o.describe())),
        }
    }
    pass(true, format!("edge/{}", if l.is_one() { "affine" } else { "jacobian" }))
}

/// Two distinct points with the same ordinate: P = (x1, y), Q = (x2, y), x2 = (-x1 + sqrt(12 - 3 x1^2)) / 2 (for a = -3), x1 walked from `start`
#[derive(Serialize, Deserialize, Hash, Debug, Clone)]
pub struct SameY {
    pub start: u64,
    pub lambda_p: Hex,
    pub lambda_q: Hex,
}

fn check_same_y(c: &SameY) -> CaseResult {
    let pr = r2::params();
    let p = pr.p;
    let half = mod_inv(&BigUint::from(2u32), p).unwrap();
    let mut x1 = BigUint::from(c.start);
    let mut found = None;
    for _ in 0..4000 {
        let xf = r2::fp(&x1);
        let rhs = xf.sqr().mul(&xf).add(&pr.curve.a.mul(&xf)).add(&pr.curve.b);
        let disc = r2::fp(&((BigUint::from(12u32) + p * 3u32 - (&x1 * &x1 * 3u32) % p) % p));
        if let (Some(y), Some(s)) = (rhs.sqrt_3mod4(), disc.sqrt_3mod4()) {
            let x2 = ((p - &x1 + &s.v) * &half) % p;
            let q = Some((r2::fp(&x2), y.clone()));
            if x2 != x1 && pr.curve.on_curve(&q) {
                found = Some((Some((xf, y)), q));
                break;
            }
        }
        x1 += 1u32;
    }
    let Some((p_ref, q_ref)) = found else { return pass(false, "no-same-y-pair-found") };
    let nz = |h: &Hex| { let v = from_be(h) % p; if v.is_zero() { BigUint::one() } else { v } };
    let (lp, lq) = (nz(&c.lambda_p), nz(&c.lambda_q));
    let (p_lib, q_lib) = (lib_point(&p_ref, &lp), lib_point(&q_ref, &lq));
    let desc = format!("P={} Q={} (same y, Z_P={:x}, Z_Q={:x})", show(&p_ref), show(&q_ref), lp, lq);
    for (what, a, b, want) in [
        ("P+Q", &p_lib, &q_lib, pr.curve.add(&p_ref, &q_ref)),
        ("Q+P", &q_lib, &p_lib, pr.curve.add(&p_ref, &q_ref)),
        ("P+(-Q)", &p_lib, &lib_point(&pr.curve.neg(&q_ref), &lq), pr.curve.add(&p_ref, &pr.curve.neg(&q_ref))),
    ] {
        let got = catch(|| a.point_add(b)).map_err(|e| Fail { key: "entry=Point::point_add outcome=panic".into(), detail: format!("{} {}: {}", what, desc, e) })?;
        check_lib_point("Point::point_add", &got, &want, &format!("{} {}", what, desc)).map_err(|mut f| {
            f.key = format!("{} input=same-y", f.key);
            f
        })?;
    }
    pass(true, "same-y")
}

#[derive(Serialize, Deserialize, Hash, Debug, Clone)]
pub struct SM {
    pub p: PRep,
    pub scalar: Hex,
}

fn scalar_class(k: &BigUint) -> &'static str {
    let n = &r2::params().n;
    if k.is_zero() {
        "k=0"
    } else if k >= n {
        "k>=n"
    } else if k.bits() <= 8 {
        "k<256"
    } else if (n - k).bits() <= 8 {
        "k~n"
    } else {
        "k-generic"
    }
}

fn check_scalar_mul(c: &SM) -> CaseResult {
    let pr = r2::params();
    let p_ref = c.p.reference();
    let p_lib = c.p.library();
    let k = from_be(&c.scalar);
    let want = pr.curve.mul(&(&k % &pr.n), &p_ref);
    let desc = format!("k={:x} P={} (Z={})", k, show(&p_ref), hex::encode(&c.p.lambda.0));
    let got = catch(|| p_lib.scalar_mul(&scalar_limbs(&k))).map_err(|e| Fail { key: "entry=Point::scalar_mul outcome=panic".into(), detail: format!("{}: {}", desc, e) })?;
    check_lib_point("Point::scalar_mul", &got, &want, &desc).map_err(|mut f| {
        f.key = format!("{} input={}", f.key, scalar_class(&k));
        f
    })?;
    pass(scalar_class(&k) != "k-generic" || c.p.class() != "affine", format!("{}/{}", scalar_class(&k), c.p.class()))
}

#[derive(Serialize, Deserialize, Hash, Debug, Clone)]
pub struct GM {
    pub scalar: Hex,
}

fn check_g_mul(c: &GM) -> CaseResult {
    let pr = r2::params();
    let k = from_be(&c.scalar);
    let want = r2::g_mul(&(&k % &pr.n));
    let desc = format!("k={:x}", k);
    let got = catch(|| gm_sm2::p256_ecc::g_mul(&scalar_limbs(&k))).map_err(|e| Fail { key: "entry=g_mul outcome=panic".into(), detail: format!("{}: {}", desc, e) })?;
    check_lib_point("g_mul", &got, &want, &desc).map_err(|mut f| {
        f.key = format!("{} input={}", f.key, scalar_class(&k));
        f
    })?;
    pass(true, scalar_class(&k))
}

// ------------------------------------------------------------------ fields

#[derive(Serialize, Deserialize, Hash, Debug, Clone)]
pub struct FOp {
    /// which operation (see OPS)
    pub op: u8,
    pub a: Hex,
    pub b: Hex,
}

const OPS: &[&str] = &[
    "fp_add", "fp_sub", "fp_mul", "fp_sqr", "fp_double", "fp_triple", "fp_neg", "fp_inv", "fp_pow", "fp_sqrt", "fp_to_mont", "fp_from_mont",
    "fn_add", "fn_sub", "fn_mul", "fn_pow", "u256_add", "u256_sub", "u256_mul", "u256_cmp",
];

fn check_fop(c: &FOp) -> CaseResult {
    let pr = r2::params();
    let (p, n) = (pr.p, &pr.n);
    let op = OPS[c.op as usize % OPS.len()];
    let modulus = if op.starts_with("fn_") { n } else { p };
    let raw = op.starts_with("u256");
    let (a, b) = if raw { (from_be(&c.a), from_be(&c.b)) } else { (from_be(&c.a) % modulus, from_be(&c.b) % modulus) };
    let (al, bl) = (to_limbs(&a), to_limbs(&b));
    let r = r256();
    let rinv = mod_inv(&(&r % p), p).unwrap();
    let fmt = |v: &BigUint| format!("{:x}", v);
    let cmp = |got: [u64; 4], want: BigUint| -> CaseResult {
        if from_limbs(&got) != want {
            return fail(format!("entry={} outcome=wrong-value", op), format!("a={} b={} library={} exact={}", fmt(&a), fmt(&b), fmt(&from_limbs(&got)), fmt(&want)));
        }
        pass(true, op)
    };
    let run = |f: &dyn Fn() -> [u64; 4]| -> Result<[u64; 4], Fail> { catch(|| f()).map_err(|e| Fail { key: format!("entry={} outcome=panic", op), detail: format!("a={} b={}: {}", fmt(&a), fmt(&b), e) }) };
    match op {
        "fp_add" => cmp(run(&|| al.fp_add(&bl))?, (&a + &b) % p),
        "fp_sub" => cmp(run(&|| al.fp_sub(&bl))?, (&a + p - &b) % p),
        "fp_mul" => cmp(run(&|| al.fp_mul(&bl))?, (&a * &b * &rinv) % p),
        "fp_sqr" => cmp(run(&|| al.fp_sqr())?, (&a * &a * &rinv) % p),
        "fp_double" => cmp(run(&|| al.fp_double())?, (&a * 2u32) % p),
        "fp_triple" => cmp(run(&|| al.fp_triple())?, (&a * 3u32) % p),
        "fp_neg" => cmp(run(&|| al.fp_neg())?, (p - &a) % p),
        "fp_inv" => {
            // Montgomery domain: inv(aR) = a^-1 R ; input 0 is outside the domain of inversion
            if a.is_zero() {
                return pass(false, "fp_inv/zero-skipped");
            }
            let x = (&a * &rinv) % p;
            cmp(run(&|| al.fp_inv())?, (mod_inv(&x, p).unwrap() * &r) % p)
        }
        "fp_pow" => {
            let x = (&a * &rinv) % p;
            let e = from_be(&c.b);
            cmp(run(&|| hk::fp64::fp_pow(&al, &to_limbs(&e)))?, (x.modpow(&e, p) * &r) % p)
        }
        "fp_sqrt" => {
            // b selects: even -> a square (a^2), odd -> arbitrary a
            let x = (&a * &rinv) % p;
            let arg = if c.b.0.last().copied().unwrap_or(0) & 1 == 0 { (&x * &x) % p } else { x.clone() };
            let argm = to_limbs(&((&arg * &r) % p));
            let got = catch(|| hk::fp64::fp_sqrt(&argm)).map_err(|e| Fail { key: "entry=fp_sqrt outcome=panic".into(), detail: e })?;
            let is_sq = arg.is_zero() || arg.modpow(&((p - 1u32) >> 1), p).is_one();
            match got {
                Ok(y) => {
                    ensure!(is_sq, "entry=fp_sqrt outcome=root-of-non-residue", "arg={}", fmt(&arg));
                    let yv = (from_limbs(&y) * &rinv) % p;
                    ensure!((&yv * &yv) % p == arg, "entry=fp_sqrt outcome=wrong-value", "arg={} root={}", fmt(&arg), fmt(&yv));
                }
                Err(_) => ensure!(!is_sq, "entry=fp_sqrt outcome=err-on-residue", "arg={}", fmt(&arg)),
            }
            pass(true, op)
        }
        "fp_to_mont" => cmp(run(&|| hk::fp64::to_mont(&al))?, (&a * &r) % p),
        "fp_from_mont" => cmp(run(&|| hk::fp64::from_mont(&al))?, (&a * &rinv) % p),
        "fn_add" => cmp(run(&|| hk::fn64::fn_add(&al, &bl))?, (&a + &b) % n),
        "fn_sub" => cmp(run(&|| hk::fn64::fn_sub(&al, &bl))?, (&a + n - &b) % n),
        "fn_mul" => cmp(run(&|| hk::fn64::fn_mul(&al, &bl))?, (&a * &b) % n),
        "fn_pow" => {
            let e = from_be(&c.b);
            cmp(run(&|| hk::fn64::fn_pow(&al, &to_limbs(&e)))?, a.modpow(&e, n))
        }
        "u256_add" => {
            let (s, cy) = catch(|| gm_sm2::u256::u256_add(&al, &bl)).map_err(|e| Fail { key: "entry=u256_add outcome=panic".into(), detail: e })?;
            let t = &a + &b;
            ensure!(from_limbs(&s) == &t % &r && cy == (t >= r), "entry=u256_add outcome=wrong-value", "a={} b={} -> {} carry {}", fmt(&a), fmt(&b), fmt(&from_limbs(&s)), cy);
            pass(true, op)
        }
        "u256_sub" => {
            let (s, bw) = catch(|| gm_sm2::u256::u256_sub(&al, &bl)).map_err(|e| Fail { key: "entry=u256_sub outcome=panic".into(), detail: e })?;
            ensure!(from_limbs(&s) == (&a + &r - &b) % &r && bw == (a < b), "entry=u256_sub outcome=wrong-value", "a={} b={} -> {} borrow {}", fmt(&a), fmt(&b), fmt(&from_limbs(&s)), bw);
            pass(true, op)
        }
        "u256_mul" => {
            let m = catch(|| gm_sm2::u256::u256_mul(&al, &bl)).map_err(|e| Fail { key: "entry=u256_mul outcome=panic".into(), detail: e })?;
            ensure!(from_limbs(&m) == &a * &b, "entry=u256_mul outcome=wrong-value", "a={} b={} -> {}", fmt(&a), fmt(&b), fmt(&from_limbs(&m)));
            pass(true, op)
        }
        _ => {
            let g = catch(|| gm_sm2::u256::u256_cmp(&al, &bl)).map_err(|e| Fail { key: "entry=u256_cmp outcome=panic".into(), detail: e })?;
            let w = match a.cmp(&b) {
                std::cmp::Ordering::Less => -1,
                std::cmp::Ordering::Equal => 0,
                std::cmp::Ordering::Greater => 1,
            };
            ensure!(g == w, "entry=u256_cmp outcome=wrong-value", "a={} b={} -> {}", fmt(&a), fmt(&b), g);
            pass(true, op)
        }
    }
}

/// Operand pairs crafted so that sums / differences / Montgomery products land on the corners.
#[derive(Serialize, Deserialize, Hash, Debug, Clone)]
pub struct Crafted {
    /// 0: fp (mod p), 1: fn (mod n)
    pub field: u8,
    /// 0: a + b = target, 1: a - b = target, 2: mont_mul(a, b) = target  (all modulo 2^256 resp. the modulus)
    pub kind: u8,
    pub a: Hex,
    pub target: Hex,
}

fn check_crafted(c: &Crafted) -> CaseResult {
    let pr = r2::params();
    let m = if c.field == 0 { pr.p.clone() } else { pr.n.clone() };
    let r = r256();
    let a = from_be(&c.a) % &m;
    let t = from_be(&c.target);
    let mk = |op: u8, a: &BigUint, b: &BigUint| FOp { op, a: gen::hex32(a), b: gen::hex32(b) };
    let (add_op, sub_op, mul_op) = if c.field == 0 { (0u8, 1u8, 2u8) } else { (12u8, 13u8, 14u8) };
    match c.kind {
        0 => {
            // raw sum a + b = t (mod 2^256) where t may be just below/above m or wrap around 2^256
            let b = ((&t + &r) - &a) % &r;
            if b >= m {
                return pass(false, "crafted/out-of-domain");
            }
            check_fop(&mk(add_op, &a, &b)).map(|_| Pass { nt: true, class: "crafted/add".into() })
        }
        1 => {
            let b = ((&a + &r) - (&t % &r)) % &r;
            if b >= m {
                return pass(false, "crafted/out-of-domain");
            }
            check_fop(&mk(sub_op, &a, &b)).map(|_| Pass { nt: true, class: "crafted/sub".into() })
        }
        _ => {
            if a.is_zero() {
                return pass(false, "crafted/out-of-domain");
            }
            let t = &t % &m;
            if c.field == 0 {
                // mont_mul(a, b) = a b R^-1 = t  =>  b = t R a^-1
                let b = (&t * (&r % &m) % &m * mod_inv(&a, &m).unwrap()) % &m;
                check_fop(&mk(mul_op, &a, &b)).map(|_| Pass { nt: true, class: "crafted/montmul".into() })
            } else {
                let b = (&t * mod_inv(&a, &m).unwrap()) % &m;
                check_fop(&mk(mul_op, &a, &b)).map(|_| Pass { nt: true, class: "crafted/mul".into() })
            }
        }
    }
}

#[derive(Serialize, Deserialize, Hash, Debug, Clone)]
pub struct TableEntry {
    pub row: usize,
    pub j: usize,
}

fn check_table(t: &TableEntry) -> CaseResult {
    let tab = hk::precomputed_table();
    let k = BigUint::from(t.j as u64) << (8 * t.row);
    let want = r2::g_mul(&k);
    let (x, y) = (tab[t.row][2 * t.j - 2], tab[t.row][2 * t.j - 1]);
    let got = Some((r2::fp(&from_mont(&x)), r2::fp(&from_mont(&y))));
    ensure!(from_limbs(&x) < *r2::p_static() && from_limbs(&y) < *r2::p_static(), "entry=SM2P256_PRECOMPUTED outcome=non-canonical", "row {} j {}", t.row, t.j);
    ensure!(got == want, "entry=SM2P256_PRECOMPUTED outcome=wrong-entry", "table[{}][{}] = {} but [{}*256^{}]G = {}", t.row, t.j, show(&got), t.j, t.row, show(&want));
    pass(true, format!("row{}", t.row))
}

pub fn run(ctx: &Ctx) {
    let pr = r2::params();
    ctx.set_rule(
        "points are [k]G from the affine big-integer reference, written in Jacobian representations Z in {1, 2, p-1, random, 0 (infinity as (mu^2,mu^3,0) or Point::zero())} with \
         Montgomery coordinates computed by the harness; pairs (P,Q) generic / Q=P / Q=-P with equal or different Z / infinity operands; scalars {0..7, n-8..n+64, 2^i, 2^i-1, \
         boundary limbs, single bytes, uniform}; g_mul over every single-byte scalar b*256^i (32x255, exhaustive) and every nibble x position for scalar_mul; all 8160 table entries; \
         field operations over all pairs of boundary-limb operands, values within +-4 of 0, p, n, 2^256-p, 2^256-n, and operands crafted so that sums, differences and Montgomery \
         products land on 0, 1, m-1 and both sides of the reduction boundaries. Oracle: affine group law and BigUint arithmetic; library results decoded with big integers only. \
         Non-trivial: anything but (affine generic points, uniform scalar); distinct by hash of the case.",
    );
    ctx.assume("reference curve arithmetic (harness/src/refimpl/{field,ec,sm2}.rs): G has order n, [n-1]G = -G, GM/T 0003.5 Annex examples reproduced");
    ctx.assume("dead code is not a subject: gm-sm2 fp_div2 and fn_inv are unreachable from any public item");
    ctx.assume("operands of field operations are canonical (< modulus), as every caller guarantees");

    // ---- group law
    ctx.generated("point_add_pairs", "proptest (P rep, relation, Q rep): generic, equal, opposite, infinity; same or different Z", ctx.tier.pick(3_000, 40_000), || {
        (prep(), prop_oneof![3 => Just(0u8), 2 => Just(1u8), 2 => Just(2u8), 2 => 3..=8u8], prep()).prop_map(|(p, relation, q)| Pair { p, relation, q })
    }, check_pair);

    ctx.generated("point_unary", "proptest P rep: doubling, negation, affine conversion, encodings, validity predicates (+ off-curve perturbations)", ctx.tier.pick(1_500, 20_000), prep, check_unary);

    ctx.generated("scalar_mul_generated", "proptest (P rep, scalar from the edge-biased 256-bit generator)", ctx.tier.pick(1_500, 20_000), || {
        (prep(), gen::scalar256(&pr.n)).prop_map(|(p, scalar)| SM { p, scalar })
    }, check_scalar_mul);

    ctx.cold("cold_start_g_mul", "fixed-base multiplication as the first library operation of a fresh process (the precomputed table path)", || {
        (0..3u64).map(|i| GM { scalar: Hex(expand_bytes(i ^ 0xc11d, 32)) }).collect()
    }, check_g_mul);
    ctx.cold("cold_start_concurrent", "eight threads of a fresh process call g_mul / scalar_mul for the first time at the same moment", || {
        (0..2u64).map(|r| (0..8u64).map(|i| SM { p: PRep { k: Hex(expand_bytes((r << 8 | i) ^ 0xc11a, 32)), lambda: gen::hex32(&BigUint::from(1 + i % 3)) }, scalar: Hex(expand_bytes((r << 8 | i) ^ 0xc11b, 32)) }).collect::<Vec<_>>()).collect::<Vec<_>>()
    }, |steps: &Vec<SM>| par(steps, |c| { check_g_mul(&GM { scalar: c.scalar.clone() })?; check_scalar_mul(c) }));
    ctx.cold("cold_start_scalar_mul", "variable-base multiplication / addition as the first library operation of a fresh process", || {
        (0..3u64).map(|i| SM { p: PRep { k: Hex(expand_bytes(i ^ 0xc11e, 32)), lambda: gen::hex32(&BigUint::from(1 + i)) }, scalar: Hex(expand_bytes(i ^ 0xc11f, 32)) }).collect()
    }, check_scalar_mul);
    ctx.cold("cold_start_field_ops", "one field operation as the first library operation of a fresh process (every operation of the table)", || {
        (0..OPS.len() as u8).map(|op| FOp { op, a: Hex(expand_bytes(op as u64 ^ 0xc110, 32)), b: Hex(expand_bytes(op as u64 ^ 0xc111, 32)) }).collect()
    }, check_fop);

    ctx.listed("same_ordinate_pairs", "distinct points P = (x1, y), Q = (x2, y) with the same y (x2 solved from x1; the two x-differences and y-differences of the addition formulas then take the values a generic pair never gives: S1 = S2 with U1 != U2), in several Jacobian representations: P+Q, Q+P, P+(-Q)", || {
        let mut v = Vec::new();
        for i in 0..12u64 {
            for (lp, lq) in [(1u64, 1u64), (1, 2), (0x1234_5678_9abc, 1), (0xdead_beef, 0xfeed_f00d)] {
                v.push(SameY { start: 2 + i * 1000, lambda_p: gen::hex32(&BigUint::from(lp)), lambda_q: gen::hex32(&BigUint::from(lq)) });
            }
        }
        v
    }, check_same_y);

    ctx.listed("edge_points", "boundary points of the curve (x next to 0, n, p, 2^256-p, powers of two; Montgomery x with all-ones / zero limbs; y with a leading zero byte) in affine and two Jacobian representations: dbl, add (G, itself, its negative), scalar_mul, encode, decode", || {
        let mut v = Vec::new();
        for point in 0..edge_points().len() {
            for (j, lambda) in [BigUint::one(), BigUint::from(2u32), from_be(&expand_bytes(point as u64 ^ 0xed11, 32))].iter().enumerate() {
                v.push(EdgeOp { point, lambda: gen::hex32(lambda), scalar: Hex(expand_bytes((point * 3 + j) as u64 ^ 0xed12, 32)) });
            }
        }
        v
    }, check_edge_point);

    ctx.listed("near_curve_points", "points off the curve but on a neighbouring equation with one constant changed (a+-1, a+2, a=0, a=+3, 2a, b+-1, b=0, -b), abscissas at representation boundaries incl. those where the Montgomery image of x, x^2 or x^3 is next to 0 or p: both validity predicates must say no, in affine form and two Jacobian representations", || (0..near_curve_points().len()).collect::<Vec<usize>>(), |i: &usize| {
        let pr = r2::params();
        let (label, x, y) = &near_curve_points()[*i];
        let bad = r2::pt(x, y);
        for lambda in [BigUint::one(), BigUint::from(2u32), from_be(&expand_bytes(*i as u64 ^ 0x2ea1, 32)) % (pr.p - 2u32) + 2u32] {
            let bl = lib_point(&bad, &lambda);
            let v = catch(|| bl.is_valid()).map_err(|e| Fail { key: "entry=Point::is_valid outcome=panic".into(), detail: e })?;
            ensure!(!v, "entry=Point::is_valid outcome=true-off-curve input=near-curve", "{} ({:x}, {:x}) with Z = {:x}", label, x, y, lambda);
        }
        let ba = lib_point(&bad, &BigUint::one());
        let v = catch(|| ba.is_valid_affine_point()).map_err(|e| Fail { key: "entry=Point::is_valid_affine_point outcome=panic".into(), detail: e })?;
        ensure!(!v, "entry=Point::is_valid_affine_point outcome=true-off-curve input=near-curve", "{} ({:x}, {:x})", label, x, y);
        pass(true, "near-curve")
    });

    ctx.exhaustive("scalar_mul_nibbles", "every nibble value 1..15 at every of the 64 window positions, on an affine and a Jacobian point", || {
        let mut v = Vec::new();
        for pos in 0..64u32 {
            for nib in 1..16u32 {
                let k = BigUint::from(nib) << (4 * pos);
                for lam in [BigUint::one(), BigUint::from(0x1234_5678_9abc_def1u64)] {
                    v.push(SM { p: PRep { k: gen::hex32(&BigUint::from(7u32 + pos)), lambda: gen::hex32(&lam) }, scalar: gen::hex32(&k) });
                }
            }
        }
        v
    }, check_scalar_mul);

    ctx.exhaustive("scalar_mul_around_n", "scalars n-4..=n+64, 0, 1, 2, 2^255, 2^256-1 on three points", || {
        let mut ks: Vec<BigUint> = (0..=68u32).map(|i| &pr.n - BigUint::from(4u32) + BigUint::from(i)).collect();
        ks.extend([BigUint::zero(), BigUint::one(), BigUint::from(2u32), BigUint::one() << 255, (BigUint::one() << 256) - BigUint::one()]);
        let mut v = Vec::new();
        for k in ks {
            for (pk, lam) in [(1u32, 1u32), (2, 1), (12345, 3)] {
                v.push(SM { p: PRep { k: gen::hex32(&BigUint::from(pk)), lambda: gen::hex32(&BigUint::from(lam)) }, scalar: gen::hex32(&k) });
            }
        }
        v
    }, check_scalar_mul);

    ctx.exhaustive("scalar_mul_zero_limbs", "scalar_mul and g_mul for scalars with an all-zero 64-bit limb below a non-zero limb (limbs from {0, 1, 2^63, 2^64-1, random}) and zero runs across limb boundaries, on an affine and a Jacobian point", || {
        let mut v = Vec::new();
        for k in gen::zero_limb_scalars() {
            for (pk, lam) in [(7u32, 1u32), (12345, 3)] {
                v.push(SM { p: PRep { k: gen::hex32(&BigUint::from(pk)), lambda: gen::hex32(&BigUint::from(lam)) }, scalar: gen::hex32(&k) });
            }
        }
        v
    }, |c| { check_scalar_mul(c)?; check_g_mul(&GM { scalar: c.scalar.clone() }) });

    ctx.exhaustive("g_mul_single_bytes", "every scalar b*256^i, b = 1..=255, i = 0..=31 (each table entry alone)", || {
        let mut v = Vec::new();
        for i in 0..32u32 {
            for b in 1..=255u32 {
                v.push(GM { scalar: gen::hex32(&(BigUint::from(b) << (8 * i))) });
            }
        }
        v
    }, check_g_mul);

    ctx.exhaustive("g_mul_around_n", "fixed-base scalars n-8..=n+64 and small/extreme values", || {
        let mut ks: Vec<BigUint> = (0..=72u32).map(|i| &pr.n - BigUint::from(8u32) + BigUint::from(i)).collect();
        ks.extend((0..8u32).map(BigUint::from));
        ks.extend([BigUint::one() << 255, (BigUint::one() << 256) - BigUint::one(), (BigUint::one() << 256) - BigUint::from(2u32)]);
        ks.into_iter().map(|k| GM { scalar: gen::hex32(&k) }).collect()
    }, check_g_mul);

    ctx.generated("g_mul_generated", "proptest fixed-base scalars from the edge-biased generator", ctx.tier.pick(2_000, 30_000), || gen::scalar256(&pr.n).prop_map(|scalar| GM { scalar }), check_g_mul);

    // ---- table
    ctx.exhaustive("precomputed_table", "all 32 x 255 entries == Montgomery form of [j*256^i]G", || {
        let mut v = Vec::new();
        for row in 0..32 {
            for j in 1..=255 {
                v.push(TableEntry { row, j });
            }
        }
        v
    }, check_table);

    // ---- fields
    ctx.exhaustive("field_boundary_pairs", "binary operations on all pairs of boundary-limb values {0,1,2^32,2^63,2^64-1}^4 below the modulus", || {
        let mut v = Vec::new();
        for (m, ops) in [(pr.p.clone(), vec![0u8, 1, 2]), (pr.n.clone(), vec![12u8, 13, 14])] {
            let vals = gen::boundary_limb_values(&m);
            for a in &vals {
                for b in &vals {
                    for op in &ops {
                        v.push(FOp { op: *op, a: gen::hex32(a), b: gen::hex32(b) });
                    }
                }
            }
        }
        v
    }, check_fop);

    ctx.exhaustive("field_near_values", "every operation on all pairs of values within +-4 of 0, p, n, 2^256-p, 2^256-n (reduced)", || {
        let mut v = Vec::new();
        let near_p = gen::near_values(pr.p, &[pr.n.clone()]);
        let near_n = gen::near_values(&pr.n, &[pr.p.clone()]);
        for op in 0..OPS.len() as u8 {
            let vals = if OPS[op as usize].starts_with("fn_") { &near_n } else { &near_p };
            for a in vals {
                for b in vals {
                    v.push(FOp { op, a: gen::hex32(a), b: gen::hex32(b) });
                }
            }
        }
        v
    }, check_fop);

    ctx.generated("field_generated", "proptest (operation, a, b) from the edge-biased generators (raw 256-bit for u256_*, residues otherwise)", ctx.tier.pick(60_000, 1_000_000), || {
        (0..OPS.len() as u8, gen::scalar256(pr.p), gen::scalar256(&pr.n)).prop_map(|(op, a, b)| FOp { op, a, b })
    }, check_fop);

    ctx.generated("field_crafted_corners", "operands crafted so that a+b, a-b or mont_mul(a,b) equals a target in {0,1,2,m-2,m-1,m,m+1,2^256-1,2^256, small t} (both sides of the reduction boundaries)", ctx.tier.pick(20_000, 300_000), || {
        let targets = |m: BigUint| {
            let r = r256();
            let mut t: Vec<BigUint> = vec![BigUint::zero(), BigUint::one(), BigUint::from(2u32), &m - 2u32, &m - 1u32, m.clone(), &m + 1u32, &m + 2u32, &r - 1u32, &r - 2u32, &r - &m, &r - &m - 1u32, &r - &m + 1u32];
            for i in [8u32, 64, 128, 200, 223] {
                t.push(BigUint::one() << i);
            }
            t.into_iter().map(|x| gen::hex32(&(x % &r))).collect::<Vec<_>>()
        };
        let tp = targets(pr.p.clone());
        let tn = targets(pr.n.clone());
        (0..2u8, 0..3u8, gen::scalar256(pr.p), any::<prop::sample::Index>()).prop_map(move |(field, kind, a, ti)| {
            let ts = if field == 0 { &tp } else { &tn };
            Crafted { field, kind, a, target: ts[ti.index(ts.len())].clone() }
        })
    }, check_crafted);
}
