//! C03 — SM2 signatures verify and conform to GB/T 32918.2.

use num_bigint::BigUint;
use num_traits::One;
use proptest::prelude::*;
use serde::{Deserialize, Serialize};

use super::sm2util::*;
use crate::corpus;
use crate::engine::*;
use crate::gen;
use crate::refimpl::field::{from_be, to32};
use crate::refimpl::sm2 as r2;

#[derive(Serialize, Deserialize, Hash, Debug, Clone)]
pub struct SignCase {
    pub d: Hex,
    pub id: usize,
    pub msg_len: usize,
    pub msg_seed: u64,
    /// nonce candidates offered to the library (None: the library's own RNG)
    pub k: Option<Hex>,
}

fn d_is_edge(d: &BigUint) -> bool {
    let n = &r2::params().n;
    d.bits() <= 8 || (n - d).bits() <= 8 || d.count_ones() <= 2 || (d + 1u32).count_ones() <= 1
}

pub fn check_sign(c: &SignCase) -> CaseResult {
    let pr = r2::params();
    let n = &pr.n;
    let d = from_be(&c.d);
    let msg = expand_bytes(c.msg_seed, c.msg_len);
    let (id_b, id_opt) = id_bytes(c.id);
    let sk = lib_sk(&d).map_err(|e| Fail { key: "entry=Sm2PrivateKey::new input=d-in-[1,n-2] outcome=rejected".into(), detail: format!("d={:x}: {}", d, e) })?;
    let pk_ref = r2::g_mul(&d);
    // the public key the library derived
    let pk_lib_bytes = catch(|| sk.public_key.to_bytes(false)).map_err(|p| Fail { key: "entry=Sm2PublicKey::to_bytes outcome=panic".into(), detail: p })?;
    ensure!(pk_lib_bytes == r2::encode_uncompressed(&pk_ref), "entry=Sm2PrivateKey::new outcome=wrong-public-key", "d={:x}: library {} reference {}", d, hex::encode(&pk_lib_bytes), hex::encode(r2::encode_uncompressed(&pk_ref)));
    // the key object then holds its public point in the representation selected by msg_seed mod 6 (affine, as computed by g_mul, Z = 2,
    // random Z, Z with Montgomery limbs [1,0,0,0], Z = p-1): ZA and the signature must not depend on it
    let mut sk = sk;
    sk.public_key.point = point_in_rep(&pk_ref, Some(&d), (c.msg_seed % 6) as u8, c.msg_seed);
    let e = r2::digest(id_b, &pk_ref, &msg);

    let (sig, exact) = match &c.k {
        Some(kh) => {
            let k = from_be(kh);
            // second and third candidates: deterministic valid fall-backs
            let k2 = (from_be(&expand_bytes(c.msg_seed ^ 0x6b32, 32)) % (n - 1u32)) + 1u32;
            let k3 = (from_be(&expand_bytes(c.msg_seed ^ 0x6b33, 32)) % (n - 1u32)) + 1u32;
            let (r, left) = with_sm2_candidates(vec![to32(&k), to32(&k2), to32(&k3)], || sk.sign(id_opt, &msg));
            let sig = match r {
                Ok(Ok(s)) => s,
                Ok(Err(e)) => return fail("entry=Sm2PrivateKey::sign input=valid outcome=err", format!("d={:x} k={:x}: {:?}", d, k, e)),
                Err(p) => return fail(format!("entry=Sm2PrivateKey::sign input=valid outcome=panic site={}", panic_site(&p)), format!("d={:x} k={:x}: {}", d, k, p)),
            };
            // the nonce the library used is the last candidate it consumed (it may skip candidates for reasons of its own,
            // which no listed property forbids); the standard must not demand a retry for that nonce
            let consumed = 3 - left;
            ensure!(consumed >= 1, "entry=Sm2PrivateKey::sign outcome=nonce-not-drawn", "no candidate consumed");
            let k_used = [&k, &k2, &k3][consumed - 1];
            let (r_, s_) = r2::sign_with_k(&d, &e, k_used).ok_or_else(|| Fail { key: "entry=Sm2PrivateKey::sign outcome=used-a-nonce-that-needs-retry".into(), detail: format!("k={:x}", k_used) })?;
            let mut expect = to32(&r_).to_vec();
            expect.extend_from_slice(&to32(&s_));
            ensure!(sig == expect, "entry=Sm2PrivateKey::sign outcome=wrong-signature", "d={:x} k={:x} id#{} |M|={}: library {} standard {}", d, k, c.id, msg.len(), hex::encode(&sig), hex::encode(&expect));
            (sig, true)
        }
        None => match outcome(|| sk.sign(id_opt, &msg)) {
            Outcome::Ok(s) => (s, false),
            o => return fail(format!("entry=Sm2PrivateKey::sign input=valid outcome={}", o.class()), format!("d={:x}: {}", d, o.describe())),
        },
    };
    ensure!(sig.len() == 64, "entry=Sm2PrivateKey::sign outcome=wrong-length", "signature of {} bytes", sig.len());
    let (r, s) = (from_be(&sig[..32]), from_be(&sig[32..]));
    ensure!(r >= BigUint::one() && &r < n && s >= BigUint::one() && &s < n, "entry=Sm2PrivateKey::sign outcome=component-out-of-range", "r={:x} s={:x}", r, s);
    // the independent verification equation accepts it
    ensure!(r2::verify_rs(&pk_ref, &e, &r, &s), "entry=Sm2PrivateKey::sign outcome=fails-standard-verification", "d={:x} id#{} |M|={} sig={}", d, c.id, msg.len(), hex::encode(&sig));
    // the library's own verification accepts it under the matching key and ID
    let v = outcome(|| sk.public_key.verify(id_opt, &msg, &sig));
    ensure!(v.is_ok(), "entry=Sm2PublicKey::verify input=own-signature outcome=rejected", "d={:x} id#{} |M|={} sig={} -> {}", d, c.id, msg.len(), hex::encode(&sig), v.describe());
    // ... also through a public key rebuilt from bytes
    let pk2 = lib_pk(&pk_ref).map_err(|e| Fail { key: "entry=Sm2PublicKey::new input=valid-point outcome=rejected".into(), detail: e })?;
    let v2 = outcome(|| pk2.verify(id_opt, &msg, &sig));
    ensure!(v2.is_ok(), "entry=Sm2PublicKey::verify input=own-signature outcome=rejected", "(key from bytes) d={:x} -> {}", d, v2.describe());
    let nt = exact && (c.id != 0 && c.id != 1 || msg.len() > 13 || d_is_edge(&d));
    pass(nt, format!("{}/{}", if exact { "fixed-k" } else { "lib-rng" }, if d_is_edge(&d) { "edge-d" } else { "d" }))
}

#[derive(Serialize, Deserialize, Hash, Debug, Clone)]
pub struct RefSigned {
    pub d: Hex,
    pub id: usize,
    pub msg_len: usize,
    pub msg_seed: u64,
    pub k: Hex,
}

fn check_ref_signed(c: &RefSigned) -> CaseResult {
    let d = from_be(&c.d);
    let msg = expand_bytes(c.msg_seed, c.msg_len);
    let (id_b, id_opt) = id_bytes(c.id);
    let pk_ref = r2::g_mul(&d);
    let Some(sig) = r2::sign(&d, id_b, &msg, &from_be(&c.k)) else { return pass(false, "retry-k") };
    let pk = lib_pk(&pk_ref).map_err(|e| Fail { key: "entry=Sm2PublicKey::new input=valid-point outcome=rejected".into(), detail: e })?;
    let v = outcome(|| pk.verify(id_opt, &msg, &sig));
    ensure!(v.is_ok(), "entry=Sm2PublicKey::verify input=conforming-signature outcome=rejected", "d={:x} k={} id#{} |M|={} sig={} -> {}", d, hex::encode(&c.k.0), c.id, msg.len(), hex::encode(sig), v.describe());
    pass(true, "reference-signed")
}

#[derive(Serialize, Deserialize, Hash, Debug, Clone)]
pub struct Idx {
    pub key: usize,
    pub sig: usize,
}

pub fn sign_case() -> impl Strategy<Value = SignCase> {
    let n = r2::params().n.clone();
    let nm2 = &n - BigUint::from(2u32);
    let nm1 = &n - BigUint::one();
    (gen::secret_scalar(&nm2), 0..id_pool().len(), gen::msg_len(4096), any::<u64>(), gen::secret_scalar(&nm1))
        .prop_map(|(d, id, msg_len, msg_seed, k)| SignCase { d, id, msg_len, msg_seed, k: Some(k) })
}

pub fn run(ctx: &Ctx) {
    let pr = r2::params();
    ctx.set_rule(
        "cases are (d, ID index, message length+seed — the seed also selects the Jacobian representation in which the key object holds its public point —, nonce k): d and k from the edge-biased scalar generator reduced into [1,n-2] / [1,n-1] (1, 2, n-2, 2^i, 2^i-1, boundary limbs, single bytes, uniform), \
         IDs from a pool (None = default, \"\", 1..8191 bytes, multi-byte UTF-8), message lengths 0..4096 biased to hash-block boundaries. With k injected through the RNG hook the 64 bytes must equal the \
         reference signer's output (and the retry rule must consume the same number of candidates); every signature must have r,s in [1,n-1], satisfy the independent verification equation and be accepted \
         by the library. Reference-made signatures and the OpenSSL corpus must be accepted. Non-trivial: exact fixed-nonce comparison done and (non-default ID or |M| > 13 or edge d); reference/OpenSSL-signed cases.",
    );
    ctx.assume("reference SM2 signer/verifier (harness/src/refimpl/sm2.rs) reproduces the GM/T 0003.5 Annex signature bit for bit; OpenSSL 3.0.20 corpus is golden data");
    ctx.assume("hook used: RNG candidate override in gm_sm2 random_u256 (the library's own rejection loop still decides whether a candidate is used)");

    ctx.listed("annex_example", "GM/T 0003.5 signature example reproduced exactly with the Annex nonce", || {
        vec![SignCase { d: Hex(hex::decode("3945208F7B2144B13F36E38AC6D39F95889393692860B51A42FB81EF4DF7C5B8").unwrap()), id: 1, msg_len: 0, msg_seed: 0, k: Some(Hex(hex::decode("59276E27D506861A16680F3AD9C02DCCEF3CC1FA3CDBE4CE6D54B80DEAC1BC21").unwrap())) }]
    }, |c| {
        let d = from_be(&c.d);
        let sk = lib_sk(&d).map_err(|e| Fail { key: "entry=Sm2PrivateKey::new input=d-in-[1,n-2] outcome=rejected".into(), detail: e })?;
        let k: [u8; 32] = c.k.as_ref().unwrap().0.clone().try_into().unwrap();
        let (r, _) = with_sm2_candidates(vec![k], || sk.sign(Some("1234567812345678"), b"message digest"));
        let sig = match r { Ok(Ok(s)) => s, other => return fail("entry=Sm2PrivateKey::sign input=valid outcome=err", format!("{:?}", other.map(|x| x.map(hex::encode)))) };
        ensure!(hex::encode_upper(&sig) == "F5A03B0648D2C4630EEAC513E1BB81A15944DA3827D5B74143AC7EACEEE720B3B1B6AA29DF212FD8763182BC0D421CA1BB9038FD1F7F42D4840B69C485BBC1AA",
            "entry=Sm2PrivateKey::sign outcome=wrong-signature", "Annex example: library {}", hex::encode_upper(&sig));
        pass(true, "annex")
    });

    ctx.listed("signatures_that_look_like_another_format", "messages searched (fixed d, ID, k) until r starts with bytes another signature or point format would start with: 30 3e / 30 44 / 30 45 / 30 46 (a DER SEQUENCE header whose length byte fits), 04, 02, 03 (SEC1 tags), 00 00, ff ff, or is ASCII hex digits ('30'..'39', '61'..'66'): a raw 64-byte signature is never anything but r||s; and the same for s", || {
        use rayon::prelude::*;
        let n = &r2::params().n;
        let d = from_be(&expand_bytes(0x2e30, 32)) % (n - 2u32) + 1u32;
        let k = from_be(&expand_bytes(0x2e31, 32)) % (n - 1u32) + 1u32;
        let pk = r2::g_mul(&d);
        let id = 1usize;
        let (id_b, _) = id_bytes(id);
        let za = r2::za(id_b, &pk);
        let x1 = from_be(&r2::xy(&r2::g_mul(&k)).unwrap().0);
        let dinv = crate::refimpl::field::mod_inv(&((&d + 1u32) % n), n).unwrap();
        let wants: Vec<(usize, Vec<u8>)> = vec![
            (0, vec![0x30, 0x3e]), (0, vec![0x30, 0x44]), (0, vec![0x30, 0x45]), (0, vec![0x30, 0x46]), (0, vec![0x04]), (0, vec![0x02]), (0, vec![0x03]), (0, vec![0, 0]), (0, vec![0xff, 0xff]), (0, vec![0x33, 0x61]),
            (1, vec![0x30, 0x3e]), (1, vec![0x04]), (1, vec![0, 0]), (1, vec![0x02, 0x20]),
        ];
        let mut v = Vec::new();
        for (comp, prefix) in wants {
            let hit = (0..(1u64 << 20)).into_par_iter().find_first(|s| {
                let msg = expand_bytes(*s ^ 0x2e32, 24);
                let e = from_be(&crate::refimpl::sm3::sm3_parts(&[&za, &msg]));
                // r = (e + x1) mod n, s = (1 + d)^-1 (k - r d) mod n with x1 = x([k]G) computed once
                let r = (&e + &x1) % n;
                if r.bits() == 0 || (&r + &k) == *n {
                    return false;
                }
                let sv = (&dinv * ((&k + n * n - &r * &d) % n)) % n;
                sv.bits() != 0 && to32(if comp == 0 { &r } else { &sv }).starts_with(&prefix)
            });
            if let Some(s) = hit {
                v.push(SignCase { d: gen::hex32(&d), id, msg_len: 24, msg_seed: s ^ 0x2e32, k: Some(gen::hex32(&k)) });
            }
        }
        v
    }, check_sign);

    ctx.exhaustive("keys_and_nonces_with_zero_limbs", "d (resp. k) with an all-zero 64-bit limb below a non-zero limb and zero runs across limb boundaries: exact signature, both verifications", || {
        let n = &r2::params().n;
        let mut v = Vec::new();
        for (i, s) in gen::zero_limb_scalars().into_iter().enumerate() {
            if &s >= &(n - 2u32) || s.bits() == 0 {
                continue;
            }
            let other = gen::hex32(&(from_be(&expand_bytes(i as u64 ^ 0x2e3, 32)) % (n - 2u32) + 1u32));
            v.push(SignCase { d: gen::hex32(&s), id: i, msg_len: 10 + i % 50, msg_seed: i as u64, k: Some(other.clone()) });
            v.push(SignCase { d: other, id: i + 1, msg_len: 3 + i % 70, msg_seed: i as u64 ^ 0xff, k: Some(gen::hex32(&s)) });
        }
        v
    }, check_sign);

    ctx.cold("cold_start_sign", "sign (nonce injected) as the first library operation of a fresh process", || {
        let n = &r2::params().n;
        (0..4u64).map(|i| SignCase { d: gen::hex32(&(from_be(&expand_bytes(i ^ 0xc03d, 32)) % (n - 2u32) + 1u32)), id: i as usize, msg_len: 7 + i as usize * 30, msg_seed: i, k: Some(gen::hex32(&(from_be(&expand_bytes(i ^ 0xc03e, 32)) % (n - 1u32) + 1u32))) }).collect()
    }, check_sign);

    ctx.generated("fixed_nonce_exact", "proptest (d, id, message, k) with k injected: exact equality with the reference signer + both verifications", ctx.tier.pick(2_500, 60_000), sign_case, check_sign);

    let seed0 = ctx.seed;
    let maxlen = ctx.tier.pick(300usize, 2048usize);
    ctx.exhaustive("message_lengths", "every message length 0..=300 (thorough 0..=2048), nonce injected: exact signature and both verifications", move || {
        let n = &r2::params().n;
        (0..=maxlen).map(|l| SignCase { d: gen::hex32(&(from_be(&expand_bytes(seed0 ^ 0x3d ^ (l as u64 % 4), 32)) % (n - 2u32) + 1u32)), id: l % id_pool().len(), msg_len: l, msg_seed: seed0.wrapping_mul(131) ^ l as u64, k: Some(gen::hex32(&(from_be(&expand_bytes(seed0 ^ 0x3e ^ l as u64, 32)) % (n - 1u32) + 1u32))) }).collect()
    }, check_sign);

    let huge: Vec<usize> = ctx.tier.pick(vec![(1usize << 16) - 1, 1 << 16, (1 << 16) + 3, 100_000], vec![(1usize << 16) - 1, 1 << 16, (1 << 16) + 3, 100_000, (1 << 17) + 40, (1 << 18) + 8, (1 << 20) + 5]);
    ctx.listed("huge_messages", "messages of 2^16-1, 2^16, 2^16+3, 100000 bytes (thorough: up to 2^20+5), nonce injected: exact signature and both verifications (size thresholds, chunked or parallel hashing)", move || {
        let n = &r2::params().n;
        huge.iter().map(|l| SignCase { d: gen::hex32(&(from_be(&expand_bytes(seed0 ^ 0x3f, 32)) % (n - 2u32) + 1u32)), id: *l % id_pool().len(), msg_len: *l, msg_seed: seed0.wrapping_mul(137) ^ *l as u64, k: Some(gen::hex32(&(from_be(&expand_bytes(seed0 ^ 0x40 ^ *l as u64, 32)) % (n - 1u32) + 1u32))) }).collect::<Vec<_>>()
    }, check_sign);

    ctx.generated("library_rng_cross_verify", "proptest (d, id, message), nonce from the library's RNG: range, standard verification equation, library verification", ctx.tier.pick(2_500, 40_000), || {
        sign_case().prop_map(|mut c| { c.k = None; c })
    }, check_sign);

    ctx.exhaustive("edge_keys_all_ids", "d in {1,2,3,n-2,n-3,2^255} x every ID of the pool x fixed nonces {1, 2, n-1, random}", || {
        let n = &pr.n;
        let mut v = Vec::new();
        for d in [BigUint::one(), BigUint::from(2u32), BigUint::from(3u32), n - 2u32, n - 3u32, BigUint::one() << 255] {
            for id in 0..id_pool().len() {
                for (j, k) in [BigUint::one(), BigUint::from(2u32), n - 1u32, from_be(&expand_bytes(id as u64, 32)) % (n - 1u32) + 1u32].into_iter().enumerate() {
                    v.push(SignCase { d: gen::hex32(&d), id, msg_len: [0usize, 14, 55, 64][j], msg_seed: id as u64 * 4 + j as u64, k: Some(gen::hex32(&k)) });
                }
            }
        }
        v
    }, check_sign);

    ctx.generated("reference_signed_accepted", "proptest: the reference signs (random k), the library must accept", ctx.tier.pick(1_500, 30_000), || {
        let n = r2::params().n.clone();
        (gen::secret_scalar(&(&n - 2u32)), 0..id_pool().len(), gen::msg_len(2048), any::<u64>(), gen::secret_scalar(&(&n - 1u32)))
            .prop_map(|(d, id, msg_len, msg_seed, k)| RefSigned { d, id, msg_len, msg_seed, k })
    }, check_ref_signed);

    ctx.listed("openssl_signed_accepted", "signatures made by OpenSSL 3.0.20 (12 keys x 6: several IDs and message lengths) verify under the library and the reference", || {
        let mut v = Vec::new();
        for (key, k) in corpus::openssl()["sm2"].as_array().unwrap().iter().enumerate() {
            for sig in 0..k["sigs"].as_array().unwrap().len() {
                v.push(Idx { key, sig });
            }
        }
        v
    }, |c| {
        let k = &corpus::openssl()["sm2"][c.key];
        let s = &k["sigs"][c.sig];
        let id = s["id"].as_str().unwrap();
        let (msg, sig) = (corpus::hexv(&s["msg"]), corpus::hexv(&s["sig"]));
        let pk_ref = r2::decode_point(&corpus::hexv(&k["pub"])).ok_or_else(|| Fail { key: "corpus: bad public key".into(), detail: "".into() })?;
        ensure!(r2::verify(&pk_ref, id.as_bytes(), &msg, &sig), "reference-vs-openssl sm2-verify", "reference rejects OpenSSL signature key {} sig {} (id {:?})", c.key, c.sig, id);
        let pk = lib_pk(&pk_ref).map_err(|e| Fail { key: "entry=Sm2PublicKey::new input=valid-point outcome=rejected".into(), detail: e })?;
        let v = outcome(|| pk.verify(Some(intern(id)), &msg, &sig));
        ensure!(v.is_ok(), "entry=Sm2PublicKey::verify input=conforming-signature outcome=rejected", "OpenSSL signature key {} sig {} id {:?}: {}", c.key, c.sig, id, v.describe());
        pass(true, "openssl")
    });
}
