//! C19 — keys, points and ciphertexts survive encoding, and decoders validate.

use gm_sm2::key::{Sm2Model, Sm2PrivateKey, Sm2PublicKey};
use num_bigint::BigUint;
use num_traits::{One, Zero};
use pkcs8::{DecodePrivateKey, DecodePublicKey, EncodePrivateKey, EncodePublicKey, LineEnding};
use proptest::prelude::*;
use serde::{Deserialize, Serialize};
use std::str::FromStr;

use super::c05::model;
use super::sm2util::*;
use crate::corpus;
use crate::engine::*;
use crate::gen;
use crate::refimpl::der;
use crate::refimpl::ec::Pt;
use crate::refimpl::field::{from_be, to32, Fld, Fp};
use crate::refimpl::sm2 as r2;

#[derive(Serialize, Deserialize, Hash, Debug, Clone)]
pub struct KeyCase {
    pub d: Hex,
}

fn pk_point(pk: &Sm2PublicKey) -> Result<Pt<Fp>, Fail> {
    ref_point(&pk.point).map_err(|e| Fail { key: "entry=Sm2PublicKey outcome=non-canonical-point".into(), detail: e })
}

fn lead_zeros(b: &[u8]) -> usize {
    b.iter().take_while(|x| **x == 0).count()
}

macro_rules! lib_ok {
    ($what:expr, $e:expr) => {
        match outcome(|| $e) {
            Outcome::Ok(v) => v,
            o => return fail(format!("entry={} input=valid outcome={}", $what, o.class()), o.describe()),
        }
    };
}

fn check_public(c: &KeyCase) -> CaseResult {
    let d = from_be(&c.d);
    let q = r2::g_mul(&d);
    let (b65, b33) = (r2::encode_uncompressed(&q), r2::encode_compressed(&q));
    let same = |what: &str, pk: &Sm2PublicKey| -> Result<(), Fail> {
        let p = pk_point(pk)?;
        if p != q {
            return Err(Fail { key: format!("entry={} outcome=wrong-point", what), detail: format!("d={:x}: decoded {} expected {}", d, show(&p), show(&q)) });
        }
        Ok(())
    };
    // SEC1 bytes
    let pk = lib_ok!("Sm2PublicKey::new(uncompressed)", Sm2PublicKey::new(&b65));
    same("Sm2PublicKey::new(uncompressed)", &pk)?;
    ensure!(pk.to_bytes(false) == b65, "entry=Sm2PublicKey::to_bytes outcome=wrong-encoding", "uncompressed {}", hex::encode(pk.to_bytes(false)));
    ensure!(pk.to_bytes(true) == b33, "entry=Sm2PublicKey::to_bytes outcome=wrong-encoding", "compressed {} expected {}", hex::encode(pk.to_bytes(true)), hex::encode(&b33));
    let pkc = lib_ok!("Sm2PublicKey::new(compressed)", Sm2PublicKey::new(&b33));
    same("Sm2PublicKey::new(compressed)", &pkc)?;
    // hex
    ensure!(pk.to_hex_string(false) == hex::encode(&b65) && pk.to_hex_string(true) == hex::encode(&b33), "entry=Sm2PublicKey::to_hex_string outcome=wrong-encoding", "{}", pk.to_hex_string(false));
    for h in [hex::encode(&b65), hex::encode_upper(&b65), hex::encode(&b33)] {
        let p = lib_ok!("Sm2PublicKey::from_hex_string", Sm2PublicKey::from_hex_string(&h));
        same("Sm2PublicKey::from_hex_string", &p)?;
    }
    // SPKI DER / PEM
    let doc = lib_ok!("Sm2PublicKey::to_public_key_der", pk.to_public_key_der());
    let lib_der = doc.as_bytes().to_vec();
    let inner = der::parse_spki(&lib_der).ok_or_else(|| Fail { key: "entry=Sm2PublicKey::to_public_key_der outcome=not-a-valid-SPKI".into(), detail: hex::encode(&lib_der) })?;
    ensure!(r2::decode_point(&inner) == Some(q.clone()), "entry=Sm2PublicKey::to_public_key_der outcome=wrong-point", "SPKI carries {}", hex::encode(&inner));
    let byte_equal = lib_der == der::spki(&b65);
    for (what, bytes) in [("own", lib_der.clone()), ("reference-uncompressed", der::spki(&b65)), ("reference-compressed", der::spki(&b33))] {
        let p = lib_ok!(format!("Sm2PublicKey::from_public_key_der({})", what), Sm2PublicKey::from_public_key_der(&bytes));
        same("Sm2PublicKey::from_public_key_der", &p)?;
    }
    for le in [LineEnding::LF, LineEnding::CRLF] {
        let pem = lib_ok!("Sm2PublicKey::to_public_key_pem", pk.to_public_key_pem(le));
        ensure!(der::unpem("PUBLIC KEY", &pem).as_deref() == Some(&lib_der[..]), "entry=Sm2PublicKey::to_public_key_pem outcome=wrong-document", "{}", pem);
        let p = lib_ok!("Sm2PublicKey::from_public_key_pem", Sm2PublicKey::from_public_key_pem(&pem));
        same("Sm2PublicKey::from_public_key_pem", &p)?;
        let p = lib_ok!("Sm2PublicKey::from_str", Sm2PublicKey::from_str(&pem));
        same("Sm2PublicKey::from_str", &p)?;
    }
    let p = lib_ok!("Sm2PublicKey::from_public_key_pem(reference)", Sm2PublicKey::from_public_key_pem(&der::pem("PUBLIC KEY", &der::spki(&b65), "\n")));
    same("Sm2PublicKey::from_public_key_pem", &p)?;
    let lz = lead_zeros(&b65[1..33]).max(lead_zeros(&b65[33..]));
    pass(true, format!("pub/leading-zero-bytes={}{}", lz.min(3), if byte_equal { "" } else { "/der-differs-from-reference" }))
}

fn check_private(c: &KeyCase) -> CaseResult {
    let d = from_be(&c.d);
    let d32 = to32(&d);
    let q = r2::g_mul(&d);
    let b65 = r2::encode_uncompressed(&q);
    let same = |what: &str, sk: &Sm2PrivateKey| -> Result<(), Fail> {
        if sk.to_bytes_be() != d32.to_vec() {
            return Err(Fail { key: format!("entry={} outcome=wrong-scalar", what), detail: format!("decoded {} expected {}", hex::encode(sk.to_bytes_be()), hex::encode(d32)) });
        }
        let p = pk_point(&sk.public_key)?;
        if p != q {
            return Err(Fail { key: format!("entry={} outcome=wrong-public-key", what), detail: format!("d={:x}: public {} expected {}", d, show(&p), show(&q)) });
        }
        Ok(())
    };
    let sk = lib_ok!("Sm2PrivateKey::new", Sm2PrivateKey::new(&d32));
    same("Sm2PrivateKey::new", &sk)?;
    ensure!(sk.to_hex_string() == hex::encode(d32), "entry=Sm2PrivateKey::to_hex_string outcome=wrong-encoding", "{}", sk.to_hex_string());
    for h in [hex::encode(d32), hex::encode_upper(d32)] {
        let s2 = lib_ok!("Sm2PrivateKey::from_hex_string", Sm2PrivateKey::from_hex_string(&h));
        same("Sm2PrivateKey::from_hex_string", &s2)?;
    }
    // PKCS#8 DER written by the library parses strictly to the same key
    let doc = lib_ok!("Sm2PrivateKey::to_pkcs8_der", sk.to_pkcs8_der());
    let lib_der = doc.as_bytes().to_vec();
    let parsed = der::parse_pkcs8(&lib_der).ok_or_else(|| Fail { key: "entry=Sm2PrivateKey::to_pkcs8_der outcome=not-a-valid-PKCS8".into(), detail: hex::encode(&lib_der) })?;
    ensure!(parsed.d == d32.to_vec(), "entry=Sm2PrivateKey::to_pkcs8_der outcome=wrong-scalar", "document carries d = {}", hex::encode(&parsed.d));
    if let Some(p) = &parsed.public {
        ensure!(r2::decode_point(p) == Some(q.clone()), "entry=Sm2PrivateKey::to_pkcs8_der outcome=wrong-public-key", "document carries {}", hex::encode(p));
    }
    let byte_equal = lib_der == der::pkcs8(&d32, false, Some(&b65));
    let variants = [
        ("own", lib_der.clone()),
        ("reference pub", der::pkcs8(&d32, false, Some(&b65))),
        ("reference params+pub", der::pkcs8(&d32, true, Some(&b65))),
        ("reference bare", der::pkcs8(&d32, false, None)),
        ("reference params", der::pkcs8(&d32, true, None)),
        // RFC 5915 allows any SEC1 form for the embedded public key; OpenSSL writes this with -conv_form compressed
        ("reference compressed-pub", der::pkcs8(&d32, false, Some(&r2::encode_compressed(&q)))),
        ("reference params+compressed-pub", der::pkcs8(&d32, true, Some(&r2::encode_compressed(&q)))),
    ];
    for (what, bytes) in &variants {
        let s2 = lib_ok!(format!("Sm2PrivateKey::from_pkcs8_der({})", what), Sm2PrivateKey::from_pkcs8_der(bytes));
        same("Sm2PrivateKey::from_pkcs8_der", &s2)?;
    }
    for le in [LineEnding::LF, LineEnding::CRLF] {
        let pem = lib_ok!("Sm2PrivateKey::to_pkcs8_pem", sk.to_pkcs8_pem(le));
        ensure!(der::unpem("PRIVATE KEY", &pem).as_deref() == Some(&lib_der[..]), "entry=Sm2PrivateKey::to_pkcs8_pem outcome=wrong-document", "PEM body does not decode to the DER document");
        let s2 = lib_ok!("Sm2PrivateKey::from_pkcs8_pem", Sm2PrivateKey::from_pkcs8_pem(&pem));
        same("Sm2PrivateKey::from_pkcs8_pem", &s2)?;
    }
    let s2 = lib_ok!("Sm2PrivateKey::from_pkcs8_pem(reference)", Sm2PrivateKey::from_pkcs8_pem(&der::pem("PRIVATE KEY", &variants[1].1, "\n")));
    same("Sm2PrivateKey::from_pkcs8_pem", &s2)?;
    // SEC1 document
    let sec1 = lib_ok!("Sm2PrivateKey::to_sec1_der", sk.to_sec1_der());
    let ps = der::parse_ec_private_key(&sec1).ok_or_else(|| Fail { key: "entry=Sm2PrivateKey::to_sec1_der outcome=not-a-valid-ECPrivateKey".into(), detail: hex::encode(&sec1[..]) })?;
    ensure!(ps.d == d32.to_vec(), "entry=Sm2PrivateKey::to_sec1_der outcome=wrong-scalar", "{}", hex::encode(&ps.d));
    pass(true, format!("priv/leading-zero-bytes={}{}", lead_zeros(&d32).min(3), if byte_equal { "" } else { "/der-differs-from-reference" }))
}

// ------------------------------------------------------------------ malformed encodings

#[derive(Serialize, Deserialize, Hash, Debug, Clone)]
pub struct PointBytes {
    pub bytes: Hex,
}

/// Any byte string offered as a public key: Ok exactly when it is a valid SEC1 encoding of a curve point.
pub fn check_point_bytes(c: &PointBytes) -> CaseResult {
    let want = r2::decode_point(&c.bytes);
    let class = match (&want, c.bytes.len()) {
        (Some(_), _) => "valid",
        (None, 33) | (None, 65) => "bad-content",
        _ => "bad-length",
    };
    let entries: [(&str, Box<dyn Fn() -> Outcome<Sm2PublicKey>>); 3] = [
        ("Sm2PublicKey::new", Box::new(|| outcome(|| Sm2PublicKey::new(&c.bytes)))),
        ("Sm2PublicKey::from_hex_string", Box::new(|| outcome(|| Sm2PublicKey::from_hex_string(&hex::encode(&c.bytes.0))))),
        ("Sm2PublicKey::from_public_key_der", Box::new(|| outcome(|| Sm2PublicKey::from_public_key_der(&der::spki(&c.bytes))))),
    ];
    for (what, f) in entries.iter() {
        let got = f();
        match (&got, &want) {
            (Outcome::Panic(p), _) => return fail(format!("entry={} input={} outcome=panic", what, class), format!("bytes={} -> {}", hexs::hx(&c.bytes), p)),
            (Outcome::Ok(pk), Some(q)) => {
                let p = pk_point(pk)?;
                ensure!(&p == q, format!("entry={} outcome=wrong-point", what), "bytes={} decoded {}", hexs::hx(&c.bytes), show(&p));
            }
            (Outcome::Err(_), None) => {}
            (Outcome::Ok(pk), None) => {
                return fail(format!("entry={} input={} outcome=accepted-invalid", what, class), format!("bytes={} is not a valid encoding of a point on the curve, decoder returned {}", hexs::hx(&c.bytes), show_lib(&pk.point)));
            }
            (Outcome::Err(e), Some(_)) => return fail(format!("entry={} input=valid outcome=rejected", what), format!("bytes={} -> {}", hexs::hx(&c.bytes), e)),
        }
    }
    pass(want.is_none(), class)
}

#[derive(Serialize, Deserialize, Hash, Debug, Clone)]
pub struct SkBytes {
    pub bytes: Hex,
}

/// Private key bytes: wrong lengths are rejected; an accepted key is exactly the scalar given, with public key [d]G.
pub fn check_sk_bytes(c: &SkBytes) -> CaseResult {
    let len_ok = c.bytes.len() == 32;
    for (what, got) in [
        ("Sm2PrivateKey::new", outcome(|| Sm2PrivateKey::new(&c.bytes))),
        ("Sm2PrivateKey::from_hex_string", outcome(|| Sm2PrivateKey::from_hex_string(&hex::encode(&c.bytes.0)))),
    ] {
        match &got {
            Outcome::Panic(p) => return fail(format!("entry={} input=len{}32 outcome=panic", what, if len_ok { "=" } else { "!=" }), format!("{} bytes -> {}", c.bytes.len(), p)),
            Outcome::Ok(sk) => {
                ensure!(len_ok, format!("entry={} input=len!=32 outcome=accepted", what), "{} bytes accepted as a private key (decoded d = {})", c.bytes.len(), hex::encode(sk.to_bytes_be()));
                ensure!(sk.to_bytes_be() == c.bytes.0, format!("entry={} outcome=wrong-scalar", what), "{} -> {}", hexs::hx(&c.bytes), hex::encode(sk.to_bytes_be()));
                let d = from_be(&c.bytes);
                ensure!(pk_point(&sk.public_key)? == r2::g_mul(&(d % &r2::params().n)), format!("entry={} outcome=wrong-public-key", what), "d={}", hexs::hx(&c.bytes));
            }
            Outcome::Err(_) => {}
        }
    }
    pass(!len_ok, if len_ok { "len=32" } else { "len!=32" })
}

#[derive(Serialize, Deserialize, Hash, Debug, Clone)]
pub struct HexStr {
    pub text: String,
}

fn check_bad_hex(c: &HexStr) -> CaseResult {
    let valid_hex = c.text.len() % 2 == 0 && c.text.chars().all(|ch| ch.is_ascii_hexdigit());
    let r1 = outcome(|| Sm2PublicKey::from_hex_string(&c.text));
    let r2_ = outcome(|| Sm2PrivateKey::from_hex_string(&c.text));
    ensure!(!r1.is_panic(), "entry=Sm2PublicKey::from_hex_string input=malformed-hex outcome=panic", "{:?} -> {}", c.text, r1.describe());
    ensure!(!r2_.is_panic(), "entry=Sm2PrivateKey::from_hex_string input=malformed-hex outcome=panic", "{:?} -> {}", c.text, r2_.describe());
    if !valid_hex {
        ensure!(r1.is_err(), "entry=Sm2PublicKey::from_hex_string input=malformed-hex outcome=accepted", "{:?}", c.text);
        ensure!(r2_.is_err(), "entry=Sm2PrivateKey::from_hex_string input=malformed-hex outcome=accepted", "{:?}", c.text);
    }
    pass(true, if valid_hex { "valid-hex-junk" } else { "invalid-hex" })
}

#[derive(Serialize, Deserialize, Hash, Debug, Clone)]
pub struct DerMut {
    pub d: Hex,
    /// 0: SPKI, 1: PKCS#8 with public key, 2: PKCS#8 bare
    pub doc: u8,
    /// None: truncate to `pos` bytes; Some(bit): flip that bit of byte `pos`; Some(8): replace byte `pos` by 0xFF; Some(9): append a byte
    pub edit: Option<u8>,
    pub pos: u16,
}

pub fn check_der_mut(c: &DerMut) -> CaseResult {
    let d = from_be(&c.d);
    let q = r2::g_mul(&d);
    let b65 = r2::encode_uncompressed(&q);
    let base = match c.doc % 3 {
        0 => der::spki(&b65),
        1 => der::pkcs8(&to32(&d), false, Some(&b65)),
        _ => der::pkcs8(&to32(&d), true, None),
    };
    let mut doc = base.clone();
    let pos = c.pos as usize % base.len();
    let class = match c.edit {
        None => {
            doc.truncate(pos);
            "truncated"
        }
        Some(b) if b < 8 => {
            doc[pos] ^= 1 << b;
            "bit-flip"
        }
        Some(8) => {
            doc[pos] = 0xFF;
            "byte-ff"
        }
        Some(_) => {
            doc.push(pos as u8);
            "trailing-byte"
        }
    };
    if doc == base {
        return pass(false, "unchanged");
    }
    if c.doc % 3 == 0 {
        let got = outcome(|| Sm2PublicKey::from_public_key_der(&doc));
        match &got {
            Outcome::Panic(p) => return fail(format!("entry=Sm2PublicKey::from_public_key_der input={} outcome=panic", class), format!("doc={} -> {}", hex::encode(&doc), p)),
            Outcome::Ok(pk) => {
                ensure!(class != "truncated" && class != "trailing-byte", format!("entry=Sm2PublicKey::from_public_key_der input={} outcome=accepted", class), "doc={}", hex::encode(&doc));
                // whatever was accepted must be a point on the curve
                let p = pk_point(pk)?;
                ensure!(p.is_some() && r2::params().curve.on_curve(&p), "entry=Sm2PublicKey::from_public_key_der input=corrupted outcome=accepted-off-curve-point", "doc={} -> {}", hex::encode(&doc), show(&p));
            }
            Outcome::Err(_) => {}
        }
    } else {
        let got = outcome(|| Sm2PrivateKey::from_pkcs8_der(&doc));
        match &got {
            Outcome::Panic(p) => return fail(format!("entry=Sm2PrivateKey::from_pkcs8_der input={} outcome=panic", class), format!("doc={} -> {}", hex::encode(&doc), p)),
            Outcome::Ok(sk) => {
                ensure!(class != "truncated" && class != "trailing-byte", format!("entry=Sm2PrivateKey::from_pkcs8_der input={} outcome=accepted", class), "doc={}", hex::encode(&doc));
                let dd = from_be(&sk.to_bytes_be());
                ensure!(pk_point(&sk.public_key)? == r2::g_mul(&(dd % &r2::params().n)), "entry=Sm2PrivateKey::from_pkcs8_der input=corrupted outcome=inconsistent-key", "doc={}", hex::encode(&doc));
            }
            Outcome::Err(_) => {}
        }
    }
    pass(true, class)
}

// ------------------------------------------------------------------ ASN.1 ciphertext

#[derive(Serialize, Deserialize, Hash, Debug, Clone)]
pub struct Asn1Case {
    pub d: Hex,
    pub k: Hex,
    pub msg_len: usize,
    pub msg_seed: u64,
    pub compressed: bool,
    pub c1c3c2: bool,
}

fn check_asn1(c: &Asn1Case) -> CaseResult {
    let n = &r2::params().n;
    let d = from_be(&c.d);
    let k = from_be(&c.k);
    let msg = expand_bytes(c.msg_seed, c.msg_len.max(1));
    let q = r2::g_mul(&d);
    let pk = lib_pk(&q).map_err(|e| Fail { key: "entry=Sm2PublicKey::new input=valid-point outcome=rejected".into(), detail: e })?;
    let sk = lib_sk(&d).map_err(|e| Fail { key: "entry=Sm2PrivateKey::new input=d-in-[1,n-2] outcome=rejected".into(), detail: e })?;
    let k2 = from_be(&expand_bytes(c.msg_seed ^ 0xa5a1, 32)) % (n - 1u32) + 1u32;
    let (r, left) = with_sm2_candidates(vec![to32(&k), to32(&k2)], || pk.encrypt_asn1(&msg, c.compressed, model(c.c1c3c2)));
    let cfg = format!("compressed={} model={}", c.compressed, if c.c1c3c2 { "C1C3C2" } else { "C1C2C3" });
    let doc = match r {
        Ok(Ok(v)) => v,
        Ok(Err(e)) => return fail("entry=Sm2PublicKey::encrypt_asn1 input=valid outcome=err", format!("{}: {:?}", cfg, e)),
        Err(p) => return fail(format!("entry=Sm2PublicKey::encrypt_asn1 input=valid({}) outcome=panic", if c.compressed { "compressed" } else { "uncompressed" }), format!("{}: {}", cfg, p)),
    };
    let k = if left == 1 { k } else { k2 }; // the nonce actually used is the last candidate consumed
    let want = r2::encrypt_with_k(&q, &msg, &k).ok_or_else(|| Fail { key: "entry=Sm2PublicKey::encrypt_asn1 outcome=used-a-nonce-that-needs-retry".into(), detail: format!("k={:x}", k) })?;
    let (x, y) = r2::xy(&want.c1).unwrap();
    let parsed = der::parse_sm2_cipher(&doc).ok_or_else(|| Fail { key: "entry=Sm2PublicKey::encrypt_asn1 outcome=not-a-GM/T-0009-SM2Cipher".into(), detail: format!("{}: {}", cfg, hex::encode(&doc)) })?;
    ensure!(parsed.x == from_be(&x) && parsed.y == from_be(&y) && parsed.c3 == want.c3 && parsed.c2 == want.c2, "entry=Sm2PublicKey::encrypt_asn1 outcome=wrong-fields",
        "{} k={:x}: document has x={:x} y={:x} hash={} ct={} ; GM/T 0009 / GB/T 32918.4 give x={} y={} hash={} ct={}", cfg, k, parsed.x, parsed.y, hex::encode(&parsed.c3), hexs::hx(&parsed.c2), hex::encode(x), hex::encode(y), hex::encode(want.c3), hexs::hx(&want.c2));
    let back = outcome(|| sk.decrypt_asn1(&doc, c.compressed, model(c.c1c3c2)));
    ensure!(back == Outcome::Ok(msg.clone()), "entry=Sm2PrivateKey::decrypt_asn1 input=own-document outcome=round-trip-failure", "{} k={:x}: {}", cfg, k, match &back { Outcome::Ok(v) => hexs::hx(v), o => o.describe() });
    // a document written by the reference DER writer decrypts too
    let ref_doc = der::sm2_cipher(&from_be(&x), &from_be(&y), &want.c3, &want.c2);
    let back2 = outcome(|| sk.decrypt_asn1(&ref_doc, c.compressed, model(c.c1c3c2)));
    ensure!(back2 == Outcome::Ok(msg.clone()), "entry=Sm2PrivateKey::decrypt_asn1 input=conforming-document outcome=failure", "{} k={:x}: {}", cfg, k, back2.describe());
    let lz = lead_zeros(&x).max(lead_zeros(&y));
    let top = (x[0] | y[0]) & 0x80 != 0;
    pass(lz > 0 || top || c.compressed, format!("asn1/lz={}{}", lz.min(3), if top { "/top-bit" } else { "" }))
}

/// A well-formed PKCS#8 / SPKI envelope around a private scalar of `dlen` bytes and a public-key string of `plen` bytes (None: absent)
#[derive(Serialize, Deserialize, Hash, Debug, Clone)]
pub struct KeyLens {
    pub dlen: usize,
    pub plen: Option<usize>,
}

pub fn check_key_lens(c: &KeyLens) -> CaseResult {
    let n = &r2::params().n;
    let d = from_be(&expand_bytes(0xa5b1, 32)) % (n - 2u32) + 1u32;
    let d32 = to32(&d);
    let q65 = r2::encode_uncompressed(&r2::g_mul(&d));
    let fit = |src: &[u8], l: usize| -> Vec<u8> { let mut v = vec![0u8; l]; for i in 0..l.min(src.len()) { v[l - 1 - i] = src[src.len() - 1 - i]; } v };
    let dbytes = fit(&d32, c.dlen);
    let pbytes = c.plen.map(|l| { let mut v = fit(&q65[1..], l.saturating_sub(1)); if l > 0 { v.insert(0, 4); } v });
    let doc = der::pkcs8_raw(&dbytes, pbytes.as_deref());
    match outcome(|| Sm2PrivateKey::from_pkcs8_der(&doc)) {
        Outcome::Panic(p) => return fail(format!("entry=Sm2PrivateKey::from_pkcs8_der input=field-lengths outcome=panic site={}", panic_site(&p)), format!("private key of {} bytes, public key of {:?} bytes: {}", c.dlen, c.plen, p)),
        Outcome::Ok(sk) => {
            ensure!(c.dlen == 32, "entry=Sm2PrivateKey::from_pkcs8_der input=private-key-length!=32 outcome=accepted", "a private key of {} bytes was accepted as {:x}", c.dlen, crate::refimpl::field::from_limbs(&sk.d));
            ensure!(crate::refimpl::field::from_limbs(&sk.d) == d, "entry=Sm2PrivateKey::from_pkcs8_der outcome=wrong-scalar", "{:x}", crate::refimpl::field::from_limbs(&sk.d));
        }
        Outcome::Err(_) => {}
    }
    if let Some(pb) = &pbytes {
        let spki = der::spki(pb);
        match outcome(|| Sm2PublicKey::from_public_key_der(&spki)) {
            Outcome::Panic(p) => return fail(format!("entry=Sm2PublicKey::from_public_key_der input=field-lengths outcome=panic site={}", panic_site(&p)), format!("public key of {} bytes: {}", pb.len(), p)),
            Outcome::Ok(pk) => ensure!(r2::decode_point(pb).is_some() && pk_point(&pk)? == r2::decode_point(pb).unwrap(), "entry=Sm2PublicKey::from_public_key_der input=field-lengths outcome=accepted-invalid", "public key of {} bytes accepted", pb.len()),
            Outcome::Err(_) => {}
        }
    }
    pass(true, "key-field-lengths")
}

/// A structurally well-formed SubjectPublicKeyInfo / PKCS#8 PrivateKeyInfo around a genuine key whose optional and CHOICE-typed parts take every shape the
/// ASN.1 modules allow (and a few they do not): which algorithm OID, what sits in the AlgorithmIdentifier parameters, what the inner ECPrivateKey carries.
#[derive(Serialize, Deserialize, Hash, Debug, Clone)]
pub struct KeyDocShape {
    /// 0 id-ecPublicKey, 1 the SM2 curve OID used as algorithm, 2 rsaEncryption, 3 Ed25519, 4 zero-length OID, 5 id-ecDH
    pub alg: u8,
    /// 0 SM2 curve OID, 1 absent, 2 NULL, 3 prime256v1, 4 empty SEQUENCE, 5 SEQUENCE { INTEGER 1 } (explicit parameters), 6 INTEGER, 7 OCTET STRING, 8 SM2 OID followed by a second element, 9 zero-length OID
    pub params: u8,
    /// PKCS#8 only — ECPrivateKey [0] parameters: 0 absent, 1 SM2 OID, 2 NULL, 3 prime256v1, 4 empty
    pub inner_params: u8,
    /// PKCS#8 only — ECPrivateKey version: 1 (right), 0, 2
    pub inner_version: u8,
    /// PKCS#8 only — 0: no public key, 1: [1] public key present, 2: [1] present but holding an empty BIT STRING
    pub inner_public: u8,
    pub pem: bool,
}

pub fn check_key_doc_shape(c: &KeyDocShape) -> CaseResult {
    let n = &r2::params().n;
    let d = from_be(&expand_bytes(0xa5c2, 32)) % (n - 2u32) + 1u32;
    let d32 = to32(&d);
    let q = r2::g_mul(&d);
    let q65 = r2::encode_uncompressed(&q);
    const P256: &[u8] = &[0x2A, 0x86, 0x48, 0xCE, 0x3D, 0x03, 0x01, 0x07];
    let alg_oid: Vec<u8> = match c.alg % 6 {
        0 => der::OID_EC_PUBLIC_KEY.to_vec(),
        1 => der::OID_SM2.to_vec(),
        2 => vec![0x2A, 0x86, 0x48, 0x86, 0xF7, 0x0D, 0x01, 0x01, 0x01],
        3 => vec![0x2B, 0x65, 0x70],
        4 => vec![],
        _ => vec![0x2B, 0x81, 0x04, 0x01, 0x0C],
    };
    let mut alg_parts = vec![der::tlv(0x06, &alg_oid)];
    match c.params % 10 {
        0 => alg_parts.push(der::tlv(0x06, der::OID_SM2)),
        1 => {}
        2 => alg_parts.push(der::tlv(0x05, &[])),
        3 => alg_parts.push(der::tlv(0x06, P256)),
        4 => alg_parts.push(der::seq(&[])),
        5 => alg_parts.push(der::seq(&[der::integer(&BigUint::one())])),
        6 => alg_parts.push(der::integer(&BigUint::from(7u32))),
        7 => alg_parts.push(der::tlv(0x04, der::OID_SM2)),
        8 => {
            alg_parts.push(der::tlv(0x06, der::OID_SM2));
            alg_parts.push(der::tlv(0x05, &[]));
        }
        _ => alg_parts.push(der::tlv(0x06, &[])),
    }
    let alg = der::seq(&alg_parts);
    let standard_alg = c.alg % 6 == 0 && c.params % 10 == 0;
    let shape = format!("alg#{} params#{} inner-params#{} inner-version#{} inner-public#{} {}", c.alg % 6, c.params % 10, c.inner_params % 5, c.inner_version % 3, c.inner_public % 3, if c.pem { "PEM" } else { "DER" });

    // SubjectPublicKeyInfo
    let mut bits = vec![0u8];
    bits.extend_from_slice(&q65);
    let spki = der::seq(&[alg.clone(), der::tlv(0x03, &bits)]);
    let got = if c.pem {
        let text = der::pem("PUBLIC KEY", &spki, "\n");
        match outcome(|| Sm2PublicKey::from_public_key_pem(&text)) {
            Outcome::Panic(p) => return fail(format!("entry=Sm2PublicKey::from_public_key_pem input=document-shape outcome=panic site={}", panic_site(&p)), format!("{}: {} -> {}", shape, hex::encode(&spki), p)),
            Outcome::Ok(k) => {
                match outcome(|| Sm2PublicKey::from_str(&text)) {
                    Outcome::Panic(p) => return fail(format!("entry=Sm2PublicKey::from_str input=document-shape outcome=panic site={}", panic_site(&p)), format!("{}: {}", shape, p)),
                    _ => {}
                }
                Some(k)
            }
            Outcome::Err(_) => None,
        }
    } else {
        match outcome(|| Sm2PublicKey::from_public_key_der(&spki)) {
            Outcome::Panic(p) => return fail(format!("entry=Sm2PublicKey::from_public_key_der input=document-shape outcome=panic site={}", panic_site(&p)), format!("{}: {} -> {}", shape, hex::encode(&spki), p)),
            Outcome::Ok(k) => Some(k),
            Outcome::Err(_) => None,
        }
    };
    if let Some(k) = &got {
        ensure!(pk_point(k)? == q, "entry=Sm2PublicKey::from_public_key_der input=document-shape outcome=wrong-point", "{}", shape);
    }
    if standard_alg {
        ensure!(got.is_some(), "entry=Sm2PublicKey::from_public_key_der input=valid outcome=rejected", "{}", shape);
    }

    // PKCS#8 PrivateKeyInfo
    let mut ec_parts = vec![der::integer(&BigUint::from([1u32, 0, 2][(c.inner_version % 3) as usize])), der::tlv(0x04, &d32)];
    match c.inner_params % 5 {
        0 => {}
        1 => ec_parts.push(der::tlv(0xA0, &der::tlv(0x06, der::OID_SM2))),
        2 => ec_parts.push(der::tlv(0xA0, &der::tlv(0x05, &[]))),
        3 => ec_parts.push(der::tlv(0xA0, &der::tlv(0x06, P256))),
        _ => ec_parts.push(der::tlv(0xA0, &[])),
    }
    match c.inner_public % 3 {
        0 => {}
        1 => ec_parts.push(der::tlv(0xA1, &der::tlv(0x03, &bits))),
        _ => ec_parts.push(der::tlv(0xA1, &der::tlv(0x03, &[]))),
    }
    let p8 = der::seq(&[der::integer(&BigUint::zero()), alg, der::tlv(0x04, &der::seq(&ec_parts))]);
    let entry = if c.pem { "Sm2PrivateKey::from_pkcs8_pem" } else { "Sm2PrivateKey::from_pkcs8_der" };
    let o = if c.pem {
        let text = der::pem("PRIVATE KEY", &p8, "\n");
        outcome(|| Sm2PrivateKey::from_pkcs8_pem(&text))
    } else {
        outcome(|| Sm2PrivateKey::from_pkcs8_der(&p8))
    };
    match o {
        Outcome::Panic(p) => return fail(format!("entry={} input=document-shape outcome=panic site={}", entry, panic_site(&p)), format!("{}: {} -> {}", shape, hex::encode(&p8), p)),
        Outcome::Ok(sk) => {
            ensure!(crate::refimpl::field::from_limbs(&sk.d) == d, format!("entry={} input=document-shape outcome=wrong-scalar", entry), "{}", shape);
            ensure!(pk_point(&sk.public_key)? == q, format!("entry={} input=document-shape outcome=wrong-public-key", entry), "{}", shape);
        }
        Outcome::Err(e) => {
            ensure!(!(standard_alg && c.inner_version % 3 == 0 && c.inner_params % 5 <= 1 && c.inner_public % 3 <= 1), format!("entry={} input=valid outcome=rejected", entry), "{}: {}", shape, e);
        }
    }
    pass(!standard_alg || c.inner_params % 5 > 1 || c.inner_version % 3 != 0 || c.inner_public % 3 == 2, if standard_alg { "document-shape/standard-algorithm" } else { "document-shape/other-algorithm" })
}

/// An SM2Cipher document whose two INTEGERs have content lengths (lx, ly), whatever that does to their value
#[derive(Serialize, Deserialize, Hash, Debug, Clone)]
pub struct Asn1Lens {
    pub lx: usize,
    pub ly: usize,
    pub compressed: bool,
}

pub fn check_asn1_lens(c: &Asn1Lens) -> CaseResult {
    let n = &r2::params().n;
    let d = from_be(&expand_bytes(0xa5a5, 32)) % (n - 2u32) + 1u32;
    let k = from_be(&expand_bytes(0xa5a6, 32)) % (n - 1u32) + 1u32;
    let msg = b"asn1 integer lengths".to_vec();
    let Some(w) = r2::encrypt_with_k(&r2::g_mul(&d), &msg, &k) else { return pass(false, "retry") };
    let (x, y) = r2::xy(&w.c1).unwrap();
    // content of length l: the genuine coordinate right-aligned (cut or zero-extended on the left), first byte forced into 01..7f so that the
    // INTEGER is minimal and positive whatever its length
    let content = |coord: &[u8; 32], l: usize| -> Vec<u8> {
        let mut v = vec![0u8; l];
        for i in 0..l.min(32) {
            v[l - 1 - i] = coord[31 - i];
        }
        if l > 0 && (v[0] == 0 || v[0] >= 0x80) {
            v[0] = 0x41;
        }
        v
    };
    let doc = der::seq(&[der::tlv(0x02, &content(&x, c.lx)), der::tlv(0x02, &content(&y, c.ly)), der::tlv(0x04, &w.c3), der::tlv(0x04, &w.c2)]);
    let sk = lib_sk(&d).map_err(|e| Fail { key: "entry=Sm2PrivateKey::new input=d-in-[1,n-2] outcome=rejected".into(), detail: e })?;
    let got = outcome(|| sk.decrypt_asn1(&doc, c.compressed, Sm2Model::C1C3C2));
    match got {
        Outcome::Panic(p) => fail(format!("entry=Sm2PrivateKey::decrypt_asn1 input=integer-lengths outcome=panic site={}", panic_site(&p)), format!("x INTEGER of {} bytes, y INTEGER of {} bytes, compressed={}: {}", c.lx, c.ly, c.compressed, p)),
        Outcome::Ok(m) => {
            ensure!(m == msg, "entry=Sm2PrivateKey::decrypt_asn1 outcome=wrong-plaintext", "lx={} ly={}: {}", c.lx, c.ly, hex::encode(&m));
            pass(true, "asn1-lens/accepted")
        }
        Outcome::Err(_) => pass(true, "asn1-lens/rejected"),
    }
}

/// A GM/T 0009 SM2Cipher document around a genuine ciphertext whose parts take every shape a DER reader can meet: how each INTEGER is written,
/// which tag and length the hash and the ciphertext carry, how the outer SEQUENCE states its length, what follows.
#[derive(Serialize, Deserialize, Hash, Debug, Clone)]
pub struct CipherDocShape {
    /// x INTEGER: 0 minimal; 1 one redundant leading 00; 2 leading 00 dropped although the top bit is set (reads as negative); 3 empty content; 4 tag 04 instead of 02; 5 long-form length (81 nn)
    pub x: u8,
    /// y INTEGER: same shapes
    pub y: u8,
    /// hash: 0 OCTET STRING(32); 1 31 bytes; 2 33 bytes; 3 BIT STRING tag; 4 empty; 5 long-form length
    pub hash: u8,
    /// ciphertext: 0 OCTET STRING; 1 empty OCTET STRING; 2 UTF8String tag; 3 long-form length; 4 missing
    pub c2: u8,
    /// outer: 0 short/definite as DER requires; 1 long-form length with a redundant byte (82 00 nn); 2 indefinite length (80 ... 00 00); 3 a fifth element appended inside; 4 trailing byte after the SEQUENCE; 5 SET tag; 6 stated length one more than the content
    pub outer: u8,
    pub compressed: bool,
}

pub fn check_cipher_doc_shape(c: &CipherDocShape) -> CaseResult {
    let n = &r2::params().n;
    let d = from_be(&expand_bytes(0xa5d1, 32)) % (n - 2u32) + 1u32;
    let msg = b"sm2cipher document shapes".to_vec();
    // a nonce for which both coordinates have their top bit set, so that every INTEGER shape differs from the minimal one
    let mut k = from_be(&expand_bytes(0xa5d2, 32)) % (n - 1u32) + 1u32;
    let w = loop {
        if let Some(w) = r2::encrypt_with_k(&r2::g_mul(&d), &msg, &k) {
            let (x, y) = r2::xy(&w.c1).unwrap();
            if x[0] >= 0x80 && y[0] >= 0x80 {
                break w;
            }
        }
        k = (&k % (n - 1u32)) + 1u32;
    };
    let (x, y) = r2::xy(&w.c1).unwrap();
    let long = |tag: u8, content: &[u8]| -> Vec<u8> { let mut v = vec![tag, 0x81, content.len() as u8]; v.extend_from_slice(content); v };
    let int = |coord: &[u8; 32], shape: u8| -> Vec<u8> {
        let mut minimal = vec![0u8];
        minimal.extend_from_slice(coord);
        match shape % 6 {
            0 => der::tlv(0x02, &minimal),
            1 => { let mut v = vec![0u8]; v.extend_from_slice(&minimal); der::tlv(0x02, &v) }
            2 => der::tlv(0x02, coord),
            3 => der::tlv(0x02, &[]),
            4 => der::tlv(0x04, &minimal),
            _ => long(0x02, &minimal),
        }
    };
    let hash = match c.hash % 6 {
        0 => der::tlv(0x04, &w.c3),
        1 => der::tlv(0x04, &w.c3[..31]),
        2 => { let mut v = w.c3.to_vec(); v.push(0); der::tlv(0x04, &v) }
        3 => der::tlv(0x03, &w.c3),
        4 => der::tlv(0x04, &[]),
        _ => long(0x04, &w.c3),
    };
    let c2 = match c.c2 % 5 {
        0 => der::tlv(0x04, &w.c2),
        1 => der::tlv(0x04, &[]),
        2 => der::tlv(0x0C, &w.c2),
        3 => long(0x04, &w.c2),
        _ => vec![],
    };
    let mut body = [int(&x, c.x), int(&y, c.y), hash, c2].concat();
    if c.outer % 7 == 3 {
        body.extend_from_slice(&der::tlv(0x05, &[]));
    }
    let doc: Vec<u8> = match c.outer % 7 {
        1 => { let mut v = vec![0x30, 0x82, 0x00, body.len() as u8]; v.extend_from_slice(&body); v }
        2 => { let mut v = vec![0x30, 0x80]; v.extend_from_slice(&body); v.extend_from_slice(&[0, 0]); v }
        4 => { let mut v = der::tlv(0x30, &body); v.push(0); v }
        5 => der::tlv(0x31, &body),
        6 => { let mut v = der::tlv(0x30, &body); let l = v.len(); if v[1] < 0x7f { v[1] += 1; } else { v[l.min(2)] = v[l.min(2)].wrapping_add(1); } v }
        _ => der::tlv(0x30, &body),
    };
    let standard = c.x % 6 == 0 && c.y % 6 == 0 && c.hash % 6 == 0 && c.c2 % 5 == 0 && c.outer % 7 == 0;
    let sk = lib_sk(&d).map_err(|e| Fail { key: "entry=Sm2PrivateKey::new input=d-in-[1,n-2] outcome=rejected".into(), detail: e })?;
    let shape = format!("x#{} y#{} hash#{} c2#{} outer#{} compressed={}", c.x % 6, c.y % 6, c.hash % 6, c.c2 % 5, c.outer % 7, c.compressed);
    match outcome(|| sk.decrypt_asn1(&doc, c.compressed, Sm2Model::C1C3C2)) {
        Outcome::Panic(p) => fail(format!("entry=Sm2PrivateKey::decrypt_asn1 input=document-shape outcome=panic site={}", panic_site(&p)), format!("{}: {} -> {}", shape, hex::encode(&doc), p)),
        Outcome::Ok(m) => {
            ensure!(m == msg, "entry=Sm2PrivateKey::decrypt_asn1 input=document-shape outcome=wrong-plaintext", "{}: {}", shape, hex::encode(&m));
            pass(!standard, "cipher-document-shape/accepted")
        }
        Outcome::Err(e) => {
            ensure!(!standard, "entry=Sm2PrivateKey::decrypt_asn1 input=valid outcome=rejected", "{}: {}", shape, e);
            pass(true, "cipher-document-shape/rejected")
        }
    }
}

#[derive(Serialize, Deserialize, Hash, Debug, Clone)]
pub struct EdgeAsn1 {
    pub d: Hex,
    pub point: usize,
    pub msg_len: usize,
    pub compressed: bool,
    pub c1c3c2: bool,
}

/// a conforming SM2Cipher document whose (x, y) is a boundary point of the curve, written by the reference DER writer
fn check_edge_asn1(c: &EdgeAsn1) -> CaseResult {
    let eps = edge_points();
    let (label, x, y) = &eps[c.point % eps.len()];
    let d = from_be(&c.d);
    let msg = expand_bytes(c.point as u64 ^ 0xa5e, c.msg_len.max(1));
    let Some(w) = r2::encrypt_to_c1(&d, &r2::pt(x, y), &msg) else { return pass(false, "retry") };
    let doc = der::sm2_cipher(x, y, &w.c3, &w.c2);
    let sk = lib_sk(&d).map_err(|e| Fail { key: "entry=Sm2PrivateKey::new input=d-in-[1,n-2] outcome=rejected".into(), detail: e })?;
    let got = outcome(|| sk.decrypt_asn1(&doc, c.compressed, model(c.c1c3c2)));
    ensure!(got == Outcome::Ok(msg.clone()), "entry=Sm2PrivateKey::decrypt_asn1 input=conforming-document outcome=failure",
        "(x, y) = edge point {} x={:x} y={:x}; compressed={} c1c3c2={} doc={}: {}", label, x, y, c.compressed, c.c1c3c2, hex::encode(&doc), got.describe());
    pass(true, "asn1/edge-point")
}

/// a boundary point used as a public key: all decoders accept it, and the key works (encrypt to it, independent decryption impossible without d,
/// so the check is decode -> encode -> same bytes, and verify() of a junk signature returns Err rather than panicking)
fn check_edge_public(i: &usize) -> CaseResult {
    let eps = edge_points();
    let (label, x, y) = &eps[*i % eps.len()];
    let q = r2::pt(x, y);
    for compressed in [false, true] {
        let enc = if compressed { r2::encode_compressed(&q) } else { r2::encode_uncompressed(&q) };
        check_point_bytes(&PointBytes { bytes: Hex(enc.clone()) })?;
        let pk = match outcome(|| Sm2PublicKey::new(&enc)) {
            Outcome::Ok(k) => k,
            o => return fail("entry=Sm2PublicKey::new input=valid outcome=rejected", format!("edge point {} {}: {}", label, hex::encode(&enc), o.describe())),
        };
        let back = catch(|| pk.to_bytes(compressed)).map_err(|p| Fail { key: "entry=Sm2PublicKey::to_bytes outcome=panic".into(), detail: p })?;
        ensure!(back == enc, "entry=Sm2PublicKey::to_bytes outcome=wrong-bytes", "edge point {}: {} -> {}", label, hex::encode(&enc), hex::encode(&back));
        let spki = lib_ok!("Sm2PublicKey::to_public_key_der", pk.to_public_key_der());
        let spki = spki.as_bytes().to_vec();
        let ps = der::parse_spki(&spki).ok_or_else(|| Fail { key: "entry=Sm2PublicKey::to_public_key_der outcome=not-a-valid-SPKI".into(), detail: hex::encode(&spki) })?;
        ensure!(r2::decode_point(&ps).as_ref() == Some(&q), "entry=Sm2PublicKey::to_public_key_der outcome=wrong-point", "edge point {}: {}", label, hex::encode(&ps));
        let v = outcome(|| pk.verify(None, b"edge", &[0x11u8; 64]));
        ensure!(!v.is_panic(), "entry=Sm2PublicKey::verify input=edge-public-key outcome=panic", "edge point {}: {}", label, v.describe());
    }
    pass(true, "edge-public-key")
}

#[derive(Serialize, Deserialize, Hash, Debug, Clone)]
pub struct Idx {
    pub key: usize,
    pub enc: usize,
}

fn golden_leading_zero() -> Vec<(BigUint, String, usize)> {
    let text = std::fs::read_to_string(format!("{}/corpus/sm2_leading_zero.json", VERIF_ROOT)).unwrap_or_else(|_| "[]".into());
    let v: serde_json::Value = serde_json::from_str(&text).unwrap();
    v.as_array().unwrap().iter().map(|e| (from_be(&hex::decode(e["d"].as_str().unwrap()).unwrap()), e["coord"].as_str().unwrap().to_string(), e["zeros"].as_u64().unwrap() as usize)).collect()
}

pub fn run(ctx: &Ctx) {
    let pr = r2::params();
    let n = pr.n.clone();
    ctx.set_rule(
        "key cases: d from the edge-biased generator plus stored scalars whose public point has a coordinate with 2 or 3 leading zero bytes (found by an off-line walk) and a run-time walk for 1 leading zero byte, both y parities; \
         every key goes through SEC1 compressed/uncompressed bytes, hex (lower/upper case), SPKI DER/PEM (LF, CRLF, FromStr), PKCS#8 DER/PEM, SEC1 DER, in both directions and against documents written by an independent strict DER writer \
         (with/without parameters and public key) and by OpenSSL. Malformed inputs: every length 0..=70 under prefixes 00/02/03/04/06, off-curve and >= p coordinates, malformed hex, every truncation and bit flip of DER documents. \
         ASN.1 ciphertexts: ephemeral k injected so that C1.x / C1.y has 0..3 leading zero bytes or the top bit set, all four (compressed, model) flag combinations. Non-trivial: leading-zero coordinate, compressed form, malformed input, DER-shortening k.",
    );
    ctx.assume("reference DER/PEM writer and strict parser (harness/src/refimpl/der.rs) reproduce OpenSSL 3.0.20's SPKI, PKCS#8 and SM2Cipher documents byte for byte");
    ctx.assume("for corrupted DER documents only 'no panic' and 'whatever is accepted is a valid key' are asserted, not agreement with the reference parser (the der crate may accept or reject harmless variations)");

    // ---- keys
    let key_list = move |seed: u64| {
        let mut v: Vec<KeyCase> = Vec::new();
        for (d, _, _) in golden_leading_zero() {
            v.push(KeyCase { d: gen::hex32(&d) });
        }
        for d in [BigUint::one(), BigUint::from(2u32), &n - 2u32, &n - 3u32] {
            v.push(KeyCase { d: gen::hex32(&d) });
        }
        // run-time walk: 1200 consecutive scalars from a seeded start — about 9 of them have a coordinate with a leading zero byte
        let start = from_be(&expand_bytes(seed ^ 0x19, 24));
        for i in 0..1200u32 {
            v.push(KeyCase { d: gen::hex32(&(&start + i)) });
        }
        v
    };
    let seed = ctx.seed;
    let kl = key_list.clone();
    ctx.listed("public_key_encodings", "SEC1 / hex / SPKI DER / PEM round trips for golden leading-zero keys, edge keys and a walk of 1200 consecutive scalars", move || kl(seed), check_public);
    let kl = key_list.clone();
    ctx.listed("private_key_encodings", "bytes / hex / PKCS#8 DER / PEM / SEC1 round trips for the same keys", move || kl(seed).into_iter().step_by(3).collect(), check_private);
    ctx.generated("generated_keys_public", "proptest d (edge-biased): public-key encodings", ctx.tier.pick(1_000, 20_000), || gen::secret_scalar(&(&r2::params().n - 2u32)).prop_map(|d| KeyCase { d }), check_public);
    ctx.generated("generated_keys_private", "proptest d (edge-biased): private-key encodings", ctx.tier.pick(600, 10_000), || gen::secret_scalar(&(&r2::params().n - 2u32)).prop_map(|d| KeyCase { d }), check_private);

    ctx.listed("openssl_documents", "12 OpenSSL key pairs: PKCS#8 PEM, SEC1-in-PKCS#8 DER, SPKI PEM/DER decode to the expected d / point", || (0..corpus::openssl()["sm2"].as_array().unwrap().len()).map(|key| Idx { key, enc: 0 }).collect(), |c| {
        let k = &corpus::openssl()["sm2"][c.key];
        let d = corpus::hexv(&k["d"]);
        let pubk = corpus::hexv(&k["pub"]);
        let q = r2::decode_point(&pubk).unwrap();
        let sk = lib_ok!("Sm2PrivateKey::from_pkcs8_pem(openssl)", Sm2PrivateKey::from_pkcs8_pem(k["pkcs8_pem"].as_str().unwrap()));
        ensure!(sk.to_bytes_be() == d && pk_point(&sk.public_key)? == q, "entry=Sm2PrivateKey::from_pkcs8_pem outcome=wrong-key", "OpenSSL key {}", c.key);
        let pk = lib_ok!("Sm2PublicKey::from_public_key_pem(openssl)", Sm2PublicKey::from_public_key_pem(k["spki_pem"].as_str().unwrap()));
        ensure!(pk_point(&pk)? == q, "entry=Sm2PublicKey::from_public_key_pem outcome=wrong-point", "OpenSSL key {}", c.key);
        let pk2 = lib_ok!("Sm2PublicKey::from_public_key_der(openssl)", Sm2PublicKey::from_public_key_der(&corpus::hexv(&k["spki_der"])));
        ensure!(pk_point(&pk2)? == q, "entry=Sm2PublicKey::from_public_key_der outcome=wrong-point", "OpenSSL key {}", c.key);
        // the library's documents for this key equal OpenSSL's (recorded, not required)
        let same = pk.to_public_key_der().map(|d| d.as_bytes().to_vec()).ok() == Some(corpus::hexv(&k["spki_der"]));
        pass(true, if same { "openssl/der-identical" } else { "openssl/der-differs" })
    });

    // ---- malformed
    ctx.exhaustive("point_bytes_every_length", "every length 0..=70 x prefixes {00,02,03,04,06,07} around a valid point's coordinates", move || {
        let q = r2::g_mul(&(from_be(&expand_bytes(seed ^ 0x77, 32)) % &r2::params().n));
        let (x, y) = r2::xy(&q).unwrap();
        let mut body = x.to_vec();
        body.extend_from_slice(&y);
        body.extend_from_slice(&[0x5a; 8]);
        let mut v = Vec::new();
        for prefix in [0u8, 2, 3, 4, 6, 7] {
            for len in 0..=70usize {
                let mut b = vec![prefix];
                b.extend_from_slice(&body[..len.saturating_sub(1).min(body.len())]);
                b.truncate(len);
                v.push(PointBytes { bytes: Hex(b) });
            }
        }
        v
    }, check_point_bytes);

    ctx.generated("point_bytes_generated", "proptest: valid encodings with one coordinate nudged / replaced by >= p / prefix changed / parity flipped", ctx.tier.pick(3_000, 60_000), || {
        (gen::secret_scalar(&(&r2::params().n - 2u32)), 0..8u8, any::<u8>()).prop_map(|(d, kind, v)| {
            let pr = r2::params();
            let q = r2::g_mul(&from_be(&d));
            let mut b = if kind & 1 == 0 { r2::encode_uncompressed(&q) } else { r2::encode_compressed(&q) };
            match kind >> 1 {
                0 => {}
                1 => {
                    let i = 1 + (v as usize % (b.len() - 1));
                    b[i] ^= 1 << (v % 8);
                }
                2 => b[0] = v,
                _ => {
                    // coordinate >= p: x = p + small (32 bytes)
                    let xe = pr.p + BigUint::from(v);
                    b[1..33].copy_from_slice(&to32(&xe));
                }
            }
            PointBytes { bytes: Hex(b) }
        })
    }, check_point_bytes);

    ctx.listed("special_coordinate_encodings", "encodings whose coordinates are 0, 1, p-1, p, n, 2^256-1 in every combination, under every prefix 00/02/03/04/06/07 and lengths 33/65 (the pair (0,0) is the way some encoders write the point at infinity: it is not a curve point); x = 0 is a genuine abscissa, so 02/03||0 and 04||0||sqrt(b) must decode", || {
        let pr = r2::params();
        let vals: Vec<BigUint> = vec![BigUint::zero(), BigUint::one(), pr.p - 1u32, pr.p.clone(), pr.n.clone(), (BigUint::one() << 256) - 1u32];
        let mut v = Vec::new();
        for prefix in [0u8, 2, 3, 4, 6, 7] {
            for x in &vals {
                let mut b = vec![prefix];
                b.extend_from_slice(&to32(x));
                v.push(PointBytes { bytes: Hex(b.clone()) });
                for y in &vals {
                    let mut c = b.clone();
                    c.extend_from_slice(&to32(y));
                    v.push(PointBytes { bytes: Hex(c) });
                }
            }
        }
        // the two genuine points with x = 0
        let zero = r2::fp(&BigUint::zero());
        if let Some(y) = pr.curve.b.sqrt_3mod4() {
            for yy in [y.clone(), y.neg()] {
                let q = Some((zero.clone(), yy));
                v.push(PointBytes { bytes: Hex(r2::encode_uncompressed(&q)) });
                v.push(PointBytes { bytes: Hex(r2::encode_compressed(&q)) });
            }
        }
        v
    }, check_point_bytes);

    ctx.listed("small_x_plus_p", "on-curve points with small x encoded as x + p (non-canonical alias), compressed and uncompressed", || {
        let pr = r2::params();
        let mut v = Vec::new();
        let mut x = BigUint::zero();
        while v.len() < 40 {
            let xf = r2::fp(&x);
            if let Some(y) = xf.sqr().mul(&xf).add(&pr.curve.a.mul(&xf)).add(&pr.curve.b).sqrt_3mod4() {
                let xe = to32(&(&x + pr.p));
                let mut b = vec![4u8];
                b.extend_from_slice(&xe);
                b.extend_from_slice(&y.bytes());
                v.push(PointBytes { bytes: Hex(b) });
                let mut b = vec![2 | (y.bytes()[31] & 1)];
                b.extend_from_slice(&xe);
                v.push(PointBytes { bytes: Hex(b) });
            }
            x += 1u32;
        }
        v
    }, check_point_bytes);

    ctx.exhaustive("private_key_every_length", "private key byte strings of every length 0..=70", || (0..=70usize).map(|l| SkBytes { bytes: Hex(expand_bytes(l as u64 + 99, l)) }).collect(), check_sk_bytes);

    ctx.listed("malformed_hex", "odd-length, non-hex, empty and junk hex strings", || {
        ["", "0", "04", "zz", "0g", "04abc", "  04", "04\n", "0x04", "４４", "04 04", "+-", "FFFFFFFFFFFFFFFFFFFFFFFFFFFFFFFFFFFFFFFFFFFFFFFFFFFFFFFFFFFFFFFFF"].iter().map(|s| HexStr { text: s.to_string() }).collect()
    }, check_bad_hex);

    ctx.exhaustive("der_truncations_and_flips", "every truncation, every single-bit flip and a trailing byte for SPKI and two PKCS#8 documents of one key", move || {
        let d = gen::hex32(&(from_be(&expand_bytes(seed ^ 0xde7, 32)) % (&r2::params().n - 2u32) + 1u32));
        let mut v = Vec::new();
        for doc in 0..3u8 {
            for pos in 0..160u16 {
                v.push(DerMut { d: d.clone(), doc, edit: None, pos });
                for bit in 0..8u8 {
                    v.push(DerMut { d: d.clone(), doc, edit: Some(bit), pos });
                }
                v.push(DerMut { d: d.clone(), doc, edit: Some(8), pos });
            }
            v.push(DerMut { d: d.clone(), doc, edit: Some(9), pos: 0 });
        }
        v
    }, check_der_mut);

    // ---- ASN.1 ciphertexts
    ctx.listed("asn1_golden_and_edge_k", "ephemeral k whose C1 has 2..3 leading zero bytes (stored), edge k, x 4 flag combinations", move || {
        let mut ks: Vec<BigUint> = golden_leading_zero().into_iter().map(|(d, _, _)| d).collect();
        ks.extend([BigUint::one(), BigUint::from(2u32), &r2::params().n - 1u32]);
        let mut v = Vec::new();
        for (i, k) in ks.iter().enumerate() {
            for cfg in 0..4u8 {
                v.push(Asn1Case { d: gen::hex32(&(from_be(&expand_bytes(seed ^ 0xa51, 32)) % (&r2::params().n - 2u32) + 1u32)), k: gen::hex32(k), msg_len: 1 + i * 13 % 90, msg_seed: i as u64, compressed: cfg & 1 == 1, c1c3c2: cfg & 2 == 2 });
            }
        }
        v
    }, check_asn1);

    ctx.listed("asn1_walk_k", "a walk of 800 consecutive k (about 6 with a leading zero byte in C1, half with a top bit set), uncompressed C1C3C2", move || {
        let start = from_be(&expand_bytes(seed ^ 0xa52, 20));
        (0..800u32).map(|i| Asn1Case { d: gen::hex32(&BigUint::from(0x1234_5678u32)), k: gen::hex32(&(&start + i)), msg_len: 1 + (i as usize % 70), msg_seed: i as u64, compressed: false, c1c3c2: true }).collect()
    }, check_asn1);

    ctx.generated("asn1_generated", "proptest (d, k, message, flags)", ctx.tier.pick(800, 20_000), || {
        let n = r2::params().n.clone();
        (gen::secret_scalar(&(&n - 2u32)), gen::secret_scalar(&(&n - 1u32)), 1..=300usize, any::<u64>(), any::<bool>(), any::<bool>())
            .prop_map(|(d, k, msg_len, msg_seed, compressed, c1c3c2)| Asn1Case { d, k, msg_len, msg_seed, compressed, c1c3c2 })
    }, check_asn1);

    ctx.cold("cold_start_public_key_codecs", "public-key encodings as the first library operations of a fresh process", || (0..2u64).map(|i| KeyCase { d: Hex(expand_bytes(i ^ 0xc19d, 32)) }).collect(), check_public);
    ctx.cold("cold_start_private_key_codecs", "private-key encodings as the first library operations of a fresh process", || (0..2u64).map(|i| KeyCase { d: Hex(expand_bytes(i ^ 0xc19e, 32)) }).collect(), check_private);
    ctx.cold("cold_start_asn1", "ASN.1 ciphertext round trip as the first library operations of a fresh process", || {
        (0..2u64).map(|i| Asn1Case { d: Hex(expand_bytes(i ^ 0xc19f, 32)), k: Hex(expand_bytes(i ^ 0xc1a0, 32)), msg_len: 20 + i as usize, msg_seed: i, compressed: i == 1, c1c3c2: true }).collect()
    }, check_asn1);

    ctx.listed("edge_point_public_keys", "boundary points of the curve (x next to 0, n, p, powers of two, Montgomery limb patterns, y with a leading zero byte) as public keys: every decoder, re-encoding, SPKI", || (0..edge_points().len()).collect::<Vec<usize>>(), check_edge_public);

    ctx.listed("near_curve_public_keys", "points off the curve but on a neighbouring equation with one constant changed (a+-1, a+2, a=0, a=+3, 2a, b+-1, b=0, -b), abscissas at representation boundaries incl. those where the Montgomery image of x, x^2 or x^3 is next to 0 or p, offered as uncompressed public keys to every decoder: all must refuse", || (0..near_curve_points().len()).collect::<Vec<usize>>(), |i: &usize| {
        let (label, x, y) = &near_curve_points()[*i];
        let mut enc = vec![4u8];
        enc.extend_from_slice(&to32(x));
        enc.extend_from_slice(&to32(y));
        let doc = der::spki(&enc);
        let pem = der::pem("PUBLIC KEY", &doc, "\n");
        let tries: Vec<(&str, Outcome<()>)> = vec![
            ("Sm2PublicKey::new", outcome(|| Sm2PublicKey::new(&enc).map(|_| ()))),
            ("Sm2PublicKey::from_hex_string", outcome(|| Sm2PublicKey::from_hex_string(&hex::encode(&enc)).map(|_| ()))),
            ("Sm2PublicKey::from_public_key_der", outcome(|| Sm2PublicKey::from_public_key_der(&doc).map(|_| ()))),
            ("Sm2PublicKey::from_public_key_pem", outcome(|| Sm2PublicKey::from_public_key_pem(&pem).map(|_| ()))),
        ];
        for (entry, o) in tries {
            match o {
                Outcome::Ok(()) => return fail(format!("entry={} input=off-curve outcome=accepted input=near-curve", entry), format!("{} {}", label, hex::encode(&enc))),
                Outcome::Panic(p) => return fail(format!("entry={} input=off-curve outcome=panic", entry), p),
                Outcome::Err(_) => {}
            }
        }
        pass(true, "near-curve")
    });

    ctx.exhaustive("key_document_field_length_grid", "well-formed PKCS#8 envelopes whose private-key OCTET STRING has every length 0..=40 and whose public-key BIT STRING is absent or has every length 0..=70 (and the SPKI with that public key): never a panic; a key only when the scalar has 32 bytes", || {
        let mut v = Vec::new();
        for dlen in 0..=40usize {
            v.push(KeyLens { dlen, plen: None });
            for plen in [0usize, 1, 32, 33, 34, 64, 65, 66] {
                v.push(KeyLens { dlen, plen: Some(plen) });
            }
        }
        for plen in 0..=70usize {
            v.push(KeyLens { dlen: 32, plen: Some(plen) });
        }
        v
    }, check_key_lens);

    ctx.exhaustive("key_document_shapes", "SPKI and PKCS#8 documents (DER and PEM) around a genuine key with 6 algorithm OIDs x 10 AlgorithmIdentifier parameter shapes (curve OID, absent, NULL, another curve, empty / explicit SEQUENCE, INTEGER, OCTET STRING, extra element, empty OID) x ECPrivateKey parameter / version / public-key shapes: never a panic, an accepted document yields the embedded key, the standard shape is accepted", || {
        let mut v = Vec::new();
        for alg in 0..6u8 {
            for params in 0..10u8 {
                for pem in [false, true] {
                    for inner in 0..45u8 {
                        if !(alg == 0 && params <= 3) && inner % 7 != (alg + params) % 7 {
                            continue;
                        }
                        v.push(KeyDocShape { alg, params, inner_params: inner % 5, inner_version: (inner / 5) % 3, inner_public: inner / 15, pem });
                    }
                }
            }
        }
        v
    }, check_key_doc_shape);

    ctx.exhaustive("cipher_document_shapes", "SM2Cipher documents around a genuine ciphertext with 6 shapes per INTEGER (minimal, redundant 00, negative, empty, wrong tag, long-form length) x 6 hash shapes x 5 ciphertext shapes x 7 outer shapes (long-form / indefinite length, extra element, trailing byte, SET, overstated length) — all single and pairwise deviations plus a diagonal: never a panic, an accepted document yields the message, the standard shape is accepted", || {
        let mut v = Vec::new();
        for x in 0..6u8 {
            for y in 0..6u8 {
                for hash in 0..6u8 {
                    for c2 in 0..5u8 {
                        for outer in 0..7u8 {
                            // all pairs of fields at full resolution, the other fields standard; plus a diagonal through the full grid
                            let nonstd = (x != 0) as u8 + (y != 0) as u8 + (hash != 0) as u8 + (c2 != 0) as u8 + (outer != 0) as u8;
                            if nonstd <= 2 || (x + 2 * y + 3 * hash + 5 * c2 + outer) % 11 == 0 {
                                v.push(CipherDocShape { x, y, hash, c2, outer, compressed: (x + y + hash + c2 + outer) % 2 == 1 });
                            }
                        }
                    }
                }
            }
        }
        v
    }, check_cipher_doc_shape);

    ctx.exhaustive("asn1_integer_length_grid", "SM2Cipher documents whose x and y INTEGERs have every content length 0..=36 x 0..=36 (both flag values): never a panic; a plaintext only if it is the right one", || {
        let mut v = Vec::new();
        for lx in 0..=36usize {
            for ly in 0..=36usize {
                for compressed in [false, true] {
                    v.push(Asn1Lens { lx, ly, compressed });
                }
            }
        }
        v
    }, check_asn1_lens);

    ctx.listed("asn1_edge_points", "SM2Cipher documents whose (x, y) is a boundary point, written by the reference DER writer, x 4 flag combinations", move || {
        let mut v = Vec::new();
        for point in 0..edge_points().len() {
            for cfg in 0..4u8 {
                v.push(EdgeAsn1 { d: gen::hex32(&(from_be(&expand_bytes(seed ^ 0xa53, 32)) % (&r2::params().n - 2u32) + 1u32)), point, msg_len: 1 + (point * 5 + cfg as usize) % 60, compressed: cfg & 1 == 1, c1c3c2: cfg & 2 == 2 });
            }
        }
        v
    }, check_edge_asn1);

    ctx.listed("asn1_openssl_documents", "72 SM2Cipher documents written by OpenSSL decrypt through decrypt_asn1", || {
        let mut v = Vec::new();
        for (key, k) in corpus::openssl()["sm2"].as_array().unwrap().iter().enumerate() {
            for enc in 0..k["encs"].as_array().unwrap().len() {
                v.push(Idx { key, enc });
            }
        }
        v
    }, |c| {
        let k = &corpus::openssl()["sm2"][c.key];
        let e = &k["encs"][c.enc];
        let d = from_be(&corpus::hexv(&k["d"]));
        let (msg, doc) = (corpus::hexv(&e["msg"]), corpus::hexv(&e["der"]));
        let sk = lib_sk(&d).map_err(|e| Fail { key: "entry=Sm2PrivateKey::new input=d-in-[1,n-2] outcome=rejected".into(), detail: e })?;
        let got = outcome(|| sk.decrypt_asn1(&doc, false, Sm2Model::C1C3C2));
        ensure!(got == Outcome::Ok(msg.clone()), "entry=Sm2PrivateKey::decrypt_asn1 input=conforming-document outcome=failure", "OpenSSL document {}/{}: {}", c.key, c.enc, got.describe());
        pass(true, "openssl-asn1")
    });
}
