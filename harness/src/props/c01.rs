//! C01 — SM3 digest equals GB/T 32905 for every message; purity.

use proptest::prelude::*;
use rayon::prelude::*;
use serde::{Deserialize, Serialize};

use crate::corpus;
use crate::engine::*;
use crate::refimpl::sm3 as rsm3;

#[derive(Serialize, Deserialize, Hash, Debug, Clone, PartialEq, Eq)]
pub struct Msg {
    pub len: usize,
    /// 0: 0x00, 1: 0xFF, 2: i mod 251, 3: pseudo-random from `seed`, 4: single bit `seed` set
    pub class: u8,
    pub seed: u64,
}

impl Msg {
    pub fn bytes(&self) -> Vec<u8> {
        match self.class {
            0 => vec![0u8; self.len],
            1 => vec![0xFFu8; self.len],
            2 => (0..self.len).map(|i| (i % 251) as u8).collect(),
            4 => {
                let mut v = vec![0u8; self.len];
                let bit = self.seed as usize;
                if bit / 8 < self.len {
                    v[bit / 8] |= 0x80 >> (bit % 8);
                }
                v
            }
            _ => expand_bytes(self.seed, self.len),
        }
    }
}

fn nontrivial(len: usize) -> bool {
    len >= 56 || matches!(len % 64, 55..=63 | 0)
}

fn len_class(len: usize) -> String {
    let m = len % 64;
    let b = if len < 56 {
        "1blk"
    } else if len < 120 {
        "2blk"
    } else if len < 65536 {
        "multi"
    } else {
        "huge"
    };
    let e = match m {
        0 => "m0",
        55 => "m55",
        56 => "m56",
        57..=62 => "m57-62",
        63 => "m63",
        _ => "mid",
    };
    format!("{}/{}", b, e)
}

fn check_msg(m: &Msg) -> CaseResult {
    let data = m.bytes();
    let want = rsm3::sm3(&data);
    let got = catch(|| gm_sm3::sm3_hash(&data));
    match got {
        Ok(d) => {
            ensure!(
                d == want,
                "entry=sm3_hash outcome=wrong-digest",
                "len={} class={} seed={} library={} reference={}",
                m.len,
                m.class,
                m.seed,
                hex::encode(d),
                hex::encode(want)
            );
        }
        Err(p) => return fail("entry=sm3_hash outcome=panic", format!("len={} panic={}", m.len, p)),
    }
    if m.len <= 4096 {
        // the same bytes as a window at an odd offset of a larger buffer: the digest may not depend on where the message lives
        let off = 1 + (m.seed % 7) as usize;
        let mut buf = vec![0xC3u8; off];
        buf.extend_from_slice(&data);
        buf.push(0x3C);
        let d2 = catch(|| gm_sm3::sm3_hash(&buf[off..off + data.len()])).map_err(|p| Fail { key: "entry=sm3_hash outcome=panic".into(), detail: p })?;
        ensure!(d2 == want, "entry=sm3_hash outcome=depends-on-buffer-alignment", "len={} at byte offset {} of a buffer: {}", m.len, off, hex::encode(d2));
    }
    pass(nontrivial(m.len), len_class(m.len))
}

#[derive(Serialize, Deserialize, Hash, Debug, Clone)]
pub struct History {
    pub msgs: Vec<Msg>,
    /// indices into msgs, the order in which thread 0 hashes them; thread 1 uses the reverse
    pub order: Vec<u16>,
}

fn check_history(h: &History) -> CaseResult {
    if h.msgs.is_empty() {
        return pass(false, "empty");
    }
    let datas: Vec<Vec<u8>> = h.msgs.iter().map(|m| m.bytes()).collect();
    let wants: Vec<[u8; 32]> = datas.iter().map(|d| rsm3::sm3(d)).collect();
    let idx: Vec<usize> = h.order.iter().map(|i| (*i as usize * datas.len()) >> 16).collect();
    let run = |order: Vec<usize>| -> Result<Vec<(usize, [u8; 32])>, String> {
        catch(|| order.iter().map(|&i| (i, gm_sm3::sm3_hash(&datas[i]))).collect())
    };
    let rev: Vec<usize> = idx.iter().rev().cloned().collect();
    let (a, b) = std::thread::scope(|s| {
        let t1 = s.spawn(|| run(idx.clone()));
        let t2 = s.spawn(|| run(rev.clone()));
        (t1.join().unwrap(), t2.join().unwrap())
    });
    let mut repeats = 0;
    let mut seen = std::collections::HashSet::new();
    for r in [a, b] {
        match r {
            Err(p) => return fail("entry=sm3_hash outcome=panic", p),
            Ok(v) => {
                for (i, d) in v {
                    if !seen.insert(i) {
                        repeats += 1;
                    }
                    ensure!(
                        d == wants[i],
                        "entry=sm3_hash history outcome=wrong-digest",
                        "message #{} (len {}) hashed inside a history gives {} but reference {}",
                        i,
                        datas[i].len(),
                        hex::encode(d),
                        hex::encode(wants[i])
                    );
                }
            }
        }
    }
    pass(repeats > 0 && h.msgs.len() > 1, format!("msgs={}", h.msgs.len().min(6)))
}

#[derive(Serialize, Deserialize, Hash, Debug, Clone)]
pub struct Large {
    pub len: u64,
    pub mul: u8,
}

fn check_large(l: &Large) -> CaseResult {
    let n = l.len as usize;
    let mut data = vec![0u8; n];
    let mul = l.mul as usize | 1;
    data.par_chunks_mut(1 << 20).enumerate().for_each(|(c, ch)| {
        let base = c << 20;
        for (i, b) in ch.iter_mut().enumerate() {
            let j = base + i;
            *b = (j.wrapping_mul(mul) ^ (j >> 13)) as u8;
        }
    });
    let (want, got) = std::thread::scope(|s| {
        let t = s.spawn(|| rsm3::sm3(&data));
        let g = catch(|| gm_sm3::sm3_hash(&data));
        (t.join().unwrap(), g)
    });
    match got {
        Ok(d) => ensure!(
            d == want,
            if n >= 1 << 29 { "entry=sm3_hash input=len>=2^29 outcome=wrong-digest" } else { "entry=sm3_hash outcome=wrong-digest" },
            "len={} library={} reference={}",
            n,
            hex::encode(d),
            hex::encode(want)
        ),
        Err(p) => return fail("entry=sm3_hash input=len>=2^29 outcome=panic", p),
    }
    pass(true, format!("2^{}", 63 - (l.len.leading_zeros() as usize)))
}

#[derive(Serialize, Deserialize, Hash, Debug, Clone)]
pub struct CorpusCase {
    pub index: usize,
}

pub fn run(ctx: &Ctx) {
    ctx.set_rule(
        "messages are (length, content class, seed) descriptors: every length 0..=4096 x {00, FF, i mod 251, random}; \
         every single-bit-set 192-byte message; proptest lengths biased to 64k+{0,1,54..57,62,63}; interleaved/threaded \
         histories; one message of 2^29+3 bytes (bit length > 2^32); OpenSSL `dgst -sm3` corpus. Oracle: independent streaming SM3 \
         written from GB/T 32905. Non-trivial: len >= 56 (>= 2 padded blocks) or len mod 64 in {55..63, 0}; distinct by hash of the descriptor.",
    );
    ctx.assume("reference SM3 (harness/src/refimpl/sm3.rs) anchored on the two GB/T 32905 Annex A vectors and the OpenSSL corpus");
    ctx.assume("lengths beyond 2^32+1 bytes (quantifier goes to 2^61) are memory-bound and not explored");

    ctx.cold("cold_start_lengths", "sm3_hash as the first call of a fresh process, lengths around the padding boundaries", || {
        [0usize, 1, 3, 55, 56, 57, 62, 63, 64, 65, 119, 120, 121, 128, 1000].iter().map(|len| Msg { len: *len, class: 3, seed: *len as u64 ^ 0xc01d }).collect()
    }, check_msg);

    ctx.cold("cold_start_concurrent", "eight threads of a fresh process hash their first message at the same moment (lengths on both sides of the padding boundary)", || {
        vec![[3usize, 55, 56, 57, 62, 63, 64, 120].iter().map(|len| Msg { len: *len, class: 3, seed: *len as u64 ^ 0xc01e }).collect::<Vec<_>>()]
    }, |steps: &Vec<Msg>| par(steps, check_msg));

    ctx.exhaustive(
        "lengths_above_size_thresholds",
        "lengths T + 64 b + r for T in {8192, 16384, 65536, 131072, 1048576}, b = 0..=8 whole blocks (every residue of an unroll factor up to 8) and r in {0, 1, 55, 56, 63}; plus every length T-72..=T+8 for T in {8192, 16384, 65536} (buffer caps that forget the padding): bulk paths that only large inputs take",
        || {
            let mut v = Vec::new();
            for t in [8192usize, 16384, 65536, 131072, 1 << 20] {
                for b in 0..=8usize {
                    for r in [0usize, 1, 55, 56, 63] {
                        let len = t + 64 * b + r;
                        v.push(Msg { len, class: 3, seed: len as u64 ^ 0x1a46 });
                    }
                }
            }
            for t in [8192usize, 16384, 65536] {
                for len in t - 72..=t + 8 {
                    v.push(Msg { len, class: if len % 2 == 0 { 3 } else { 0 }, seed: len as u64 ^ 0x1a47 });
                }
            }
            v
        },
        check_msg,
    );

    ctx.exhaustive(
        "lengths_0_4096",
        "all lengths 0..=4096 x 4 content classes",
        || {
            let mut v = Vec::new();
            for len in 0..=4096usize {
                for class in 0..4u8 {
                    v.push(Msg { len, class, seed: len as u64 * 4 + class as u64 });
                }
            }
            v
        },
        check_msg,
    );

    ctx.exhaustive(
        "single_bit_192",
        "all 1536 single-bit-set 192-byte messages",
        || (0..1536u64).map(|b| Msg { len: 192, class: 4, seed: b }).collect(),
        check_msg,
    );

    let max = ctx.tier.pick(1usize << 16, 1usize << 20);
    ctx.generated(
        "generated_messages",
        "proptest (len biased to block boundaries, class, seed)",
        ctx.tier.pick(4000, 60000),
        || {
            (crate::gen::boundary_len(max), 0..4u8, any::<u64>())
                .prop_map(|(len, class, seed)| Msg { len, class, seed })
        },
        check_msg,
    );

    ctx.generated(
        "purity_histories",
        "vec of messages hashed in a generated interleaving on two threads; each digest == reference",
        ctx.tier.pick(300, 5000),
        || {
            (
                prop::collection::vec(
                    (crate::gen::boundary_len(2048), 0..4u8, any::<u64>()).prop_map(|(len, class, seed)| Msg { len, class, seed }),
                    1..6,
                ),
                prop::collection::vec(any::<u16>(), 2..24),
            )
                .prop_map(|(msgs, order)| History { msgs, order })
        },
        check_history,
    );

    ctx.listed(
        "openssl_corpus",
        "309 (message, digest) pairs produced by openssl dgst -sm3",
        || (0..corpus::openssl()["sm3"].as_array().unwrap().len()).map(|index| CorpusCase { index }).collect(),
        |c| {
            let e = &corpus::openssl()["sm3"][c.index];
            let msg = corpus::hexv(&e["msg"]);
            let want = corpus::hexv(&e["digest"]);
            let r = rsm3::sm3(&msg);
            ensure!(r[..] == want[..], "reference-vs-openssl sm3", "reference SM3 disagrees with OpenSSL on corpus entry {}", c.index);
            let got = catch(|| gm_sm3::sm3_hash(&msg)).map_err(|p| Fail { key: "entry=sm3_hash outcome=panic".into(), detail: p })?;
            ensure!(got[..] == want[..], "entry=sm3_hash outcome=wrong-digest", "corpus entry {} len {}: library {} openssl {}", c.index, msg.len(), hex::encode(got), hex::encode(&want));
            pass(nontrivial(msg.len()), len_class(msg.len()))
        },
    );

    ctx.listed_seq(
        "large_messages",
        "messages whose bit length does not fit in 32 bits",
        || match ctx.tier {
            Tier::Quick => {
                // every bit 3..=28 of the 64-bit length field set at least once, then the >32-bit case
                let mut v: Vec<Large> = (7..=22).map(|k| Large { len: 1u64 << k, mul: k as u8 }).collect();
                v.push(Large { len: (1 << 26) - 1, mul: 3 });
                v.push(Large { len: (1 << 29) + 3, mul: 31 });
                v
            }
            Tier::Thorough => vec![
                Large { len: (1 << 26) - 1, mul: 3 },
                Large { len: (1 << 29) + 3, mul: 31 },
                Large { len: (1 << 29) + (1 << 28) + (1 << 27) + (1 << 26) + 3, mul: 11 },
                Large { len: 1 << 29, mul: 7 },
                Large { len: (1 << 29) + 56, mul: 13 },
                Large { len: (1u64 << 32) + 1, mul: 5 },
            ],
        },
        check_large,
    );
}
