//! Glue between the big-integer SM9 reference and the gm-sm9 library types.

use gm_sm9::points::{Point, TwistPoint};
use gm_sm9::u256::U256;
use gm_sm9::verif_hooks as hk;
use num_bigint::BigUint;
use num_traits::{One, Zero};

use crate::refimpl::ec::Pt;
use crate::refimpl::field::{from_limbs, mod_inv, to_limbs, Fld, Fp, Fp2};
use crate::refimpl::sm9::{self as r9, F12};

pub fn r256() -> BigUint {
    BigUint::one() << 256
}

pub fn rinv() -> &'static BigUint {
    use std::sync::OnceLock;
    static R: OnceLock<BigUint> = OnceLock::new();
    R.get_or_init(|| mod_inv(&(r256() % r9::p_static()), r9::p_static()).unwrap())
}

pub fn to_mont(x: &BigUint) -> U256 {
    to_limbs(&((x << 256) % r9::p_static()))
}

pub fn from_mont(l: &U256) -> BigUint {
    (from_limbs(l) * rinv()) % r9::p_static()
}

pub fn canonical(l: &U256) -> bool {
    &from_limbs(l) < r9::p_static()
}

pub fn lib_fp2(a: &Fp2) -> hk::Fp2 {
    hk::fp2_new([to_mont(&a.c0.v), to_mont(&a.c1.v)])
}

pub fn ref_fp2(a: &hk::Fp2) -> Fp2 {
    let p = hk::fp2_parts(a);
    r9::fp2(&from_mont(&p[0]), &from_mont(&p[1]))
}

pub fn fp2_canonical(a: &hk::Fp2) -> bool {
    let p = hk::fp2_parts(a);
    canonical(&p[0]) && canonical(&p[1])
}

/// library Fp12 -> polynomial basis
pub fn ref_f12(a: &hk::Fp12) -> F12 {
    let parts = hk::fp12_parts(a);
    let mut out = r9::f12_zero();
    for (flat, c) in parts.iter().enumerate() {
        out.0[r9::tower_exponent(flat)] = from_mont(c);
    }
    out
}

pub fn lib_f12(a: &F12) -> hk::Fp12 {
    let mut parts = [[0u64; 4]; 12];
    for flat in 0..12 {
        parts[flat] = to_mont(&a.0[r9::tower_exponent(flat)]);
    }
    hk::fp12_new(parts)
}

pub fn f12_canonical(a: &hk::Fp12) -> bool {
    hk::fp12_parts(a).iter().all(canonical)
}

/// Fp4 (b0 + b1 v, v = w^3) embedded in the polynomial basis
pub fn ref_f4(a: &hk::Fp4) -> F12 {
    let parts = hk::fp4_parts(a);
    let mut out = r9::f12_zero();
    for (flat, c) in parts.iter().enumerate() {
        let (j, k) = (flat / 2, flat % 2);
        out.0[3 * j + 6 * k] = from_mont(c);
    }
    out
}

pub fn lib_f4(a: &F12) -> hk::Fp4 {
    hk::fp4_new([to_mont(&a.0[0]), to_mont(&a.0[6]), to_mont(&a.0[3]), to_mont(&a.0[9])])
}

pub fn ref_f2_as_f12(a: &hk::Fp2) -> F12 {
    let parts = hk::fp2_parts(a);
    let mut out = r9::f12_zero();
    out.0[0] = from_mont(&parts[0]);
    out.0[6] = from_mont(&parts[1]);
    out
}

pub fn lib_f2_from_f12(a: &F12) -> hk::Fp2 {
    hk::fp2_new([to_mont(&a.0[0]), to_mont(&a.0[6])])
}

// ---- G1

pub fn lib_g1(q: &Pt<Fp>, lambda: &BigUint) -> Point {
    let p = r9::p_static();
    match q {
        None => {
            let l = lambda % p;
            if l.is_zero() || l.is_one() {
                Point::zero()
            } else {
                Point { x: to_mont(&((&l * &l) % p)), y: to_mont(&((&l * &l * &l) % p)), z: [0, 0, 0, 0] }
            }
        }
        Some((x, y)) => {
            let l = lambda % p;
            let l2 = (&l * &l) % p;
            let l3 = (&l2 * &l) % p;
            Point { x: to_mont(&((&x.v * &l2) % p)), y: to_mont(&((&y.v * &l3) % p)), z: to_mont(&l) }
        }
    }
}

pub fn ref_g1(pt: &Point) -> Result<Pt<Fp>, String> {
    let p = r9::p_static();
    for (n, c) in [("x", &pt.x), ("y", &pt.y), ("z", &pt.z)] {
        if !canonical(c) {
            return Err(format!("G1 coordinate {} = {:x} is not reduced modulo p", n, from_limbs(c)));
        }
    }
    let z = from_mont(&pt.z);
    if z.is_zero() {
        return Ok(None);
    }
    let zi = mod_inv(&z, p).unwrap();
    let zi2 = (&zi * &zi) % p;
    let zi3 = (&zi2 * &zi) % p;
    Ok(Some((r9::fp(&((from_mont(&pt.x) * zi2) % p)), r9::fp(&((from_mont(&pt.y) * zi3) % p)))))
}

// ---- G2

pub fn lib_g2(q: &Pt<Fp2>, lambda: &Fp2) -> TwistPoint {
    match q {
        None => {
            if lambda.is_zero() {
                TwistPoint::zero()
            } else {
                let zero = lambda.from_u64_like(0);
                TwistPoint { x: lib_fp2(&lambda.sqr()), y: lib_fp2(&lambda.sqr().mul(lambda)), z: lib_fp2(&zero) }
            }
        }
        Some((x, y)) => {
            let l2 = lambda.sqr();
            let l3 = l2.mul(lambda);
            TwistPoint { x: lib_fp2(&x.mul(&l2)), y: lib_fp2(&y.mul(&l3)), z: lib_fp2(lambda) }
        }
    }
}

pub fn ref_g2(pt: &TwistPoint) -> Result<Pt<Fp2>, String> {
    for (n, c) in [("x", &pt.x), ("y", &pt.y), ("z", &pt.z)] {
        if !fp2_canonical(c) {
            return Err(format!("G2 coordinate {} is not reduced modulo p", n));
        }
    }
    let z = ref_fp2(&pt.z);
    if z.is_zero() {
        return Ok(None);
    }
    let zi = z.inv().unwrap();
    let zi2 = zi.sqr();
    let zi3 = zi2.mul(&zi);
    Ok(Some((ref_fp2(&pt.x).mul(&zi2), ref_fp2(&pt.y).mul(&zi3))))
}

pub fn show1(q: &Pt<Fp>) -> String {
    match q {
        None => "O".into(),
        Some((x, y)) => format!("({:?}, {:?})", x, y),
    }
}

pub fn show2(q: &Pt<Fp2>) -> String {
    match q {
        None => "O".into(),
        Some((x, y)) => format!("({:?}, {:?})", x, y),
    }
}

pub fn fp2_one() -> Fp2 {
    r9::fp2(&BigUint::one(), &BigUint::zero())
}

pub fn with_sm9_candidates<T>(cands: Vec<[u8; 32]>, f: impl FnOnce() -> T) -> (Result<T, String>, usize) {
    hk::set_candidates(Some(cands));
    let r = crate::engine::catch(f);
    let left = hk::candidates_left();
    hk::set_candidates(None);
    (r, left)
}

pub fn scalar_limbs(k: &BigUint) -> U256 {
    to_limbs(k)
}

/// Points of G1 = E(Fp): y^2 = x^3 + 5 whose coordinates sit at representation boundaries (x next to 0, N, p, 2^256 - p, powers of two;
/// Montgomery x with all-ones / zero limbs; y with a leading zero byte). The curve has prime order, so every point is in G1.
pub fn g1_edge_points() -> &'static Vec<(String, BigUint, BigUint)> {
    use std::sync::OnceLock;
    static V: OnceLock<Vec<(String, BigUint, BigUint)>> = OnceLock::new();
    V.get_or_init(|| {
        let pr = r9::params();
        let p = pr.p;
        let lift = |x: &BigUint| -> Option<BigUint> {
            let xf = r9::fp(x);
            xf.sqr().mul(&xf).add(&r9::fp_u(5)).sqrt_any().map(|y| y.v)
        };
        let mut out: Vec<(String, BigUint, BigUint)> = Vec::new();
        let mut push = |label: String, x: &BigUint, y: &BigUint| {
            out.push((format!("{}/y", label), x.clone(), y.clone()));
            out.push((format!("{}/-y", label), x.clone(), (p - y) % p));
        };
        let mut walk = |label: &str, start: BigUint, up: bool, take: usize| {
            let mut x = start;
            let mut found = 0;
            let mut steps = 0;
            while found < take && steps < 4000 {
                if &x < p {
                    if let Some(y) = lift(&x) {
                        push(format!("{}{}{}", label, if up { "+" } else { "-" }, steps), &x, &y);
                        found += 1;
                    }
                }
                if up {
                    x += 1u32;
                } else if x.is_zero() {
                    break;
                } else {
                    x -= 1u32;
                }
                steps += 1;
            }
        };
        let one = BigUint::one();
        walk("x=0", BigUint::zero(), true, 2);
        walk("x=p-1", p - 1u32, false, 3);
        walk("x=N", pr.n.clone(), true, 2);
        walk("x=N-1", &pr.n - 1u32, false, 2);
        walk("x=(N+p)/2", (&pr.n + p) >> 1, true, 1);
        walk("x=2^256-p", r256() - p, true, 1);
        walk("x=2^256-p-1", r256() - p - 1u32, false, 1);
        for e in [64u32, 128, 192, 248, 255] {
            walk(&format!("x=2^{}", e), &one << e, true, 1);
            walk(&format!("x=2^{}-1", e), (&one << e) - 1u32, false, 1);
        }
        let m = u64::MAX;
        let pats: [(&str, [Option<u64>; 4]); 6] = [
            ("mont=[M,M,*,*]", [Some(m), Some(m), None, None]),
            ("mont=[0,0,*,*]", [Some(0), Some(0), None, None]),
            ("mont=[*,M,M,*]", [None, Some(m), Some(m), None]),
            ("mont=[M,*,M,*]", [Some(m), None, Some(m), None]),
            ("mont=[M,M,M,*]", [Some(m), Some(m), Some(m), None]),
            ("mont=[*,0,0,0]", [None, Some(0), Some(0), Some(0)]),
        ];
        for (label, pat) in pats.iter() {
            let fill = crate::engine::expand_bytes(0x9ed6e ^ crate::engine::hash64(label), 32);
            for t in 0..4000u64 {
                let mut limbs = [0u64; 4];
                for i in 0..4 {
                    limbs[i] = match pat[i] {
                        Some(v) => v,
                        None => {
                            let base = u64::from_le_bytes(fill[i * 8..i * 8 + 8].try_into().unwrap());
                            let base = if i == 3 { base >> 1 } else { base };
                            base.wrapping_add(t)
                        }
                    };
                }
                if &from_limbs(&limbs) >= p {
                    continue;
                }
                let x = from_mont(&limbs);
                if let Some(y) = lift(&x) {
                    push(label.to_string(), &x, &y);
                    break;
                }
            }
        }
        // plain limbs that tie with the limbs of p in some positions and differ in others (least significant limb first; None = walked until it lifts)
        {
            let pl = to_limbs(p);
            let m = u64::MAX;
            let ties: [(&str, [Option<u64>; 4]); 7] = [
                ("limbs=[p0,>p1,*,<p3]", [Some(pl[0]), Some(pl[1] | 0xF000_0000_0000_0000), None, Some(pl[3] - 2)]),
                ("limbs=[>p0,p1,*,<p3]", [Some(m), Some(pl[1]), None, Some(pl[3] - 1)]),
                ("limbs=[p0,p1,p2,<p3]", [Some(pl[0]), Some(pl[1]), Some(pl[2]), None]),
                ("limbs=[*,p1,p2,p3]", [None, Some(pl[1]), Some(pl[2]), Some(pl[3])]),
                ("limbs=[M,<p1,p2,p3]", [Some(m), None, Some(pl[2]), Some(pl[3])]),
                ("limbs=[0,0,*,p3]", [Some(0), Some(0), None, Some(pl[3])]),
                ("limbs=[p0,p1,*,0]", [Some(pl[0]), Some(pl[1]), None, Some(0)]),
            ];
            for (label, pat) in ties.iter() {
                for t in 0..4000u64 {
                    let mut limbs = [0u64; 4];
                    for i in 0..4 {
                        limbs[i] = match pat[i] {
                            Some(v) => v,
                            None => pl[i].wrapping_sub(1 + t),
                        };
                    }
                    let x = from_limbs(&limbs);
                    if &x >= p {
                        continue;
                    }
                    if let Some(y) = lift(&x) {
                        push(label.to_string(), &x, &y);
                        break;
                    }
                }
            }
        }
        let mut x = from_limbs(&[0x1234_5678_9abc_def0, 0x0fed_cba9_8765_4321, 0x1111_2222_3333_4444, 0x5555_6666_7777_8888]);
        for _ in 0..20_000 {
            if let Some(y) = lift(&x) {
                let y2 = (p - &y) % p;
                if y.bits() <= 248 || y2.bits() <= 248 {
                    push("y-leading-zero-byte".to_string(), &x, &y);
                    break;
                }
            }
            x += 1u32;
        }
        out
    })
}

/// Identities as applications write them — names, mailbox-style strings in several capitalisations, non-ASCII text, strings with blanks at the edges:
/// a pseudo-random byte string never contains '@', a case variant of itself or a trimmed form. Selected by lengths of STRUCTURED_ID and up.
pub const STRUCTURED_ID: usize = 1 << 40;

pub fn structured_identities() -> &'static [&'static str] {
    &["Alice", "Bob", "alice", "ALICE", "alice@example.com", "Alice@Example.COM", "alice@EXAMPLE.com", "ALICE123@YAHOO.COM", "alice123@yahoo.com", "bob@qq.com", "Bob@QQ.com",
      "a@b", "a@B", "@", "user@host@Domain.ORG", "\u{7528}\u{6237}\u{7532}@\u{4f8b}\u{5b50}.CN", "\u{c9}milie", "\u{e9}milie", " alice", "alice ", "alice\n", "node-2", "node", "NODE-2", "0", "00", ""]
}

/// The identity for (seed, len): pseudo-random bytes of that length, or entry (len - STRUCTURED_ID) of the structured list.
pub fn identity(seed: u64, len: usize) -> Vec<u8> {
    if len >= STRUCTURED_ID {
        let l = structured_identities();
        l[(len - STRUCTURED_ID) % l.len()].as_bytes().to_vec()
    } else {
        crate::engine::expand_bytes(seed, len)
    }
}

/// The same identity with the case of every ASCII letter swapped (None when it has no ASCII letter): a different byte string, hence another identity.
pub fn case_variant(id: &[u8]) -> Option<Vec<u8>> {
    if !id.iter().any(|b| b.is_ascii_alphabetic()) {
        return None;
    }
    Some(id.iter().map(|b| if b.is_ascii_lowercase() { b.to_ascii_uppercase() } else if b.is_ascii_uppercase() { b.to_ascii_lowercase() } else { *b }).collect())
}

/// Field elements x of the SM9 base field for which x, x^2 or x^3 has a Montgomery image within a few units of 0 or p, or equal to a power of two / 2^256 - p.
pub fn mont_edge_abscissas() -> &'static Vec<(String, BigUint)> {
    use std::sync::OnceLock;
    static V: OnceLock<Vec<(String, BigUint)>> = OnceLock::new();
    V.get_or_init(|| {
        let p = r9::p_static();
        let ri = rinv() % p;
        let mut targets: Vec<(String, BigUint)> = Vec::new();
        for v in 1..=6u32 {
            targets.push((format!("{}", v), BigUint::from(v)));
            targets.push((format!("p-{}", v), p - v));
        }
        for e in [32u32, 64, 128, 192, 224] {
            targets.push((format!("2^{}", e), BigUint::one() << e));
        }
        targets.push(("2^256-p".into(), r256() - p));
        targets.push(("2^256-p-1".into(), r256() - p - 1u32));
        let cube_exp = if (p % 3u32) == BigUint::from(2u32) { Some((p * 2u32 - 1u32) / 3u32) } else { None };
        let mut out = Vec::new();
        for (name, v) in targets.iter() {
            let t = r9::fp(&(v * &ri % p));
            out.push((format!("mont(x)={}", name), t.v.clone()));
            if let Some(r) = t.sqrt_any() {
                out.push((format!("mont(x^2)={}", name), r.v.clone()));
                out.push((format!("mont(x^2)={}/-x", name), (p - &r.v) % p));
            }
            if let Some(e) = &cube_exp {
                let c = t.pow(e);
                if c.sqr().mul(&c) == t {
                    out.push((format!("mont(x^3)={}", name), c.v.clone()));
                }
            }
        }
        out
    })
}

/// Points (x, y) that are NOT on y^2 = x^3 + 5 but on a neighbouring equation y^2 = x^3 + a'x + b' (b +- 1, 0, -5, 10, 5R, 5R^-1; a' = +-1, -3):
/// what a membership test with one wrong constant, a constant in the wrong domain, one missing reduction or one misplaced carry accepts.
pub fn g1_near_curve_points() -> &'static Vec<(String, BigUint, BigUint)> {
    use std::sync::OnceLock;
    static V: OnceLock<Vec<(String, BigUint, BigUint)>> = OnceLock::new();
    V.get_or_init(|| {
        let pr = r9::params();
        let p = pr.p;
        let mut xs: Vec<(String, BigUint)> = Vec::new();
        for v in 1..=4u32 {
            xs.push((format!("x={}", v), BigUint::from(v)));
            xs.push((format!("x=p-{}", v), p - v));
        }
        xs.extend(mont_edge_abscissas().iter().cloned());
        let zero = r9::fp_u(0);
        let five = r9::fp_u(5);
        let variants: Vec<(String, Fp, Fp)> = vec![
            ("b=6".into(), zero.clone(), r9::fp_u(6)),
            ("b=4".into(), zero.clone(), r9::fp_u(4)),
            ("b=0".into(), zero.clone(), zero.clone()),
            ("b=-5".into(), zero.clone(), five.neg()),
            ("b=10".into(), zero.clone(), r9::fp_u(10)),
            ("b=5R".into(), zero.clone(), five.mul(&r9::fp(&(r256() % p)))),
            ("b=5R^-1".into(), zero.clone(), five.mul(&r9::fp(&(rinv() % p)))),
            ("a=1".into(), r9::fp_u(1), five.clone()),
            ("a=-1".into(), r9::fp_u(1).neg(), five.clone()),
            ("a=-3".into(), r9::fp_u(3).neg(), five.clone()),
        ];
        let mut out = Vec::new();
        for (xl, x) in xs.iter() {
            let xf = r9::fp(x);
            for (vl, a2, b2) in variants.iter() {
                let rhs = xf.sqr().mul(&xf).add(&a2.mul(&xf)).add(b2);
                if let Some(y) = rhs.sqrt_any() {
                    let q = Some((xf.clone(), y.clone()));
                    if y.v.is_zero() || pr.g1.on_curve(&q) {
                        continue;
                    }
                    out.push((format!("{}/{}", xl, vl), x.clone(), y.v.clone()));
                }
            }
        }
        out
    })
}

/// The reference point `q` as a library G1 object in representation `kind`: 0 affine (Z = 1); 1 what the library computes itself ([k]P1 by
/// Point::g_mul, when k is known — otherwise affine); 2 Z = 2; 3 pseudo-random Z; 4 Z whose Montgomery limbs are the plain integer 1 (field element R^-1).
pub fn g1_in_rep(q: &Pt<Fp>, k: Option<&BigUint>, kind: u8, seed: u64) -> Point {
    let p = r9::p_static();
    match (kind % 5, k) {
        (1, Some(k)) => Point::g_mul(&to_limbs(k)),
        (2, _) => lib_g1(q, &BigUint::from(2u32)),
        (3, _) => lib_g1(q, &(crate::refimpl::field::from_be(&crate::engine::expand_bytes(seed ^ 0x9e1, 32)) % (p - 2u32) + 2u32)),
        (4, _) => lib_g1(q, &(rinv() % p)),
        _ => lib_g1(q, &BigUint::one()),
    }
}

/// Same for G2; kind 5: purely imaginary Z.
pub fn g2_in_rep(q: &Pt<Fp2>, k: Option<&BigUint>, kind: u8, seed: u64) -> TwistPoint {
    let p = r9::p_static();
    let rnd = |t: u64| crate::refimpl::field::from_be(&crate::engine::expand_bytes(seed ^ t, 32)) % (p - 2u32) + 2u32;
    let zero = BigUint::zero();
    match (kind % 6, k) {
        (1, Some(k)) => TwistPoint::g_mul(&to_limbs(k)),
        (2, _) => lib_g2(q, &r9::fp2(&BigUint::from(2u32), &zero)),
        (3, _) => lib_g2(q, &r9::fp2(&rnd(0x9e2), &rnd(0x9e3))),
        (4, _) => lib_g2(q, &r9::fp2(&(rinv() % p), &zero)),
        (5, _) => lib_g2(q, &r9::fp2(&zero, &rnd(0x9e4))),
        _ => lib_g2(q, &fp2_one()),
    }
}
