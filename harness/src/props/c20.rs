//! C20 — untrusted input never crashes or hangs an entry point.

use gm_sm2::key::{Sm2Model, Sm2PrivateKey, Sm2PublicKey};
use gm_sm4::{CipherMode, Sm4Cipher, Sm4CipherMode};
use num_bigint::BigUint;
use num_traits::{One, Zero};
use pkcs8::{DecodePrivateKey, DecodePublicKey};
use proptest::prelude::*;
use serde::{Deserialize, Serialize};
use std::str::FromStr;
use std::sync::OnceLock;

use super::sm2util::{lib_pk, lib_sk, with_sm2_candidates};
use super::sm9util::{lib_g1, to_mont, with_sm9_candidates};
use crate::engine::*;
use crate::refimpl::der;
use crate::refimpl::field::{from_be, to32, to_limbs};
use crate::refimpl::sm2 as r2;
use crate::refimpl::sm9 as r9;

#[derive(Serialize, Deserialize, Hash, Debug, Clone)]
pub struct Call {
    pub entry: String,
    pub input: Hex,
}

/// What the error-channel clause demands for this input: Some(true) = must succeed, Some(false) = must be Err, None = either (only "no panic, terminates").
type Expect = Option<bool>;

struct Fixtures {
    d: BigUint,
    sk: Sm2PrivateKey,
    pk: Sm2PublicKey,
    msg: Vec<u8>,
    sig: Vec<u8>,
    cts: Vec<(bool, bool, Vec<u8>)>,
    asn1: Vec<u8>,
    spki: Vec<u8>,
    pkcs8: Vec<u8>,
    sm9_sign: std::sync::Arc<super::c09::Master>,
    sm9_enc: std::sync::Arc<super::c10::Master>,
    sm9_ct: Vec<u8>,
    sm9_h: BigUint,
    sm9_s: Vec<u8>,
}

fn fx() -> &'static Fixtures {
    static F: OnceLock<Fixtures> = OnceLock::new();
    F.get_or_init(|| {
        let n = &r2::params().n;
        let d = from_be(&expand_bytes(0xc20, 32)) % (n - 2u32) + 1u32;
        let k = from_be(&expand_bytes(0xc21, 32)) % (n - 1u32) + 1u32;
        let q = r2::g_mul(&d);
        let msg = b"C20 fixture message".to_vec();
        let sig = r2::sign(&d, b"1234567812345678", &msg, &k).unwrap().to_vec();
        let c = r2::encrypt_with_k(&q, &msg, &k).unwrap();
        let cts = vec![(false, false, c.encode(false, false)), (false, true, c.encode(false, true)), (true, false, c.encode(true, false)), (true, true, c.encode(true, true))];
        let (x, y) = r2::xy(&c.c1).unwrap();
        let asn1 = der::sm2_cipher(&from_be(&x), &from_be(&y), &c.c3, &c.c2);
        let b65 = r2::encode_uncompressed(&q);
        let sm9_sign = super::c09::master(&BigUint::from(0xabcdef01u64));
        let sm9_enc = super::c10::master(&BigUint::from(0x1234_5678u64));
        let r = BigUint::from(0x7777_1234_5678u64);
        let sm9_ct = r9::encrypt_with_r(&sm9_enc.ppube, &sm9_enc.g, b"Bob", &msg, &r).unwrap().encode();
        let ds = r9::sign_key(&sm9_sign.ks, b"Alice").unwrap();
        let (h, s) = r9::sign_with_r(&ds, &sm9_sign.g, &msg, &r).unwrap();
        Fixtures {
            sk: lib_sk(&d).unwrap(),
            pk: lib_pk(&q).unwrap(),
            spki: der::spki(&b65),
            pkcs8: der::pkcs8(&to32(&d), false, Some(&b65)),
            d,
            msg,
            sig,
            cts,
            asn1,
            sm9_sign,
            sm9_enc,
            sm9_ct,
            sm9_h: h,
            sm9_s: r9::g1_bytes(&s).unwrap(),
        }
    })
}

fn unit<T, E: std::fmt::Debug>(r: Result<T, E>) -> Result<(), String> {
    r.map(|_| ()).map_err(|e| format!("{:?}", e))
}

fn sm4mode(i: usize) -> CipherMode {
    match i % 4 {
        0 => CipherMode::Cbc,
        1 => CipherMode::Cfb,
        2 => CipherMode::Ofb,
        _ => CipherMode::Ctr,
    }
}

pub const ENTRIES: &[&str] = &[
    "sm2.verify(sig)", "sm2.verify(msg)", "sm2.decrypt.u.c1c2c3", "sm2.decrypt.u.c1c3c2", "sm2.decrypt.c.c1c2c3", "sm2.decrypt.c.c1c3c2", "sm2.decrypt_asn1", "sm2.pk.new", "sm2.pk.from_hex_string(hex)",
    "sm2.pk.from_hex_string(text)", "sm2.pk.from_public_key_der", "sm2.pk.from_public_key_pem", "sm2.pk.from_str", "sm2.sk.new", "sm2.sk.from_hex_string(hex)", "sm2.sk.from_hex_string(text)", "sm2.sk.from_pkcs8_der",
    "sm2.sk.from_pkcs8_pem", "sm2.compute_za(id)", "sm2.kdf(z)", "sm2.kdf(klen)", "sm4.cipher.new", "sm4.cipher.encrypt", "sm4.cipher.decrypt", "sm4.mode.new", "sm4.mode.encrypt(data)", "sm4.mode.decrypt(data)",
    "sm4.mode.encrypt(iv)", "sm4.mode.decrypt(iv)", "sm9.decrypt(ct)", "sm9.decrypt(id)", "sm9.verify_sign(h,S)", "sm9.verify_sign(id,msg)", "sm9.mod_n_from_hash", "sm9.exch_step_1b(R_A)", "sm9.exch_step_2a(R_B)",
    "sm9.encrypt(msg<=255)", "sm9.sign(msg)", "sm2.sign(msg)", "sm2.encrypt(msg)", "sm4.mode.encrypt(mode,iv,data)", "sm4.mode.decrypt(mode,iv,data)",
];

fn run_entry(entry: &str, inp: &[u8]) -> (Outcome<()>, Expect) {
    let f = fx();
    let text = String::from_utf8_lossy(inp).to_string();
    let hx = hex::encode(inp);
    match entry {
        "sm2.verify(sig)" => (outcome(|| unit(f.pk.verify(None, &f.msg, inp))), if inp.len() != 64 { Some(false) } else { None }),
        "sm2.verify(msg)" => (outcome(|| unit(f.pk.verify(None, inp, &f.sig))), None),
        "sm2.decrypt.u.c1c2c3" => (outcome(|| unit(f.sk.decrypt(inp, false, Sm2Model::C1C2C3))), if inp.len() < 98 { Some(false) } else { None }),
        "sm2.decrypt.u.c1c3c2" => (outcome(|| unit(f.sk.decrypt(inp, false, Sm2Model::C1C3C2))), if inp.len() < 98 { Some(false) } else { None }),
        "sm2.decrypt.c.c1c2c3" => (outcome(|| unit(f.sk.decrypt(inp, true, Sm2Model::C1C2C3))), if inp.len() < 66 { Some(false) } else { None }),
        "sm2.decrypt.c.c1c3c2" => (outcome(|| unit(f.sk.decrypt(inp, true, Sm2Model::C1C3C2))), if inp.len() < 66 { Some(false) } else { None }),
        "sm2.decrypt_asn1" => (outcome(|| unit(f.sk.decrypt_asn1(inp, false, Sm2Model::C1C3C2))), if der::parse_sm2_cipher(inp).is_none() && der::parse_all(inp).is_none() { Some(false) } else { None }),
        "sm2.pk.new" => (outcome(|| unit(Sm2PublicKey::new(inp))), Some(r2::decode_point(inp).is_some())),
        "sm2.pk.from_hex_string(hex)" => (outcome(|| unit(Sm2PublicKey::from_hex_string(&hx))), Some(r2::decode_point(inp).is_some())),
        "sm2.pk.from_hex_string(text)" => (outcome(|| unit(Sm2PublicKey::from_hex_string(&text))), None),
        "sm2.pk.from_public_key_der" => (outcome(|| unit(Sm2PublicKey::from_public_key_der(inp))), if der::parse_all(inp).is_none() { Some(false) } else { None }),
        "sm2.pk.from_public_key_pem" => (outcome(|| unit(Sm2PublicKey::from_public_key_pem(&text))), None),
        "sm2.pk.from_str" => (outcome(|| unit(Sm2PublicKey::from_str(&text))), None),
        "sm2.sk.new" => (outcome(|| unit(Sm2PrivateKey::new(inp))), if inp.len() != 32 { Some(false) } else { None }),
        "sm2.sk.from_hex_string(hex)" => (outcome(|| unit(Sm2PrivateKey::from_hex_string(&hx))), if inp.len() != 32 { Some(false) } else { None }),
        "sm2.sk.from_hex_string(text)" => (outcome(|| unit(Sm2PrivateKey::from_hex_string(&text))), None),
        "sm2.sk.from_pkcs8_der" => (outcome(|| unit(Sm2PrivateKey::from_pkcs8_der(inp))), if der::parse_all(inp).is_none() { Some(false) } else { None }),
        "sm2.sk.from_pkcs8_pem" => (outcome(|| unit(Sm2PrivateKey::from_pkcs8_pem(&text))), None),
        "sm2.compute_za(id)" => (outcome(|| unit(gm_sm2::util::compute_za(&text, &f.pk.point))), if text.len() < 8192 { Some(true) } else { Some(false) }),
        "sm2.kdf(z)" => (outcome(|| -> Result<(), String> { gm_sm2::util::kdf(inp, 1 + inp.len() % 97); Ok(()) }), Some(true)),
        "sm2.kdf(klen)" => (outcome(|| -> Result<(), String> { let v = gm_sm2::util::kdf(b"z", inp.len()); if inp.len() >= 1 && v.len() != inp.len() { return Err("wrong length".into()); } Ok(()) }), if inp.is_empty() { None } else { Some(true) }),
        "sm4.cipher.new" => (outcome(|| unit(Sm4Cipher::new(inp))), Some(inp.len() == 16)),
        "sm4.cipher.encrypt" => (outcome(|| unit(Sm4Cipher::new(&[7u8; 16]).and_then(|c| c.encrypt(inp)))), Some(inp.len() == 16)),
        "sm4.cipher.decrypt" => (outcome(|| unit(Sm4Cipher::new(&[7u8; 16]).and_then(|c| c.decrypt(inp)))), Some(inp.len() == 16)),
        "sm4.mode.new" => (outcome(|| unit(Sm4CipherMode::new(inp, sm4mode(inp.len())))), Some(inp.len() == 16)),
        "sm4.mode.encrypt(data)" => (outcome(|| unit(Sm4CipherMode::new(&[9u8; 16], sm4mode(inp.len())).and_then(|c| c.encrypt(inp, &[3u8; 16])))), Some(true)),
        "sm4.mode.decrypt(data)" => (outcome(|| unit(Sm4CipherMode::new(&[9u8; 16], sm4mode(inp.first().copied().unwrap_or(0) as usize)).and_then(|c| c.decrypt(inp, &[3u8; 16])))), None),
        "sm4.mode.encrypt(iv)" => (outcome(|| unit(Sm4CipherMode::new(&[9u8; 16], sm4mode(inp.len())).and_then(|c| c.encrypt(b"0123456789abcdefXYZ", inp)))), Some(inp.len() == 16)),
        "sm4.mode.decrypt(iv)" => (outcome(|| unit(Sm4CipherMode::new(&[9u8; 16], sm4mode(1 + inp.len() % 3)).and_then(|c| c.decrypt(b"0123456789abcdefXYZ", inp)))), Some(inp.len() == 16)),
        "sm9.decrypt(ct)" => {
            let key = f.sm9_enc.lib.extract_key(b"Bob").unwrap();
            (outcome(|| unit(key.decrypt(b"Bob", inp))), if inp.len() < 98 { Some(false) } else { None })
        }
        "sm9.decrypt(id)" => {
            let key = f.sm9_enc.lib.extract_key(b"Bob").unwrap();
            (outcome(|| unit(key.decrypt(inp, &f.sm9_ct))), if inp == b"Bob" { Some(true) } else { None })
        }
        "sm9.verify_sign(h,S)" => {
            // first 32 bytes: h (missing bytes = 0), next 64: affine S (missing bytes from the genuine S)
            let mut hb = [0u8; 32];
            for (i, b) in inp.iter().take(32).enumerate() {
                hb[i] = *b;
            }
            let mut sb = f.sm9_s.clone();
            for (i, b) in inp.iter().skip(32).take(64).enumerate() {
                sb[i] = *b;
            }
            let s = gm_sm9::points::Point { x: to_mont(&(from_be(&sb[..32]) % r9::p_static())), y: to_mont(&(from_be(&sb[32..]) % r9::p_static())), z: to_mont(&BigUint::one()) };
            let h = to_limbs(&from_be(&hb));
            (outcome(|| unit(f.sm9_sign.lib.verify_sign(b"Alice", &f.msg, &h, &s))), None)
        }
        "sm9.verify_sign(id,msg)" => {
            let s = lib_g1(&Some((r9::fp(&from_be(&f.sm9_s[..32])), r9::fp(&from_be(&f.sm9_s[32..])))), &BigUint::one());
            let h = to_limbs(&f.sm9_h);
            let (id, msg) = inp.split_at(inp.len() / 2);
            (outcome(|| unit(f.sm9_sign.lib.verify_sign(id, msg, &h, &s))), None)
        }
        "sm9.mod_n_from_hash" => (outcome(|| -> Result<(), String> { gm_sm9::fields::mod_n_from_hash(inp); Ok(()) }), Some(true)),
        "sm9.exch_step_1b(R_A)" | "sm9.exch_step_2a(R_B)" => {
            let mut b = vec![0u8; 64];
            for (i, x) in inp.iter().take(64).enumerate() {
                b[i] = *x;
            }
            let pt = gm_sm9::points::Point { x: to_mont(&(from_be(&b[..32]) % r9::p_static())), y: to_mont(&(from_be(&b[32..]) % r9::p_static())), z: if inp.len() > 64 && inp[64] == 0 { [0; 4] } else { to_mont(&BigUint::one()) } };
            let kb = f.sm9_enc.lib.extract_exch_key(b"Bob").unwrap();
            if entry.ends_with("(R_A)") {
                let (r, _) = with_sm9_candidates((0..8u64).map(|i| to32(&BigUint::from(0x5151 + i))).collect(), || unit(gm_sm9::key::exch_step_1b(&f.sm9_enc.lib, b"Alice", b"Bob", &kb, &pt, 16)));
                (match r { Ok(Ok(())) => Outcome::Ok(()), Ok(Err(e)) => Outcome::Err(e), Err(p) => Outcome::Panic(p) }, None)
            } else {
                let ra = lib_g1(&r9::p1_mul(&BigUint::from(5u32)), &BigUint::one());
                (outcome(|| unit(gm_sm9::key::exch_step_2a(&f.sm9_enc.lib, b"Alice", b"Bob", &kb, [77, 0, 0, 0], &ra, &pt, 16))), None)
            }
        }
        "sm9.encrypt(msg<=255)" => {
            let m = if inp.is_empty() { &b"x"[..] } else { &inp[..inp.len().min(255)] };
            let (r, _) = with_sm9_candidates((0..8u64).map(|i| to32(&BigUint::from(0x6161 + i))).collect(), || -> Result<(), String> { f.sm9_enc.lib.encrypt(b"Bob", m); Ok(()) });
            (match r { Ok(Ok(())) => Outcome::Ok(()), Ok(Err(e)) => Outcome::Err(e), Err(p) => Outcome::Panic(p) }, Some(true))
        }
        "sm9.sign(msg)" => {
            let key = f.sm9_sign.lib.extract_key(b"Alice").unwrap();
            let (r, _) = with_sm9_candidates((0..8u64).map(|i| to32(&BigUint::from(0x7171 + i))).collect(), || unit(key.sign(inp)));
            (match r { Ok(Ok(())) => Outcome::Ok(()), Ok(Err(e)) => Outcome::Err(e), Err(p) => Outcome::Panic(p) }, Some(true))
        }
        "sm2.sign(msg)" => {
            let (r, _) = with_sm2_candidates((0..8u64).map(|i| to32(&BigUint::from(0x8181 + i))).collect(), || unit(f.sk.sign(None, inp)));
            (match r { Ok(Ok(())) => Outcome::Ok(()), Ok(Err(e)) => Outcome::Err(e), Err(p) => Outcome::Panic(p) }, Some(true))
        }
        "sm2.encrypt(msg)" => {
            // GB/T 32918.4 encrypts non-empty messages only: the empty input stands for a one-byte message
            let m = if inp.is_empty() { &b"x"[..] } else { inp };
            let (r, _) = with_sm2_candidates((0..8u64).map(|i| to32(&BigUint::from(0x9191 + i))).collect(), || unit(f.pk.encrypt(m, inp.len() % 2 == 0, Sm2Model::C1C3C2)));
            (match r { Ok(Ok(())) => Outcome::Ok(()), Ok(Err(e)) => Outcome::Err(e), Err(p) => Outcome::Panic(p) }, Some(true))
        }
        "sm4.mode.encrypt(mode,iv,data)" | "sm4.mode.decrypt(mode,iv,data)" => {
            // first byte: mode, next 16: IV (a shorter remainder is offered as an IV of the wrong length), rest: data
            let mode = inp.first().copied().unwrap_or(0) as usize;
            let (iv, data) = if inp.len() >= 17 { (&inp[1..17], &inp[17..]) } else { (&inp[inp.len().min(1)..], &[][..]) };
            let enc = entry.starts_with("sm4.mode.encrypt");
            let o = outcome(|| unit(Sm4CipherMode::new(&[9u8; 16], sm4mode(mode)).and_then(|c| if enc { c.encrypt(data, iv) } else { c.decrypt(data, iv) })));
            (o, if iv.len() != 16 { Some(false) } else if enc || mode % 4 != 0 { Some(true) } else { None })
        }
        _ => (Outcome::Err("unknown entry".into()), None),
    }
}

pub fn check_call(c: &Call) -> CaseResult {
    let (got, expect) = run_entry(&c.entry, &c.input);
    match (&got, expect) {
        (Outcome::Panic(p), _) => {
            let exhausted = p.contains("candidate queue exhausted");
            fail(format!("entry={} outcome={} site={}", c.entry, if exhausted { "retry-budget-exhausted" } else { "panic" }, panic_site(p)), format!("input={} ({} bytes): {}", hexs::hx(&c.input), c.input.len(), p))
        }
        (Outcome::Ok(()), Some(false)) => fail(format!("entry={} outcome=accepted-malformed", c.entry), format!("input={} ({} bytes) is malformed for this entry point but no error was reported", hexs::hx(&c.input), c.input.len())),
        (Outcome::Err(e), Some(true)) => fail(format!("entry={} input=valid outcome=err", c.entry), format!("input={} ({} bytes): {}", hexs::hx(&c.input), c.input.len(), e)),
        _ => pass(true, format!("{}/{}", c.entry, got.class())),
    }
}

// ---------------------------------------------------------------- boundary keys

#[derive(Serialize, Deserialize, Hash, Debug, Clone)]
pub struct KeyUse {
    pub d: Hex,
    /// which constructor: 0 new(bytes), 1 from_hex_string, 2 PKCS#8 DER without public key, 3 PKCS#8 DER with the public key [d]G (or G when
    /// [d]G is the point at infinity), 4 the same in PEM, 5 PKCS#8 DER with parameters and a compressed public key
    #[serde(default)]
    pub via: u8,
}

/// whatever key the constructor accepts must be usable: sign / decrypt terminate within the retry budget
fn check_key_use(c: &KeyUse) -> CaseResult {
    let f = fx();
    let d = from_be(&c.d);
    let class = format!("d={}", if d.is_zero() { "0".into() } else if d >= r2::params().n { ">=n".to_string() } else if d == &r2::params().n - 1u32 { "n-1".into() } else { "in-range".to_string() });
    let d32: [u8; 32] = to32(&d);
    let public = || -> Vec<u8> {
        let q = r2::g_mul(&(&d % &r2::params().n));
        r2::encode_uncompressed(&if q.is_none() { r2::g_mul(&BigUint::one()) } else { q })
    };
    let (ctor, made): (&str, Outcome<Sm2PrivateKey>) = match c.via % 6 {
        1 => ("Sm2PrivateKey::from_hex_string", outcome(|| Sm2PrivateKey::from_hex_string(&hex::encode(d32)))),
        2 => ("Sm2PrivateKey::from_pkcs8_der(no-public-key)", outcome(|| Sm2PrivateKey::from_pkcs8_der(&der::pkcs8(&d32, false, None)).map_err(|e| format!("{:?}", e)))),
        3 => ("Sm2PrivateKey::from_pkcs8_der(with-public-key)", outcome(|| Sm2PrivateKey::from_pkcs8_der(&der::pkcs8(&d32, false, Some(&public()))).map_err(|e| format!("{:?}", e)))),
        4 => ("Sm2PrivateKey::from_pkcs8_pem(with-public-key)", outcome(|| Sm2PrivateKey::from_pkcs8_pem(&der::pem("PRIVATE KEY", &der::pkcs8(&d32, false, Some(&public())), "\n")).map_err(|e| format!("{:?}", e)))),
        5 => ("Sm2PrivateKey::from_pkcs8_der(params+compressed-public-key)", outcome(|| {
            let q = r2::decode_point(&public());
            Sm2PrivateKey::from_pkcs8_der(&der::pkcs8(&d32, true, Some(&r2::encode_compressed(&q.unwrap())))).map_err(|e| format!("{:?}", e))
        })),
        _ => ("Sm2PrivateKey::new", outcome(|| Sm2PrivateKey::new(&c.d).map_err(|e| format!("{:?}", e)))),
    };
    let class = format!("{}/{}", class, ctor);
    match made {
        Outcome::Panic(p) => fail(format!("entry={} input={} outcome=panic", ctor, class), p),
        Outcome::Err(_) => pass(true, format!("{}/rejected", class)),
        Outcome::Ok(sk) => {
            let cands: Vec<[u8; 32]> = (0..24u64).map(|i| to32(&(from_be(&expand_bytes(0xbeef + i, 32)) % (&r2::params().n - 1u32) + 1u32))).collect();
            let (r, _) = with_sm2_candidates(cands.clone(), || unit(sk.sign(None, b"boundary key")));
            if let Err(p) = r {
                let ex = p.contains("candidate queue exhausted");
                return fail(format!("entry=Sm2PrivateKey::sign input=accepted-key/{} outcome={}", class, if ex { "never-terminates" } else { "panic" }), format!("d={:x}: {}", d, p));
            }
            let r = outcome(|| unit(sk.decrypt(&f.cts[1].2, false, Sm2Model::C1C3C2)));
            ensure!(!r.is_panic(), format!("entry=Sm2PrivateKey::decrypt input=accepted-key/{} outcome=panic", class), "d={:x}: {}", d, r.describe());
            let (r, _) = with_sm2_candidates(cands, || unit(sk.public_key.encrypt(b"m", false, Sm2Model::C1C3C2)));
            if let Err(p) = r {
                let ex = p.contains("candidate queue exhausted");
                return fail(format!("entry=Sm2PublicKey::encrypt input=accepted-key/{} outcome={}", class, if ex { "never-terminates" } else { "panic" }), format!("d={:x}: {}", d, p));
            }
            pass(true, format!("{}/accepted", class))
        }
    }
}

pub fn valid_artefact(entry: &str) -> Option<Vec<u8>> {
    let f = fx();
    Some(match entry {
        "sm2.verify(sig)" => f.sig.clone(),
        "sm2.decrypt.u.c1c2c3" => f.cts[0].2.clone(),
        "sm2.decrypt.u.c1c3c2" => f.cts[1].2.clone(),
        "sm2.decrypt.c.c1c2c3" => f.cts[2].2.clone(),
        "sm2.decrypt.c.c1c3c2" => f.cts[3].2.clone(),
        "sm2.decrypt_asn1" => f.asn1.clone(),
        "sm2.pk.new" | "sm2.pk.from_hex_string(hex)" => f.pk.to_bytes(false),
        "sm2.pk.from_public_key_der" => f.spki.clone(),
        "sm2.pk.from_public_key_pem" | "sm2.pk.from_str" => der::pem("PUBLIC KEY", &f.spki, "\n").into_bytes(),
        "sm2.sk.new" | "sm2.sk.from_hex_string(hex)" => to32(&f.d).to_vec(),
        "sm2.sk.from_pkcs8_der" => f.pkcs8.clone(),
        "sm2.sk.from_pkcs8_pem" => der::pem("PRIVATE KEY", &f.pkcs8, "\n").into_bytes(),
        "sm2.pk.from_hex_string(text)" => hex::encode(f.pk.to_bytes(true)).into_bytes(),
        "sm2.sk.from_hex_string(text)" => hex::encode(to32(&f.d)).into_bytes(),
        "sm9.decrypt(ct)" => f.sm9_ct.clone(),
        "sm9.verify_sign(h,S)" => [&to32(&f.sm9_h)[..], &f.sm9_s[..]].concat(),
        "sm9.exch_step_1b(R_A)" | "sm9.exch_step_2a(R_B)" => r9::g1_bytes(&r9::p1_mul(&BigUint::from(99u32))).unwrap(),
        "sm4.mode.encrypt(mode,iv,data)" | "sm4.mode.decrypt(mode,iv,data)" => {
            // CTR with a counter block three increments away from 2^128
            let mut v = vec![3u8];
            v.extend_from_slice(&[0xFF; 15]);
            v.push(0xFD);
            v.extend((0..70u8).map(|i| i.wrapping_mul(37)));
            v
        }
        _ => return None,
    })
}

pub fn run(ctx: &Ctx) {
    ctx.set_rule(
        "a case is (entry point, byte string): for each of the 42 entry points every length 0..=200 x {0x00.., 0xFF.., pseudo-random}; every truncation and every single-byte corruption (xor 0x01, xor 0x80, set 0x00, set 0xFF) of a valid artefact for the 19 entries that \
         have one (signature, four ciphertext framings, ASN.1 ciphertext, SEC1/hex/DER/PEM keys, SM9 ciphertext, (h,S), exchange points, an SM4-CTR call whose counter wraps); SM4 mode calls with IVs ending in 0..16 bytes 0xFF; proptest byte strings up to 600 bytes; SM2 private keys {0, 1, 2, n-3, n-2, n-1, n, n+1, p, 2^255, 2^256-1} offered to every private-key constructor (bytes, hex, PKCS#8 DER/PEM with and without embedded public key): whatever a constructor accepts must sign, \
         decrypt and encrypt within a retry budget of 24 candidates (RNG hook). Oracle: outcome in {Ok, Err}; a panic (incl. arithmetic overflow, index, unwrap) or an exhausted retry budget is a violation; where the entry has an unambiguous validity rule (lengths, decodability) the error channel must report it. \
         Non-trivial: every case (all inputs are untrusted bytes).",
    );
    ctx.assume("public helpers without an error channel that the statement does not list (ZUC::new, EEA/EIA outside their stated preconditions, SM9 Point::from_hex, SM9 encrypt beyond 255 bytes, xor_bytes) are exercised only on their documented domain");
    ctx.assume("a hang is reported by the wall-clock watchdog as inconclusive (exit 2), never as a violation; retry loops are made finite by the candidate hook");

    ctx.exhaustive("every_length_0_200", "42 entry points x every length 0..=200 x 3 fills", || {
        let mut v = Vec::new();
        for e in ENTRIES {
            for len in 0..=200usize {
                for fill in 0..3u8 {
                    let input = match fill {
                        0 => vec![0u8; len],
                        1 => vec![0xFF; len],
                        _ => expand_bytes((len as u64) << 8 | hash64(e) & 0xff, len),
                    };
                    v.push(Call { entry: e.to_string(), input: Hex(input) });
                }
            }
        }
        v
    }, check_call);

    let big: Vec<usize> = ctx.tier.pick(vec![255usize, 256, 257, 4095, 4096, 4097, 8191, 8192, 8193, 16384, 32767, 32768, 65535, 65536, 65537, 100_000], vec![255usize, 256, 257, 4095, 4096, 4097, 8191, 8192, 8193, 16384, 32767, 32768, 65535, 65536, 65537, 100_000, (1 << 20) + 1, (1 << 22) + 3]);
    ctx.exhaustive("large_inputs", "every entry point x inputs of 255, 256, 257, 4095..4097, 8191..8193, 16384, 32767, 32768, 65535..65537, 100000 bytes (thorough: also 2^20+1, 2^22+3) x 2 fills (the letter 'a', pseudo-random): limits stated in bits or held in 16-bit fields, buffer caps", move || {
        let mut v = Vec::new();
        for e in ENTRIES {
            for len in big.iter() {
                for fill in 0..2u8 {
                    let input = if fill == 0 { vec![b'a'; *len] } else { expand_bytes((*len as u64) << 8 | hash64(e) & 0xff, *len) };
                    v.push(Call { entry: e.to_string(), input: Hex(input) });
                }
            }
        }
        v
    }, check_call);

    ctx.exhaustive("truncations_and_corruptions", "every truncation and every single-byte corruption (4 kinds) of a valid artefact, for each entry that has one", || {
        let mut v = Vec::new();
        for e in ENTRIES {
            let Some(good) = valid_artefact(e) else { continue };
            v.push(Call { entry: e.to_string(), input: Hex(good.clone()) });
            for l in 0..good.len() {
                v.push(Call { entry: e.to_string(), input: Hex(good[..l].to_vec()) });
            }
            let step = (good.len() / 160).max(1);
            for i in (0..good.len()).step_by(step) {
                for kind in 0..4u8 {
                    let mut b = good.clone();
                    match kind {
                        0 => b[i] ^= 0x01,
                        1 => b[i] ^= 0x80,
                        2 => b[i] = 0x00,
                        _ => b[i] = 0xFF,
                    }
                    v.push(Call { entry: e.to_string(), input: Hex(b) });
                }
            }
            for extra in [1usize, 2, 16, 300] {
                let mut b = good.clone();
                b.extend(std::iter::repeat(0xA5).take(extra));
                v.push(Call { entry: e.to_string(), input: Hex(b) });
            }
        }
        v
    }, check_call);

    ctx.generated("generated_bytes", "proptest (entry, byte string up to 600 bytes; half of them mutations of the entry's valid artefact)", ctx.tier.pick(40_000, 600_000), || {
        (0..ENTRIES.len(), prop::collection::vec(any::<u8>(), 0..600), any::<bool>(), any::<prop::sample::Index>(), any::<u8>()).prop_map(|(e, bytes, mutate, idx, val)| {
            let entry = ENTRIES[e].to_string();
            let input = match (mutate, valid_artefact(ENTRIES[e])) {
                (true, Some(mut good)) if !good.is_empty() => {
                    let i = idx.index(good.len());
                    good[i] = val;
                    if bytes.len() % 3 == 0 {
                        good.truncate(bytes.len() % (good.len() + 1));
                    }
                    good
                }
                _ => bytes,
            };
            Call { entry, input: Hex(input) }
        })
    }, check_call);

    ctx.cold("cold_start_entries", "each entry point, fed its valid artefact (or 40 pseudo-random bytes) and a corrupted one, as the first library call of a fresh process", || {
        let mut v = Vec::new();
        for e in ENTRIES {
            let good = valid_artefact(e).unwrap_or_else(|| expand_bytes(hash64(e), 40));
            v.push(Call { entry: e.to_string(), input: Hex(good.clone()) });
            let mut bad = good;
            if !bad.is_empty() {
                let i = bad.len() / 2;
                bad[i] ^= 0x41;
            }
            v.push(Call { entry: e.to_string(), input: Hex(bad) });
        }
        v
    }, check_call);

    ctx.exhaustive("asn1_integer_length_grid", "decrypt_asn1 on SM2Cipher documents whose x and y INTEGERs have every content length 0..=36 x 0..=36 (both flag values), and from_pkcs8_der / from_public_key_der on envelopes with every private-key and public-key field length: never a panic", || {
        let mut v = Vec::new();
        for lx in 0..=36usize {
            for ly in 0..=36usize {
                for compressed in [false, true] {
                    v.push(super::c19::Asn1Lens { lx, ly, compressed });
                }
            }
        }
        v
    }, super::c19::check_asn1_lens);
    ctx.exhaustive("key_document_field_length_grid", "PKCS#8 / SPKI envelopes with every private-key length 0..=40 and public-key length 0..=70: never a panic", || {
        let mut v = Vec::new();
        for dlen in 0..=40usize {
            v.push(super::c19::KeyLens { dlen, plen: None });
            v.push(super::c19::KeyLens { dlen, plen: Some(65) });
        }
        for plen in 0..=70usize {
            v.push(super::c19::KeyLens { dlen: 32, plen: Some(plen) });
        }
        v
    }, super::c19::check_key_lens);

    ctx.exhaustive("cipher_document_shapes", "decrypt_asn1 on SM2Cipher documents with 6 shapes per INTEGER (minimal, redundant 00, negative, empty, wrong tag, long-form length) x 6 hash shapes x 5 ciphertext shapes x 7 outer shapes (long-form / indefinite length, extra element, trailing byte, SET, overstated length) — all single and pairwise deviations plus a diagonal: never a panic", || {
        let mut v = Vec::new();
        for x in 0..6u8 {
            for y in 0..6u8 {
                for hash in 0..6u8 {
                    for c2 in 0..5u8 {
                        for outer in 0..7u8 {
                            // all pairs of fields at full resolution, the other fields standard; plus a diagonal through the full grid
                            let nonstd = (x != 0) as u8 + (y != 0) as u8 + (hash != 0) as u8 + (c2 != 0) as u8 + (outer != 0) as u8;
                            if nonstd <= 2 || (x + 2 * y + 3 * hash + 5 * c2 + outer) % 11 == 0 {
                                v.push(super::c19::CipherDocShape { x, y, hash, c2, outer, compressed: (x + y + hash + c2 + outer) % 2 == 1 });
                            }
                        }
                    }
                }
            }
        }
        v
    }, super::c19::check_cipher_doc_shape);

    ctx.exhaustive("key_document_shapes", "SPKI and PKCS#8 documents (DER and PEM) around a genuine key with every combination of 6 algorithm OIDs x 10 AlgorithmIdentifier parameter shapes (curve OID, absent, NULL, another curve, empty / explicit SEQUENCE, INTEGER, OCTET STRING, extra element, empty OID) x 5 ECPrivateKey parameter shapes x 3 versions x 3 public-key shapes: never a panic, an accepted document yields the embedded key, the standard shape is accepted", || {
        let mut v = Vec::new();
        for alg in 0..6u8 {
            for params in 0..10u8 {
                for pem in [false, true] {
                    for inner in 0..45u8 {
                        // the full inner grid under the standard algorithm and under the shapes next to it; a diagonal elsewhere
                        if !(alg == 0 && params <= 3) && inner % 7 != (alg + params) % 7 {
                            continue;
                        }
                        v.push(super::c19::KeyDocShape { alg, params, inner_params: inner % 5, inner_version: (inner / 5) % 3, inner_public: inner / 15, pem });
                    }
                }
            }
        }
        v
    }, super::c19::check_key_doc_shape);

    ctx.exhaustive("cbc_final_plaintext_byte_all_values", "CBC ciphertexts of 1, 2 and 5 blocks crafted with the reference so that the last decrypted byte takes every value 0..=255 (the padding byte the unpadding code branches on), and the byte before it 0 / the same value / random: never a panic", || {
        let r = crate::refimpl::sm4::Sm4::new(&[9u8; 16]);
        let mut v = Vec::new();
        for blocks in [1usize, 2, 5] {
            for val in 0..=255u8 {
                for fill in 0..3u8 {
                    let s = (blocks as u64) << 16 | (val as u64) << 8 | fill as u64;
                    let mut iv = expand_bytes(s ^ 0xcbc0, 16);
                    let mut ct = expand_bytes(s ^ 0xcbc1, 16 * blocks);
                    let last: [u8; 16] = ct[16 * (blocks - 1)..].try_into().unwrap();
                    let d = r.decrypt(&last);
                    // plaintext byte = D[i] ^ previous ciphertext byte (or IV byte)
                    let prev: &mut [u8] = if blocks == 1 { &mut iv[..] } else { &mut ct[16 * (blocks - 2)..16 * (blocks - 1)] };
                    prev[15] = d[15] ^ val;
                    prev[14] = d[14] ^ match fill { 0 => 0, 1 => val, _ => prev[14] ^ d[14] };
                    let mut input = vec![0u8];
                    input.extend_from_slice(&iv);
                    input.extend_from_slice(&ct);
                    v.push(Call { entry: "sm4.mode.decrypt(mode,iv,data)".to_string(), input: Hex(input) });
                }
            }
        }
        v
    }, check_call);

    ctx.exhaustive("sm4_iv_carry_family", "SM4 modes with IVs ending in t = 0..=16 bytes 0xFF (last byte also 0xFE, 0xFD, 0xF0: the counter carries or wraps inside the message) x data of 0..=100 bytes, encrypt and decrypt", || {
        let mut v = Vec::new();
        for e in ["sm4.mode.encrypt(mode,iv,data)", "sm4.mode.decrypt(mode,iv,data)"] {
            for mode in 0..4u8 {
                for t in 0..=16usize {
                    for last in [0xFFu8, 0xFE, 0xFD, 0xF0] {
                        for len in [0usize, 1, 15, 16, 17, 31, 32, 33, 47, 48, 49, 64, 100, 272] {
                            let mut iv = expand_bytes((t as u64) << 8 | last as u64, 16);
                            for i in 0..t {
                                iv[15 - i] = 0xFF;
                            }
                            if t > 0 {
                                iv[15] = last;
                            }
                            let mut input = vec![mode];
                            input.extend_from_slice(&iv);
                            input.extend_from_slice(&expand_bytes(len as u64 ^ 0x5151, len));
                            v.push(Call { entry: e.to_string(), input: Hex(input) });
                        }
                    }
                }
            }
        }
        v
    }, check_call);

    ctx.exhaustive("sm2_boundary_private_keys", "d in {0, 1, 2, n-3, n-2, n-1, n, n+1, p, 2^255, 2^256-1} through six constructors (bytes, hex, PKCS#8 DER without / with public key, PEM, DER with parameters and a compressed public key): whatever a constructor accepts must sign / decrypt / encrypt under a retry budget", || {
        let n = &r2::params().n;
        [BigUint::zero(), BigUint::one(), BigUint::from(2u32), n - 3u32, n - 2u32, n - 1u32, n.clone(), n + 1u32, r2::params().p.clone(), BigUint::one() << 255, (BigUint::one() << 256) - 1u32]
            .iter()
            .flat_map(|d| (0..6u8).map(move |via| KeyUse { d: Hex(to32(d).to_vec()), via }))
            .collect::<Vec<_>>()
    }, check_key_use);
}
