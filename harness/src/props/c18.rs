//! C18 — 128-EEA3 and 128-EIA3 match the 3GPP specification for every bit length.

use proptest::prelude::*;
use serde::{Deserialize, Serialize};

use crate::engine::*;
use crate::refimpl::zuc as rzuc;

#[derive(Serialize, Deserialize, Hash, Debug, Clone)]
pub struct EC {
    pub key: Hex,
    pub count: u32,
    pub bearer: u32,
    pub direction: u32,
    pub length: u32,
    /// message words are expanded from this seed: ceil(length/32) + surplus words
    pub seed: u64,
    pub surplus: u8,
    /// message content: 0 pseudo-random; 1 all zero; 2 all ones; 3 a single set bit (position seed mod 32*words); 4 a single clear bit;
    /// 5 every word drawn from {0, 1, 2, 3, 0x80000000, 0x80000001, 0x7fffffff, 0xfffffffe, 0xffffffff, 1 << k}; 6 words 0, 1, 2, ... (small counters)
    #[serde(default)]
    pub content: u8,
    /// explicit leading message words (used by the byte-level fuzz target); the rest follows `content`
    #[serde(default)]
    pub explicit: Vec<u32>,
}

fn arr16(b: &[u8]) -> [u8; 16] {
    let mut a = [0u8; 16];
    a.copy_from_slice(&b[..16]);
    a
}

impl EC {
    fn words(&self) -> Vec<u32> {
        let l = ((self.length as u64 + 31) / 32) as usize + self.surplus as usize;
        // the pseudo-random words are only produced for the content kinds that use them (a 2^27-word message would otherwise cost seconds)
        let rnd: Vec<u32> = if matches!(self.content % 7, 0 | 5) { expand_bytes(self.seed, l * 4).chunks(4).map(|c| u32::from_be_bytes([c[0], c[1], c[2], c[3]])).collect() } else { Vec::new() };
        let mut out = self.words_by_content(l, rnd);
        for (o, e) in out.iter_mut().zip(self.explicit.iter()) {
            *o = *e;
        }
        out
    }
    fn words_by_content(&self, l: usize, rnd: Vec<u32>) -> Vec<u32> {
        match self.content % 7 {
            1 => vec![0; l],
            2 => vec![!0; l],
            3 | 4 => {
                let mut v = vec![if self.content % 7 == 3 { 0u32 } else { !0u32 }; l];
                if l > 0 {
                    let bit = (self.seed % (32 * l as u64)) as usize;
                    v[bit / 32] ^= 0x8000_0000u32 >> (bit % 32);
                }
                v
            }
            5 => rnd
                .iter()
                .map(|r| match r % 12 {
                    0 => 0,
                    1 => 1,
                    2 => 2,
                    3 => 3,
                    4 => 0x8000_0000,
                    5 => 0x8000_0001,
                    6 => 0x7fff_ffff,
                    7 => 0xffff_fffe,
                    8 => 0xffff_ffff,
                    _ => 1u32 << ((r >> 8) % 32),
                })
                .collect(),
            6 => (0..l as u32).map(|i| i.wrapping_add((self.seed % 3) as u32)).collect(),
            _ => rnd,
        }
    }
}

fn len_class(length: u32) -> String {
    format!("{}{}", if length % 32 == 0 { "aligned" } else { "ragged" }, if length > 577 { "/long" } else { "" })
}

fn nontrivial(c: &EC, suite_dir: u32) -> bool {
    c.length % 32 == 0 || c.direction != suite_dir || c.length > 577
}

/// zero the bits at positions >= length (big-endian bit order inside words)
fn mask_beyond(m: &mut [u32], length: u32) {
    let l = length as usize;
    for (i, w) in m.iter_mut().enumerate() {
        let lo = i * 32;
        if lo >= l {
            *w = 0;
        } else if l - lo < 32 {
            *w &= !0u32 << (32 - (l - lo));
        }
    }
}

pub fn check_eea(c: &EC) -> CaseResult {
    let key = arr16(&c.key);
    let m = c.words();
    let l = ((c.length as u64 + 31) / 32) as usize;
    let want = rzuc::eea3(&key, c.count, c.bearer, c.direction, c.length, &m);
    let got = catch(|| gm_zuc::eea::EEA::new(&key, c.count, c.bearer, c.direction).encrypt(&m, c.length));
    let got = match got {
        Ok(v) => v,
        Err(p) => return fail("entry=EEA::encrypt input=valid outcome=panic", format!("length={} words={} -> {}", c.length, m.len(), p)),
    };
    ensure!(got.len() == l, "entry=EEA::encrypt outcome=wrong-word-count", "LENGTH={} -> {} words, expected {}", c.length, got.len(), l);
    ensure!(got == want, "entry=EEA::encrypt outcome=wrong-output",
        "key={} count={:08x} bearer={} dir={} length={}: library {:08x?} specification {:08x?}", hex::encode(key), c.count, c.bearer, c.direction, c.length, &got[..got.len().min(8)], &want[..want.len().min(8)]);
    // bits beyond LENGTH are zero
    let mut masked = got.clone();
    mask_beyond(&mut masked, c.length);
    ensure!(masked == got, "entry=EEA::encrypt outcome=bits-beyond-length-set", "LENGTH={} last word {:08x}", c.length, got.last().copied().unwrap_or(0));
    // applying it twice restores the first LENGTH bits
    let twice = catch(|| gm_zuc::eea::EEA::new(&key, c.count, c.bearer, c.direction).encrypt(&got, c.length)).map_err(|p| Fail { key: "entry=EEA::encrypt input=valid outcome=panic".into(), detail: p })?;
    let mut orig = m[..l].to_vec();
    mask_beyond(&mut orig, c.length);
    ensure!(twice == orig, "entry=EEA::encrypt outcome=not-an-involution", "LENGTH={}: E(E(m)) != first LENGTH bits of m", c.length);
    pass(nontrivial(c, 0), format!("eea/{}", len_class(c.length)))
}

/// the top of the LENGTH range, checked lightly (see `largest_lengths_light`)
#[derive(Serialize, Deserialize, Hash, Debug, Clone)]
pub struct Top {
    pub eia: bool,
    pub length: u32,
}

pub fn check_top_light(c: &Top) -> CaseResult {
    let key = arr16(&expand_bytes(c.length as u64 ^ 0x70b, 16));
    let (count, bearer, direction) = (0x1234_5678u32, 9u32, c.length % 2);
    let l = ((c.length as u64 + 31) / 32) as usize;
    let m = vec![0u32; l];
    if c.eia {
        return match catch(|| gm_zuc::eia::EIA::new(&key, count, bearer, direction).gen_mac(&m, c.length)) {
            Ok(_) => pass(true, "eia/top-of-range"),
            Err(p) => fail("entry=EIA::gen_mac input=valid outcome=panic", format!("length={} words={} -> {}", c.length, m.len(), p)),
        };
    }
    let got = match catch(|| gm_zuc::eea::EEA::new(&key, count, bearer, direction).encrypt(&m, c.length)) {
        Ok(v) => v,
        Err(p) => return fail("entry=EEA::encrypt input=valid outcome=panic", format!("length={} words={} -> {}", c.length, m.len(), p)),
    };
    ensure!(got.len() == l, "entry=EEA::encrypt outcome=wrong-word-count", "LENGTH={} -> {} words, expected {}", c.length, got.len(), l);
    let ks = rzuc::keystream(&key, &rzuc::eea3_iv(count, bearer, direction), 1024);
    ensure!(got[..1024] == ks[..], "entry=EEA::encrypt outcome=wrong-output", "LENGTH={}: the first 1024 words differ from the keystream", c.length);
    let keep = c.length % 32;
    if keep != 0 {
        ensure!(got[l - 1] & !(!0u32 << (32 - keep)) == 0, "entry=EEA::encrypt outcome=bits-beyond-length-set", "LENGTH={} last word {:08x}", c.length, got[l - 1]);
    }
    ensure!(got[l - 2] != 0 && got[l / 2] != 0, "entry=EEA::encrypt outcome=wrong-output", "LENGTH={}: keystream words missing near the end", c.length);
    pass(true, "eea/top-of-range")
}

pub fn check_eia(c: &EC) -> CaseResult {
    let key = arr16(&c.key);
    let m = c.words();
    let want = rzuc::eia3(&key, c.count, c.bearer, c.direction, c.length, &m);
    let mac = |msg: &[u32]| catch(|| gm_zuc::eia::EIA::new(&key, c.count, c.bearer, c.direction).gen_mac(msg, c.length));
    let got = match mac(&m) {
        Ok(v) => v,
        Err(p) => return fail("entry=EIA::gen_mac input=valid outcome=panic", format!("length={} words={} -> {}", c.length, m.len(), p)),
    };
    ensure!(got == want, "entry=EIA::gen_mac outcome=wrong-mac",
        "key={} count={:08x} bearer={} dir={} length={}: library {:08x} specification {:08x}", hex::encode(key), c.count, c.bearer, c.direction, c.length, got, want);
    // depends on exactly the first LENGTH bits: garbage beyond LENGTH changes nothing ...
    let mut m2 = m.clone();
    let mut keep = m.clone();
    mask_beyond(&mut keep, c.length);
    let mut inside = vec![!0u32; m.len()];
    mask_beyond(&mut inside, c.length);
    for (i, w) in m2.iter_mut().enumerate() {
        *w = keep[i] | (!*w & !inside[i]);
    }
    let got2 = mac(&m2).map_err(|p| Fail { key: "entry=EIA::gen_mac input=valid outcome=panic".into(), detail: p })?;
    ensure!(got2 == got, "entry=EIA::gen_mac outcome=depends-on-bits-beyond-length", "LENGTH={}: changing bits beyond LENGTH changed the MAC {:08x} -> {:08x}", c.length, got, got2);
    // ... and flipping a bit inside gives the reference's MAC for the flipped message
    if c.length > 0 {
        let bit = (c.seed % c.length as u64) as usize;
        let mut m3 = m.clone();
        m3[bit / 32] ^= 0x8000_0000u32 >> (bit % 32);
        let want3 = rzuc::eia3(&key, c.count, c.bearer, c.direction, c.length, &m3);
        let got3 = mac(&m3).map_err(|p| Fail { key: "entry=EIA::gen_mac input=valid outcome=panic".into(), detail: p })?;
        ensure!(got3 == want3, "entry=EIA::gen_mac outcome=wrong-mac", "LENGTH={} after flipping bit {}: library {:08x} specification {:08x}", c.length, bit, got3, want3);
    }
    pass(nontrivial(c, 1), format!("eia/{}", len_class(c.length)))
}

fn params() -> impl Strategy<Value = (Hex, u32, u32, u32)> {
    (
        prop_oneof![4 => prop::array::uniform16(any::<u8>()).prop_map(|a| a.to_vec()), 1 => Just(vec![0u8; 16]), 1 => Just(vec![0xFF; 16])].prop_map(Hex),
        prop_oneof![3 => any::<u32>(), 1 => prop::sample::select(vec![0u32, 1, 0x7fff_ffff, 0x8000_0000, 0xffff_ffff, 0x00ff_00ff])],
        0..32u32,
        0..2u32,
    )
}

pub fn run(ctx: &Ctx) {
    ctx.set_rule(
        "cases are (key, COUNT, BEARER, DIRECTION, LENGTH, message seed, surplus words): every LENGTH 0..=600 (EIA3) / 1..=600 (EEA3) x 4 parameter draws \
         covering all 32 bearers and both directions; proptest lengths up to 2^16 (thorough 2^20) bits, COUNT edges, messages with exactly ceil(LENGTH/32) words \
         and with surplus words, random garbage beyond LENGTH; message contents pseudo-random and structured (all zero, all ones, a single set or clear bit at every position, words from {0,1,2,3,2^31,2^31+1,2^31-1,2^32-2,2^32-1,2^k}, small counters). Oracles: reference EEA3/EIA3 from the specification; EEA3 word count, zero bits beyond LENGTH, \
         involution on the first LENGTH bits; EIA3 invariance under changes beyond LENGTH and agreement with the reference after a flip inside; official test sets. \
         Non-trivial: LENGTH mod 32 = 0, or DIRECTION differs from the repository test's, or LENGTH > 577.",
    );
    ctx.assume("reference EEA3/EIA3 (harness/src/refimpl/zuc.rs) anchored on EEA3 test set 1 and EIA3 test sets 1, 2 and the 577-bit set");
    ctx.assume("inputs respect the stated preconditions: BEARER < 32, DIRECTION < 2, message has at least ceil(LENGTH/32) words (LENGTH = 0 is a bit length like any other: zero words come back)");

    let grid = |lo: u32| {
        move || {
            let mut v = Vec::new();
            for length in lo..=600u32 {
                for d in 0..4u64 {
                    let s = (length as u64) << 8 | d;
                    v.push(EC {
                        key: Hex(expand_bytes(s ^ 0xaaaa, 16)),
                        count: u32::from_le_bytes(expand_bytes(s ^ 0xbbbb, 4).try_into().unwrap()),
                        bearer: ((length as u64 * 4 + d) % 32) as u32,
                        direction: ((length as u64 + d / 2) % 2) as u32,
                        length,
                        seed: s ^ 0xcccc,
                        surplus: (d % 3) as u8,
                        content: 0,
                        explicit: vec![],
                    });
                }
            }
            v
        }
    };
    ctx.exhaustive("eea_lengths_1_600", "EEA3: every LENGTH 0..=600 x 4 parameter draws (all bearers, both directions); LENGTH = 0 must give zero words, with or without surplus message words", grid(0), check_eea);
    ctx.exhaustive("eia_lengths_0_600", "EIA3: every LENGTH 0..=600 x 4 parameter draws (all bearers, both directions)", grid(0), check_eia);

    let patterned = |lo: u32| {
        move || {
            let mut v = Vec::new();
            for content in 1..7u8 {
                for length in (lo..=200u32).chain([255, 256, 257, 511, 512, 513, 1024]) {
                    for d in 0..2u64 {
                        let s = (content as u64) << 24 | (length as u64) << 8 | d;
                        v.push(EC { key: Hex(expand_bytes(s ^ 0xaaa1, 16)), count: s as u32 ^ 0x5a5a_5a5a, bearer: (s % 32) as u32, direction: (d % 2) as u32, length, seed: s.wrapping_mul(0x9e37_79b9) ^ d, surplus: (d % 2) as u8, content, explicit: vec![] });
                    }
                }
            }
            // a single set bit at every position of a 96-bit message (and beyond LENGTH)
            for bit in 0..128u64 {
                v.push(EC { key: Hex(expand_bytes(0xaaa2, 16)), count: 7, bearer: 3, direction: 0, length: 96, seed: bit, surplus: 1, content: 3, explicit: vec![] });
                v.push(EC { key: Hex(expand_bytes(0xaaa3, 16)), count: 9, bearer: 4, direction: 1, length: 96, seed: bit, surplus: 1, content: 4, explicit: vec![] });
            }
            v
        }
    };
    ctx.exhaustive("eea_patterned_messages", "EEA3 over structured message contents (all zero, all ones, one set / one clear bit at every position, words from {0,1,2,3,2^31,2^31+1,2^31-1,2^32-2,2^32-1,2^k}, small counters) x every LENGTH 1..=200 and around 256/512/1024", patterned(1), check_eea);
    ctx.exhaustive("eia_patterned_messages", "EIA3 over the same structured message contents x every LENGTH 0..=200 and around 256/512/1024 (a bit-serial MAC is sensitive to word values, not only to lengths)", patterned(0), check_eia);

    let cold_cases = |lo: u32| move || (0..4u64).map(|i| EC { key: Hex(expand_bytes(0xc18d ^ i, 16)), count: 0x1234_5678 ^ i as u32, bearer: (i * 7 % 32) as u32, direction: (i % 2) as u32, length: lo + 95 * i as u32 + (i as u32 % 2) * 32, seed: i, surplus: (i % 2) as u8, content: [0u8, 5, 3, 6][i as usize], explicit: vec![] }).collect::<Vec<_>>();
    ctx.cold("cold_start_eea", "EEA3 as the first library operation of a fresh process", cold_cases(1), check_eea);
    ctx.cold("cold_start_eia", "EIA3 as the first library operation of a fresh process", cold_cases(0), check_eia);

    let around = |lo: u32| move || {
        let mut v = Vec::new();
        for words in [16u32, 32, 64, 128, 256, 512, 1024, 2048] {
            for length in (32 * words - 34)..=(32 * words + 34) {
                if length < lo {
                    continue;
                }
                let s = (words as u64) << 20 | length as u64;
                v.push(EC { key: Hex(expand_bytes(s ^ 0xaaa4, 16)), count: s as u32 ^ 0x0f0f_0f0f, bearer: (s % 32) as u32, direction: (length % 2) as u32, length, seed: s, surplus: (length % 3) as u8, content: 0, explicit: vec![] });
            }
        }
        v
    };
    ctx.exhaustive("eea_lengths_around_word_count_powers_of_two", "EEA3: every LENGTH within 34 bits of 32*w for w in {16, 32, ..., 2048} words (buffered / chunked keystream generation has its seams there)", around(1), check_eea);
    ctx.exhaustive("eia_lengths_around_word_count_powers_of_two", "EIA3: the same lengths", around(0), check_eia);

    let huge: Vec<u32> = ctx.tier.pick(vec![(1u32 << 18) + 7, (1 << 24) + 1, (1 << 24) + 33, (1 << 25) + 2], vec![(1 << 21) - 1, (1 << 21) + 33, (1 << 24) + 1, (1 << 24) + 5, (1 << 24) + 33, (1 << 25) + 2, (1 << 26) + 3, (1 << 26) + 31, (1 << 27) + 8, (1 << 28) + 16]);
    let huge2 = huge.clone();
    let mk = |length: u32| EC { key: Hex(expand_bytes(length as u64 ^ 0xaaa5, 16)), count: !length, bearer: length % 32, direction: length % 2, length, seed: length as u64, surplus: 1, content: if length > 1 << 22 { 6 } else { 0 }, explicit: vec![] };
    ctx.listed("eea_huge_lengths", "EEA3 at a few very large LENGTH values (2^18+7, 2^24+1, 2^24+33, 2^25+2 in the quick tier; up to 2^28+16 bits in the thorough tier; small residues modulo 32 above 2^24): size arithmetic in 32-bit or floating-point types", move || huge.iter().map(|l| mk(*l)).collect::<Vec<_>>(), check_eea);
    ctx.listed("eia_huge_lengths", "EIA3 at the same LENGTH values", move || huge2.iter().map(|l| mk(*l)).collect::<Vec<_>>(), check_eia);

    // the largest LENGTH values the 32-bit parameter admits (messages of 2^27 words = 512 MiB). Quick tier: a light probe (no panic, word count,
    // keystream prefix, trailing mask); thorough tier: the full comparison with the reference, one case at a time.
    ctx.listed_seq("largest_lengths_light", "EEA3 and EIA3 at LENGTH = 2^32-1 and EEA3 at 2^32-32 on an all-zero 2^27-word message: no panic, ceil(LENGTH/32) words, the first 1024 words equal the reference keystream, bits beyond LENGTH clear; EIA3 returns (MAC not compared here: the per-bit reference costs minutes, see the thorough tier)", || {
        vec![Top { eia: false, length: u32::MAX }, Top { eia: false, length: u32::MAX - 31 }, Top { eia: true, length: u32::MAX }]
    }, check_top_light);
    if ctx.tier.pick(false, true) {
        let mk_top = |length: u32| EC { key: Hex(expand_bytes(length as u64 ^ 0xaaa6, 16)), count: length.rotate_left(7), bearer: length % 32, direction: length % 2, length, seed: length as u64, surplus: 0, content: 6, explicit: vec![] };
        ctx.listed_seq("eea_largest_lengths", "EEA3 at LENGTH = 2^32-1 and 2^32-31 (the top of the 32-bit LENGTH parameter; 2^27-word messages, one case at a time): full comparison with the reference", move || vec![mk_top(u32::MAX), mk_top(u32::MAX - 30)], check_eea);
        ctx.listed_seq("eia_largest_lengths", "EIA3 at LENGTH = 2^32-1: full comparison with the reference", move || vec![mk_top(u32::MAX)], check_eia);
    }

    let maxbits = ctx.tier.pick(1u32 << 16, 1u32 << 20);
    let strat = move |lo: u32| {
        move || {
            (params(), prop_oneof![3 => lo..=700u32, 1 => lo..=maxbits, 1 => (1..=(maxbits / 32)).prop_map(|w| w * 32)], any::<u64>(), 0..3u8, prop_oneof![4 => Just(0u8), 3 => 1..7u8])
                .prop_map(|((key, count, bearer, direction), length, seed, surplus, content)| EC { key, count, bearer, direction, length, seed, surplus, content, explicit: vec![] })
        }
    };
    ctx.generated("eea_generated", "EEA3: proptest parameters and lengths up to 2^16 / 2^20 bits", ctx.tier.pick(30_000, 300_000), strat(1), check_eea);
    ctx.generated("eia_generated", "EIA3: proptest parameters and lengths up to 2^16 / 2^20 bits", ctx.tier.pick(30_000, 300_000), strat(0), check_eia);

    ctx.listed(
        "official_test_sets",
        "EEA3 test set 1 (193 bits), EIA3 test sets 1 (1 bit), 2 (90 bits) and the 577-bit set: published outputs",
        || vec![0u32, 1, 2, 3],
        |i| {
            let h = |s: &str| -> [u8; 16] { hex::decode(s).unwrap().try_into().unwrap() };
            match *i {
                0 => {
                    let ibs = [0x6cf65340u32, 0x735552ab, 0x0c9752fa, 0x6f9025fe, 0x0bd675d9, 0x005875b2, 0];
                    let obs = vec![0xa6c85fc6u32, 0x6afb8533, 0xaafc2518, 0xdfe78494, 0x0ee1e4b0, 0x30238cc8, 0];
                    let got = catch(|| gm_zuc::eea::EEA::new(&h("173d14ba5003731d7a60049470f00a29"), 0x66035492, 0xf, 0).encrypt(&ibs, 0xc1)).map_err(|p| Fail { key: "entry=EEA::encrypt input=valid outcome=panic".into(), detail: p })?;
                    ensure!(got == obs, "entry=EEA::encrypt outcome=wrong-output", "EEA3 test set 1: {:08x?}", got);
                }
                1 => {
                    let got = catch(|| gm_zuc::eia::EIA::new(&[0u8; 16], 0, 0, 0).gen_mac(&[0], 1)).map_err(|p| Fail { key: "entry=EIA::gen_mac input=valid outcome=panic".into(), detail: p })?;
                    ensure!(got == 0xc8a9595e, "entry=EIA::gen_mac outcome=wrong-mac", "EIA3 test set 1: {:08x}", got);
                }
                2 => {
                    let got = catch(|| gm_zuc::eia::EIA::new(&h("47054125561eb2dda94059da05097850"), 0x561eb2dd, 0x14, 0).gen_mac(&[0, 0, 0], 90)).map_err(|p| Fail { key: "entry=EIA::gen_mac input=valid outcome=panic".into(), detail: p })?;
                    ensure!(got == 0x6719a088, "entry=EIA::gen_mac outcome=wrong-mac", "EIA3 test set 2: {:08x}", got);
                }
                _ => {
                    let m = [
                        0x983b41d4u32, 0x7d780c9e, 0x1ad11d7e, 0xb70391b1, 0xde0b35da, 0x2dc62f83, 0xe7b78d63, 0x06ca0ea0, 0x7e941b7b, 0xe91348f9, 0xfcb170e2,
                        0x217fecd9, 0x7f9f68ad, 0xb16e5d7d, 0x21e569d2, 0x80ed775c, 0xebde3f40, 0x93c53881, 0,
                    ];
                    let got = catch(|| gm_zuc::eia::EIA::new(&h("c9e6cec4607c72db000aefa88385ab0a"), 0xa94059da, 0x0a, 1).gen_mac(&m, 0x0241)).map_err(|p| Fail { key: "entry=EIA::gen_mac input=valid outcome=panic".into(), detail: p })?;
                    ensure!(got == 0xfae8ff0b, "entry=EIA::gen_mac outcome=wrong-mac", "EIA3 577-bit set: {:08x}", got);
                }
            }
            pass(true, "official")
        },
    );
}
