//! C02 — SM4 block cipher matches GB/T 32907 and decrypt inverts encrypt; cipher objects are immutable.

use proptest::prelude::*;
use serde::{Deserialize, Serialize};

use crate::corpus;
use crate::engine::*;
use crate::refimpl::sm4 as rsm4;

#[derive(Serialize, Deserialize, Hash, Debug, Clone)]
pub struct KB {
    pub key: Hex,
    pub block: Hex,
}

const SUITE_KEY: &str = "0123456789abcdeffedcba9876543210";

fn arr16(b: &[u8]) -> [u8; 16] {
    let mut a = [0u8; 16];
    a.copy_from_slice(&b[..16]);
    a
}

fn lib_new(key: &[u8]) -> Result<gm_sm4::Sm4Cipher, Fail> {
    match outcome(|| gm_sm4::Sm4Cipher::new(key)) {
        Outcome::Ok(c) => Ok(c),
        o => Err(Fail {
            key: format!("entry=Sm4Cipher::new input=16-byte-key outcome={}", o.class()),
            detail: format!("key={} -> {}", hex::encode(key), o.describe()),
        }),
    }
}

fn lib_block(c: &gm_sm4::Sm4Cipher, dec: bool, block: &[u8]) -> Result<Vec<u8>, Fail> {
    let o = outcome(|| if dec { c.decrypt(block) } else { c.encrypt(block) });
    match o {
        Outcome::Ok(v) => Ok(v),
        o => Err(Fail {
            key: format!("entry=Sm4Cipher::{} input=16-byte-block outcome={}", if dec { "decrypt" } else { "encrypt" }, o.class()),
            detail: format!("block={} -> {}", hex::encode(block), o.describe()),
        }),
    }
}

pub fn check_kb(c: &KB) -> CaseResult {
    let key = arr16(&c.key);
    let blk = arr16(&c.block);
    let r = rsm4::Sm4::new(&key);
    let lib = lib_new(&key)?;
    let e = lib_block(&lib, false, &blk)?;
    let want_e = r.encrypt(&blk);
    ensure!(e[..] == want_e[..], "entry=Sm4Cipher::encrypt outcome=wrong-ciphertext",
        "key={} block={} library={} reference={}", hex::encode(key), hex::encode(blk), hex::encode(&e), hex::encode(want_e));
    let d = lib_block(&lib, true, &blk)?;
    let want_d = r.decrypt(&blk);
    ensure!(d[..] == want_d[..], "entry=Sm4Cipher::decrypt outcome=wrong-plaintext",
        "key={} block={} library={} reference={}", hex::encode(key), hex::encode(blk), hex::encode(&d), hex::encode(want_d));
    let de = lib_block(&lib, true, &e)?;
    ensure!(de[..] == blk[..], "entry=Sm4Cipher decrypt(encrypt(x))!=x", "key={} x={} got={}", hex::encode(key), hex::encode(blk), hex::encode(&de));
    let ed = lib_block(&lib, false, &d)?;
    ensure!(ed[..] == blk[..], "entry=Sm4Cipher encrypt(decrypt(y))!=y", "key={} y={} got={}", hex::encode(key), hex::encode(blk), hex::encode(&ed));
    // the same key and block handed over as windows at byte offsets 1..=3 of larger buffers: the result may not depend on where the bytes live
    for off in 1..=3usize {
        let mut kbuf = vec![0xA5u8; off];
        kbuf.extend_from_slice(&key);
        let mut bbuf = vec![0x5Au8; off];
        bbuf.extend_from_slice(&blk);
        bbuf.push(0xEE);
        let lib2 = lib_new(&kbuf[off..])?;
        let e2 = lib_block(&lib2, false, &bbuf[off..off + 16])?;
        ensure!(e2 == e, "entry=Sm4Cipher::encrypt outcome=depends-on-buffer-alignment", "key={} block={} at byte offset {} of a buffer: {} instead of {}", hex::encode(key), hex::encode(blk), off, hex::encode(&e2), hex::encode(&e));
        let d2 = lib_block(&lib2, true, &bbuf[off..off + 16])?;
        ensure!(d2 == d, "entry=Sm4Cipher::decrypt outcome=depends-on-buffer-alignment", "key={} block={} at byte offset {} of a buffer: {} instead of {}", hex::encode(key), hex::encode(blk), off, hex::encode(&d2), hex::encode(&d));
    }
    let nt = hex::encode(key) != SUITE_KEY;
    pass(nt, "both-directions")
}

#[derive(Serialize, Deserialize, Hash, Debug, Clone)]
pub struct Hist {
    pub key: Hex,
    /// (decrypt?, block)
    pub ops: Vec<(bool, Hex)>,
}

fn check_hist(h: &Hist) -> CaseResult {
    let key = arr16(&h.key);
    let r = rsm4::Sm4::new(&key);
    let lib = lib_new(&key)?;
    let snapshot = lib.clone();
    for (i, (dec, b)) in h.ops.iter().enumerate() {
        if b.len() != 16 {
            // a call the library must refuse (wrong block length): it may not change what the object does afterwards
            match outcome(|| if *dec { lib.decrypt(b) } else { lib.encrypt(b) }) {
                Outcome::Err(_) => {}
                Outcome::Ok(v) => return fail(format!("entry=Sm4Cipher::{} input={}-byte-block outcome=accepted", if *dec { "decrypt" } else { "encrypt" }, if b.len() < 16 { "short" } else { "long" }), format!("step {}: a block of {} bytes gave {}", i, b.len(), hex::encode(v))),
                Outcome::Panic(p) => return fail(format!("entry=Sm4Cipher::{} input=wrong-length-block outcome=panic", if *dec { "decrypt" } else { "encrypt" }), format!("step {}: a block of {} bytes: {}", i, b.len(), p)),
            }
            ensure!(lib == snapshot, "entry=Sm4Cipher history outcome=object-mutated", "cipher object differs from its clone after the refused call of step {}", i);
            continue;
        }
        let blk = arr16(b);
        let got = lib_block(&lib, *dec, &blk)?;
        let want = if *dec { r.decrypt(&blk) } else { r.encrypt(&blk) };
        ensure!(got[..] == want[..], "entry=Sm4Cipher history outcome=wrong-output",
            "step {} ({}) on a used cipher object: got {} want {}", i, if *dec { "dec" } else { "enc" }, hex::encode(&got), hex::encode(want));
        let fresh = lib_new(&key)?;
        let got2 = lib_block(&fresh, *dec, &blk)?;
        ensure!(got2 == got, "entry=Sm4Cipher history outcome=state-dependent", "step {}: used object {} fresh object {}", i, hex::encode(&got), hex::encode(&got2));
        ensure!(lib == snapshot, "entry=Sm4Cipher history outcome=object-mutated", "cipher object differs from its clone after step {}", i);
    }
    pass(h.ops.len() >= 2, format!("ops={}", (h.ops.len() / 8) * 8))
}

/// Histories that also clone, drop and replace the cipher object: (op, block) with op 0 encrypt, 1 decrypt, 2 make a clone, use it once and drop it,
/// 3 continue with a clone and drop the original, 4 move a clone into a thread that uses and drops it, 5 re-key in place with clone_from (the block is the new key). Every answer is compared with the reference:
/// handles must be independent of each other's lifetime.
#[derive(Serialize, Deserialize, Hash, Debug, Clone)]
pub struct Life {
    pub key: Hex,
    pub ops: Vec<(u8, Hex)>,
}

fn check_life(h: &Life) -> CaseResult {
    let key = arr16(&h.key);
    let r = rsm4::Sm4::new(&key);
    let mut lib = lib_new(&key)?;
    let mut lifecycle = 0;
    let mut r = r;
    for (i, (op, b)) in h.ops.iter().enumerate() {
        let blk = arr16(b);
        if op % 6 == 5 {
            // re-key the object in place from an object made for another key (Clone::clone_from, as containers do element-wise)
            let other = lib_new(&blk)?;
            lib.clone_from(&other);
            drop(other);
            r = rsm4::Sm4::new(&blk);
            lifecycle += 1;
            continue;
        }
        let want_e = r.encrypt(&blk);
        let use_once = |c: &gm_sm4::Sm4Cipher, what: &str| -> Result<(), Fail> {
            let got = lib_block(c, false, &blk)?;
            if got[..] != want_e[..] {
                return Err(Fail { key: format!("entry=Sm4Cipher::encrypt lifecycle outcome=wrong-ciphertext input={}", what), detail: format!("step {} of {}: {} gives {} instead of {}", i, h.ops.len(), what, hex::encode(&got), hex::encode(want_e)) });
            }
            Ok(())
        };
        match op % 6 {
            0 => use_once(&lib, if lifecycle > 0 { "object-after-a-clone-was-dropped" } else { "object" })?,
            1 => {
                let got = lib_block(&lib, true, &blk)?;
                let want = r.decrypt(&blk);
                ensure!(got[..] == want[..], "entry=Sm4Cipher::decrypt lifecycle outcome=wrong-plaintext", "step {} of {} ({} clone/drop events before): {} instead of {}", i, h.ops.len(), lifecycle, hex::encode(&got), hex::encode(want));
            }
            2 => {
                let c = lib.clone();
                use_once(&c, "clone")?;
                drop(c);
                lifecycle += 1;
            }
            3 => {
                let c = lib.clone();
                let old = std::mem::replace(&mut lib, c);
                drop(old);
                lifecycle += 1;
            }
            _ => {
                let c = lib.clone();
                let res = std::thread::scope(|s| s.spawn(move || { let o = outcome(|| c.encrypt(&blk)); drop(c); o }).join());
                match res {
                    Ok(Outcome::Ok(v)) => ensure!(v[..] == want_e[..], "entry=Sm4Cipher::encrypt lifecycle outcome=wrong-ciphertext input=clone-in-thread", "step {}: {}", i, hex::encode(&v)),
                    Ok(o) => return fail("entry=Sm4Cipher::encrypt lifecycle input=clone-in-thread outcome=failure", o.describe()),
                    Err(_) => return fail("entry=Sm4Cipher::encrypt lifecycle input=clone-in-thread outcome=panic", "thread panicked".to_string()),
                }
                lifecycle += 1;
            }
        }
    }
    pass(lifecycle > 0 && h.ops.len() >= 2, format!("ops={}/{}", (h.ops.len() / 4) * 4, if lifecycle > 0 { "with-clone-drop" } else { "plain" }))
}

fn any16() -> impl Strategy<Value = Hex> {
    prop_oneof![
        6 => prop::array::uniform16(any::<u8>()).prop_map(|a| Hex(a.to_vec())),
        1 => any::<u8>().prop_map(|b| Hex(vec![b; 16])),
        1 => (0..128usize).prop_map(|i| { let mut v = vec![0u8; 16]; v[i / 8] = 0x80 >> (i % 8); Hex(v) }),
        1 => (0..128usize).prop_map(|i| { let mut v = vec![0xFFu8; 16]; v[i / 8] ^= 0x80 >> (i % 8); Hex(v) }),
    ]
}

#[derive(Serialize, Deserialize, Hash, Debug, Clone)]
pub struct Idx {
    pub index: usize,
}

pub fn run(ctx: &Ctx) {
    ctx.set_rule(
        "cases are (key, block) pairs, each checked in both directions (enc == ref, dec == ref, dec(enc(x)) == x, enc(dec(y)) == y; and again with key and block passed as windows at byte offsets 1..3 of larger buffers): \
         all single-bit keys x single-bit blocks (128x128), all repeated-byte keys x blocks (256x256), inputs crafted with the reference key \
         schedule so that every S-box input value passes through all four lanes in round 1 of the data path and of the key schedule, \
         proptest keys/blocks (uniform, repeated-byte, single-bit, single-zero-bit), call histories on one cipher object compared with a \
         fresh object, the reference and its own clone; OpenSSL `enc -sm4-ecb` corpus and the two GB/T 32907 examples. \
         Non-trivial: key differs from the repository test's single key (every case includes decryption); distinct by hash of (key, block).",
    );
    ctx.assume("reference SM4 (harness/src/refimpl/sm4.rs): S-box generated algebraically and checked to be a bijection, CK from its formula; anchored on GB/T 32907 example 1/2 and 256 OpenSSL ECB triples");

    ctx.cold("cold_start_histories", "call histories on a cipher object in a fresh process, starting with decrypt (resp. encrypt): the very first block operation of the process must already be right", || {
        let mut v = Vec::new();
        for i in 0..6u64 {
            let dec_first = i % 2 == 0;
            v.push(Hist { key: Hex(expand_bytes(i ^ 0xc02d, 16)), ops: vec![(dec_first, Hex(expand_bytes(i ^ 0x11, 16))), (!dec_first, Hex(expand_bytes(i ^ 0x22, 16))), (dec_first, Hex(expand_bytes(i ^ 0x33, 16)))] });
        }
        v.push(Hist { key: Hex(hex::decode(SUITE_KEY).unwrap()), ops: vec![(true, Hex(hex::decode("681edf34d206965e86b3e94f536e4246").unwrap()))] });
        v
    }, check_hist);

    ctx.cold("cold_start_concurrent", "eight threads of a fresh process make their first block operation at the same moment (four start with decrypt, four with encrypt): racy lazy initialisation would show here", || {
        (0..3u64).map(|r| (0..8u64).map(|i| Hist { key: Hex(expand_bytes((r << 8 | i) ^ 0xc02e, 16)), ops: vec![(i % 2 == 0, Hex(expand_bytes((r << 8 | i) ^ 0x44, 16))), (i % 2 == 1, Hex(expand_bytes((r << 8 | i) ^ 0x55, 16)))] }).collect::<Vec<_>>()).collect::<Vec<_>>()
    }, |steps: &Vec<Hist>| par(steps, check_hist));

    ctx.exhaustive(
        "single_bit_key_x_block",
        "all 128 single-bit keys x 128 single-bit blocks",
        || {
            let mut v = Vec::with_capacity(128 * 128);
            for i in 0..128usize {
                for j in 0..128usize {
                    let mut k = vec![0u8; 16];
                    k[i / 8] = 0x80 >> (i % 8);
                    let mut b = vec![0u8; 16];
                    b[j / 8] = 0x80 >> (j % 8);
                    v.push(KB { key: Hex(k), block: Hex(b) });
                }
            }
            v
        },
        check_kb,
    );

    ctx.exhaustive(
        "repeated_byte_key_x_block",
        "all 256 repeated-byte keys x 256 repeated-byte blocks",
        || {
            let mut v = Vec::with_capacity(65536);
            for i in 0..256usize {
                for j in 0..256usize {
                    v.push(KB { key: Hex(vec![i as u8; 16]), block: Hex(vec![j as u8; 16]) });
                }
            }
            v
        },
        check_kb,
    );

    ctx.exhaustive(
        "sbox_entry_coverage",
        "256 data-path inputs + 256 keys driving each S-box input value through all four lanes of round 1",
        || {
            let mut v = Vec::new();
            let key: [u8; 16] = arr16(&expand_bytes(ctx.seed ^ 0x5b0c, 16));
            let r = rsm4::Sm4::new(&key);
            for val in 0..256u32 {
                let w = val * 0x01010101;
                // data path: X1 = w ^ rk0, X2 = X3 = 0
                let mut b = [0u8; 16];
                b[4..8].copy_from_slice(&(w ^ r.rk[0]).to_be_bytes());
                debug_assert_eq!(r.round1_input(&b), w);
                v.push(KB { key: Hex(key.to_vec()), block: Hex(b.to_vec()) });
                // key schedule: MK1 = w ^ FK1 ^ FK2 ^ FK3 ^ CK0, MK2 = MK3 = 0
                let mut k = [0u8; 16];
                let mk1 = w ^ rsm4::FK[1] ^ rsm4::FK[2] ^ rsm4::FK[3] ^ rsm4::ck(0);
                k[4..8].copy_from_slice(&mk1.to_be_bytes());
                v.push(KB { key: Hex(k.to_vec()), block: Hex(expand_bytes(val as u64, 16)) });
            }
            v
        },
        check_kb,
    );

    ctx.exhaustive(
        "structured_round_keys",
        "keys obtained by inverting the key schedule from structured final round keys: all 4^4 assignments of {0, FFFFFFFF, a, b} x 4 blocks",
        || {
            let pool = [0u32, 0xFFFF_FFFF, 0x0123_4567, 0x89AB_CDEF];
            let mut v = Vec::new();
            for m in 0..256usize {
                let last = [pool[m & 3], pool[(m >> 2) & 3], pool[(m >> 4) & 3], pool[(m >> 6) & 3]];
                let key = rsm4::Sm4::key_from_last_round_keys(last);
                for b in 0..4u64 {
                    let block = match b {
                        0 => vec![0u8; 16],
                        1 => vec![0xFF; 16],
                        _ => expand_bytes(m as u64 * 4 + b, 16),
                    };
                    v.push(KB { key: Hex(key.to_vec()), block: Hex(block) });
                }
            }
            v
        },
        check_kb,
    );

    ctx.exhaustive(
        "special_round_key_at_every_position",
        "keys obtained by inverting the key schedule so that round key rk[i] is a special word (0, 1, 2^31, 2^32-1, 0x01010101, 0x80808080), for every i in 0..32, the three neighbouring round keys pseudo-random; 2 blocks each",
        || {
            let mut v = Vec::new();
            for i in 0..32usize {
                for (j, w) in [0u32, 1, 0x8000_0000, 0xFFFF_FFFF, 0x0101_0101, 0x8080_8080].iter().enumerate() {
                    let pos = i.min(28);
                    let fill = expand_bytes((i * 8 + j) as u64 ^ 0x5c02, 16);
                    let mut win = [0u32; 4];
                    for t in 0..4 {
                        win[t] = u32::from_be_bytes([fill[4 * t], fill[4 * t + 1], fill[4 * t + 2], fill[4 * t + 3]]);
                    }
                    win[i - pos] = *w;
                    let key = rsm4::Sm4::key_from_round_key_window(pos, win);
                    debug_assert_eq!(rsm4::Sm4::new(&key).rk[i], *w);
                    for b in 0..2u64 {
                        v.push(KB { key: Hex(key.to_vec()), block: Hex(expand_bytes((i * 16 + j * 2) as u64 + b, 16)) });
                    }
                }
            }
            v
        },
        |c| {
            let rk = rsm4::Sm4::new(&arr16(&c.key)).rk;
            if !rk.iter().any(|w| matches!(*w, 0 | 1 | 0x8000_0000 | 0xFFFF_FFFF | 0x0101_0101 | 0x8080_8080)) {
                return pass(false, "crafting-failed");
            }
            check_kb(c)
        },
    );

    ctx.exhaustive(
        "special_round_values_at_every_round",
        "blocks crafted by running the rounds backwards so that, at round i of encryption (resp. decryption), the round transform's input, its output or the new state word is a special word \
         (T input 0 / FFFFFFFF / the S-box preimages of 00 and FF in all lanes; T output 0 (the state word does not move), 1, 2^31, FFFFFFFF, equal to X_i (new word 0), complement of X_i (new word FFFFFFFF)); every i in 0..32, both directions, 2 keys",
        || {
            let mut v = Vec::new();
            for kx in 0..2u64 {
                let key: [u8; 16] = if kx == 0 { arr16(&hex::decode(SUITE_KEY).unwrap()) } else { arr16(&expand_bytes(ctx.seed ^ 0x5c2f, 16)) };
                let r = rsm4::Sm4::new(&key);
                for dec in [false, true] {
                    for i in 0..32usize {
                        let rk = if dec { r.rk[31 - i] } else { r.rk[i] };
                        let fill = expand_bytes(((i as u64) << 3 | kx << 1 | dec as u64) ^ 0x0f1e, 12);
                        let w = |t: usize| u32::from_be_bytes([fill[4 * t], fill[4 * t + 1], fill[4 * t + 2], fill[4 * t + 3]]);
                        let (x0, x1, x2) = (w(0), w(1), w(2));
                        let with_tin = |tin: u32, x0: u32| r.block_with_state_at_round(i, [x0, x1, x2, tin ^ rk ^ x1 ^ x2], dec);
                        let mut tins: Vec<(u32, u32)> = Vec::new();
                        for t in [0u32, 0xFFFF_FFFF, rsm4::t_data_inv(0), rsm4::t_data_inv(0xFFFF_FFFF), rsm4::t_data_inv(1), rsm4::t_data_inv(0x8000_0000)] {
                            tins.push((t, x0));
                        }
                        // S-box preimage of FF in all lanes
                        let pre_ff = (0..256u32).find(|b| rsm4::sbox()[*b as usize] == 0xFF).unwrap() * 0x0101_0101;
                        tins.push((pre_ff, x0));
                        // new state word 0 / FFFFFFFF: X_i = T(tin) (resp. its complement)
                        tins.push((w(1) ^ 0x1234_5678, rsm4::t_data(w(1) ^ 0x1234_5678)));
                        tins.push((w(2) ^ 0x9abc_def0, !rsm4::t_data(w(2) ^ 0x9abc_def0)));
                        for (tin, x0) in tins {
                            v.push(KB { key: Hex(key.to_vec()), block: Hex(with_tin(tin, x0).to_vec()) });
                        }
                    }
                }
            }
            v
        },
        check_kb,
    );

    ctx.generated(
        "generated_key_block",
        "proptest (key, block) from uniform / repeated-byte / single-bit / single-zero-bit",
        ctx.tier.pick(200_000, 4_000_000),
        || (any16(), any16()).prop_map(|(key, block)| KB { key, block }),
        check_kb,
    );

    ctx.generated(
        "clone_and_drop_histories",
        "vec((op, block), 2..16) on one cipher object where op is encrypt, decrypt, clone-use-drop, continue-with-the-clone-and-drop-the-original, clone-moved-into-a-thread, re-keyed-in-place-by-clone_from-from-an-object-with-another-key: every answer == reference for the key the object now holds (handles may not depend on each other's lifetime)",
        ctx.tier.pick(3_000, 60_000),
        || (any16(), prop::collection::vec((0..6u8, any16()), 2..16)).prop_map(|(key, ops)| Life { key, ops }),
        check_life,
    );

    ctx.generated(
        "call_histories_with_refused_calls",
        "vec((enc|dec, block), 1..24) on one cipher object in which about one call in four has a block of the wrong length (0, 1, 15, 17, 31, 32 bytes) and must be refused: every later call is compared with a fresh object, the reference and the clone",
        ctx.tier.pick(4_000, 100_000),
        || {
            let blk = prop_oneof![3 => any16(), 1 => (prop::sample::select(vec![0usize, 1, 15, 17, 31, 32]), any::<u64>()).prop_map(|(l, s)| Hex(expand_bytes(s, l)))];
            (any16(), prop::collection::vec((any::<bool>(), blk), 1..24)).prop_map(|(key, ops)| Hist { key, ops })
        },
        check_hist,
    );

    ctx.generated(
        "call_histories",
        "vec((enc|dec, block), 0..64) on one cipher object vs fresh object, reference and clone",
        ctx.tier.pick(4_000, 100_000),
        || (any16(), prop::collection::vec((any::<bool>(), any16()), 0..64)).prop_map(|(key, ops)| Hist { key, ops }),
        check_hist,
    );

    ctx.listed(
        "openssl_ecb_corpus",
        "256 (key, pt, ct) triples from openssl enc -sm4-ecb -nopad",
        || (0..corpus::openssl()["sm4_ecb"].as_array().unwrap().len()).map(|index| Idx { index }).collect(),
        |c| {
            let e = &corpus::openssl()["sm4_ecb"][c.index];
            let (key, pt, ct) = (corpus::hexv(&e["key"]), corpus::hexv(&e["pt"]), corpus::hexv(&e["ct"]));
            let r = rsm4::Sm4::new(&arr16(&key));
            ensure!(r.encrypt(&arr16(&pt))[..] == ct[..], "reference-vs-openssl sm4", "reference SM4 disagrees with OpenSSL on entry {}", c.index);
            let lib = lib_new(&key)?;
            let got = lib_block(&lib, false, &pt)?;
            ensure!(got == ct, "entry=Sm4Cipher::encrypt outcome=wrong-ciphertext", "corpus {}: key={} pt={} library={} openssl={}", c.index, hex::encode(&key), hex::encode(&pt), hex::encode(&got), hex::encode(&ct));
            let back = lib_block(&lib, true, &ct)?;
            ensure!(back == pt, "entry=Sm4Cipher::decrypt outcome=wrong-plaintext", "corpus {}: library decrypt {} want {}", c.index, hex::encode(&back), hex::encode(&pt));
            pass(hex::encode(&key) != SUITE_KEY, "corpus")
        },
    );

    ctx.listed_seq(
        "standard_million",
        "GB/T 32907 example 2: 1,000,000 chained encryptions under the example key (library), and back",
        || vec![Idx { index: 1_000_000 }],
        |c| {
            let key = hex::decode(SUITE_KEY).unwrap();
            let lib = lib_new(&key)?;
            let mut b = key.clone();
            for _ in 0..c.index {
                b = lib_block(&lib, false, &b)?;
            }
            if c.index == 1_000_000 {
                ensure!(hex::encode(&b) == "595298c7c6fd271f0402f804c33d3f66", "entry=Sm4Cipher::encrypt outcome=wrong-ciphertext", "1e6 iterations give {}", hex::encode(&b));
            }
            let mut d = b.clone();
            for _ in 0..c.index {
                d = lib_block(&lib, true, &d)?;
            }
            ensure!(d == key, "entry=Sm4Cipher::decrypt outcome=wrong-plaintext", "1e6 chained decryptions do not return to the start: {}", hex::encode(&d));
            pass(true, "million")
        },
    );
}
