//! C06 — SM2 decryption rejects every tampered or invalid-curve ciphertext.

use num_bigint::BigUint;
use num_traits::Zero;
use proptest::prelude::*;
use serde::{Deserialize, Serialize};
use std::collections::HashMap;
use std::sync::{Arc, Mutex};

use super::c05::model;
use super::multi::{self, Multi};
use super::sm2util::*;
use crate::engine::*;
use crate::gen;
use crate::refimpl::ec::{Curve, Pt};
use crate::refimpl::field::{from_be, to32, Fld, Fp};
use crate::refimpl::sm2 as r2;
use crate::refimpl::sm3 as rsm3;

#[derive(Serialize, Deserialize, Hash, Debug, Clone, PartialEq, Eq)]
pub struct Base {
    pub d: Hex,
    pub msg_len: usize,
    pub msg_seed: u64,
    pub compressed: bool,
    pub c1c3c2: bool,
    pub k: Hex,
}

#[derive(Serialize, Deserialize, Hash, Debug, Clone, PartialEq, Eq)]
pub enum Tamper {
    None,
    FlipBit(u32),
    Truncate(u16),
    Extend(u8, u8),
    /// C1 replaced by a random (x, y) that is on no particular curve relation with d — C2/C3 forged consistently
    C1OffCurveForged(u64),
    /// C1 = (x, y+1) etc.: a point next to the genuine one, C2/C3 left alone
    C1Nudged(u8),
    /// compressed form whose x has a non-residue right-hand side
    C1NonResidue(u64),
    /// genuine on-curve C1 with small x, encoded as x + p (non-canonical), C2/C3 forged consistently
    C1XPlusP(u8),
    /// prefix byte replaced
    Prefix(u8),
    /// C1 = the encoding of a valid point but of the other kind (compressed <-> uncompressed mismatch with the flag)
    WrongKind,
    /// a multi-byte alteration (see props/multi.rs) of region 0: C3, 1: C2, 2: the x coordinate of C1, 3: everything after the prefix byte
    Multi(u8, Multi),
    /// the same ciphertext in another encoding, offered to the raw decryptor: 0 GM/T 0009 SM2Cipher DER; 1 hex text; 2 DER with 04 prepended; 3 the other component order
    AltEncoding(u8),
    /// C1 whose coordinates are special values #i, #j of {0, 1, p-1, p, n, 2^256-1} (uncompressed) or x = #i (compressed); C2/C3 left alone.
    /// (0,0) is how some encoders write the point at infinity.
    C1Special(u8, u8),
    /// C1 = (x, 0): on no curve with these formulas other than as a point of order two. C2/C3 are forged for the shared point an unchecked
    /// decryptor would compute: (x, 0) itself for odd d, and the all-zero coordinates of a normalised point at infinity for even d
    C1OrderTwoForged(u64),
    /// C1 = point #i of sm2util::near_curve_points (off the curve, on a neighbouring equation with one constant changed, abscissa at a representation boundary);
    /// C2/C3 forged consistently for [d]C1 as the group-law formulas compute it
    C1NearCurveForged(u16),
}

#[derive(Serialize, Deserialize, Hash, Debug, Clone)]
pub struct Case {
    pub base: Base,
    pub tamper: Tamper,
}

struct BaseData {
    msg: Vec<u8>,
    ct: Vec<u8>,
}

fn base_data(b: &Base) -> Option<Arc<BaseData>> {
    static CACHE: Mutex<Option<HashMap<Base, Option<Arc<BaseData>>>>> = Mutex::new(None);
    if let Some(v) = CACHE.lock().unwrap().get_or_insert_with(HashMap::new).get(b) {
        return v.clone();
    }
    let d = from_be(&b.d);
    let msg = expand_bytes(b.msg_seed, b.msg_len.max(1));
    let v = r2::encrypt_with_k(&r2::g_mul(&d), &msg, &from_be(&b.k)).map(|c| Arc::new(BaseData { ct: c.encode(b.compressed, b.c1c3c2), msg }));
    let mut g = CACHE.lock().unwrap();
    let m = g.get_or_insert_with(HashMap::new);
    if m.len() > 4096 {
        m.clear();
    }
    m.insert(b.clone(), v.clone());
    v
}

/// Forge C2/C3 for an arbitrary C1 = (x, y) the way an attacker who could evaluate [d](x,y) would:
/// the shared point is computed with the group law of the curve y^2 = x^3 + ax + b' that (x,y) lies on.
fn forge(d: &BigUint, x: &BigUint, y: &BigUint, msg: &[u8]) -> Option<(Vec<u8>, [u8; 32])> {
    let pr = r2::params();
    let (xf, yf) = (r2::fp(x), r2::fp(y));
    let b_prime = yf.sqr().sub(&xf.sqr().mul(&xf)).sub(&pr.curve.a.mul(&xf));
    let cv = Curve { a: pr.curve.a.clone(), b: b_prime };
    let shared: Pt<Fp> = cv.mul(d, &Some((xf, yf)));
    let (x2, y2) = r2::xy(&shared)?;
    let t = rsm3::kdf(&[&x2[..], &y2[..]].concat(), msg.len());
    let c2: Vec<u8> = msg.iter().zip(t.iter()).map(|(a, b)| a ^ b).collect();
    let c3 = rsm3::sm3_parts(&[&x2, msg, &y2]);
    Some((c2, c3))
}

fn assemble(c1: &[u8], c2: &[u8], c3: &[u8], c1c3c2: bool) -> Vec<u8> {
    let mut v = c1.to_vec();
    if c1c3c2 {
        v.extend_from_slice(c3);
        v.extend_from_slice(c2);
    } else {
        v.extend_from_slice(c2);
        v.extend_from_slice(c3);
    }
    v
}

/// on-curve points with x < 2^256 - p, found by walking x = start, start+1, ...
fn small_x_point(start: u64, want_odd: bool) -> (BigUint, BigUint) {
    let pr = r2::params();
    let mut x = BigUint::from(start);
    loop {
        let xf = r2::fp(&x);
        let rhs = xf.sqr().mul(&xf).add(&pr.curve.a.mul(&xf)).add(&pr.curve.b);
        if let Some(y) = rhs.sqrt_3mod4() {
            let y = if y.v.bit(0) == want_odd { y } else { y.neg() };
            return (x, y.v);
        }
        x += 1u32;
    }
}

pub fn check(c: &Case) -> CaseResult {
    let pr = r2::params();
    let Some(bd) = base_data(&c.base) else { return pass(false, "base-needs-retry") };
    let d = from_be(&c.base.d);
    let b = &c.base;
    let c1len = if b.compressed { 33 } else { 65 };
    let mut ct = bd.ct.clone();
    let class: &'static str;
    match &c.tamper {
        Tamper::None => class = "untouched",
        Tamper::FlipBit(i) => {
            let i = *i as usize % (ct.len() * 8);
            ct[i / 8] ^= 0x80 >> (i % 8);
            class = if i / 8 == 0 { "flip-prefix" } else if i / 8 < c1len { "flip-C1" } else { "flip-C2C3" };
        }
        Tamper::Truncate(l) => {
            let l = *l as usize % ct.len();
            ct.truncate(l);
            class = if l < c1len + 33 { "truncated-short" } else { "truncated" };
        }
        Tamper::Extend(n, byte) => {
            ct.extend(std::iter::repeat(*byte).take(1 + *n as usize % 40));
            class = "extended";
        }
        Tamper::C1OffCurveForged(seed) => {
            let x = from_be(&expand_bytes(*seed, 32)) % pr.p;
            let y = from_be(&expand_bytes(seed ^ 0xff, 32)) % pr.p;
            if pr.curve.on_curve(&r2::pt(&x, &y)) || y.is_zero() {
                return pass(false, "accidentally-on-curve");
            }
            let Some((c2, c3)) = forge(&d, &x, &y, &bd.msg) else { return pass(false, "forge-infinity") };
            let mut c1 = vec![if b.compressed { 2 | (to32(&y)[31] & 1) } else { 4 }];
            c1.extend_from_slice(&to32(&x));
            if !b.compressed {
                c1.extend_from_slice(&to32(&y));
            } else {
                // a compressed encoding decodes to a curve point or fails; the off-curve forgery only exists uncompressed
                return pass(false, "off-curve-needs-uncompressed");
            }
            ct = assemble(&c1, &c2, &c3, b.c1c3c2);
            class = "invalid-curve-forged";
        }
        Tamper::C1NearCurveForged(i) => {
            if b.compressed {
                return pass(false, "off-curve-needs-uncompressed");
            }
            let pts = near_curve_points();
            let (_, x, y) = &pts[*i as usize % pts.len()];
            let Some((c2, c3)) = forge(&d, x, y, &bd.msg) else { return pass(false, "forge-infinity") };
            let mut c1 = vec![4u8];
            c1.extend_from_slice(&to32(x));
            c1.extend_from_slice(&to32(y));
            ct = assemble(&c1, &c2, &c3, b.c1c3c2);
            class = "near-curve-forged";
        }
        Tamper::C1Nudged(w) => {
            if b.compressed {
                // x + 1 in compressed form
                let x = from_be(&ct[1..33]);
                ct[1..33].copy_from_slice(&to32(&((x + 1u32) % pr.p)));
            } else {
                let (lo, hi) = if w % 2 == 0 { (1, 33) } else { (33, 65) };
                let v = from_be(&ct[lo..hi]);
                ct[lo..hi].copy_from_slice(&to32(&((v + 1u32 + (*w as u32 / 2)) % pr.p)));
            }
            class = "C1-nudged";
        }
        Tamper::C1NonResidue(seed) => {
            if !b.compressed {
                return pass(false, "non-residue-needs-compressed");
            }
            let mut x = from_be(&expand_bytes(*seed, 32)) % pr.p;
            loop {
                let xf = r2::fp(&x);
                if xf.sqr().mul(&xf).add(&pr.curve.a.mul(&xf)).add(&pr.curve.b).sqrt_3mod4().is_none() {
                    break;
                }
                x = (x + 1u32) % pr.p;
            }
            ct[1..33].copy_from_slice(&to32(&x));
            class = "C1-non-residue";
        }
        Tamper::C1XPlusP(sel) => {
            let (x, y) = small_x_point(*sel as u64 * 977, sel % 2 == 1);
            let Some((c2, c3)) = forge(&d, &x, &y, &bd.msg) else { return pass(false, "forge-infinity") };
            let xe = &x + pr.p;
            if xe.bits() > 256 {
                return pass(false, "x+p-does-not-fit");
            }
            let mut c1 = vec![if b.compressed { 2 | (to32(&y)[31] & 1) } else { 4 }];
            c1.extend_from_slice(&to32(&xe));
            if !b.compressed {
                c1.extend_from_slice(&to32(&y));
            }
            ct = assemble(&c1, &c2, &c3, b.c1c3c2);
            class = "C1-coordinate>=p-forged";
        }
        Tamper::Prefix(p) => {
            if ct[0] == *p {
                return pass(false, "same-prefix");
            }
            ct[0] = *p;
            class = "prefix";
        }
        Tamper::WrongKind => {
            // re-encode the genuine C1 in the other form while the caller still claims the original form
            let parsed = r2::parse_ciphertext(&bd.ct, b.compressed, b.c1c3c2).unwrap();
            let other = if b.compressed { r2::encode_uncompressed(&parsed.c1) } else { r2::encode_compressed(&parsed.c1) };
            ct = assemble(&other, &parsed.c2, &parsed.c3, b.c1c3c2);
            class = "wrong-kind";
        }
        Tamper::C1OrderTwoForged(seed) => {
            if b.compressed {
                return pass(false, "order-two-needs-uncompressed");
            }
            let x = from_be(&expand_bytes(*seed ^ 0x02de, 32)) % pr.p;
            let zero = BigUint::zero();
            let (x2, y2): ([u8; 32], [u8; 32]) = if d.bit(0) { (to32(&x), [0u8; 32]) } else { ([0u8; 32], [0u8; 32]) };
            let t = rsm3::kdf(&[&x2[..], &y2[..]].concat(), bd.msg.len());
            let c2: Vec<u8> = bd.msg.iter().zip(t.iter()).map(|(a, b)| a ^ b).collect();
            let c3 = rsm3::sm3_parts(&[&x2, &bd.msg, &y2]);
            let mut c1 = vec![4u8];
            c1.extend_from_slice(&to32(&x));
            c1.extend_from_slice(&to32(&zero));
            ct = assemble(&c1, &c2, &c3, b.c1c3c2);
            class = "order-two-forged";
        }
        Tamper::C1Special(i, j) => {
            let vals: Vec<BigUint> = vec![BigUint::zero(), BigUint::from(1u32), pr.p - 1u32, pr.p.clone(), pr.n.clone(), (BigUint::from(1u32) << 256) - 1u32];
            ct[1..33].copy_from_slice(&to32(&vals[*i as usize % vals.len()]));
            if !b.compressed {
                ct[33..65].copy_from_slice(&to32(&vals[*j as usize % vals.len()]));
            }
            class = "C1-special-coordinates";
        }
        Tamper::AltEncoding(kind) => {
            let parsed = r2::parse_ciphertext(&bd.ct, b.compressed, b.c1c3c2).unwrap();
            let (x, y) = r2::xy(&parsed.c1).unwrap();
            let doc = crate::refimpl::der::sm2_cipher(&from_be(&x), &from_be(&y), &parsed.c3, &parsed.c2);
            ct = match kind % 4 {
                0 => doc,
                1 => hex::encode(&bd.ct).into_bytes(),
                2 => { let mut v = vec![4u8]; v.extend_from_slice(&doc); v }
                _ => parsed.encode(b.compressed, !b.c1c3c2),
            };
            class = "alt-encoding";
        }
        Tamper::Multi(region, m) => {
            let (c3lo, c2lo, c2hi) = if b.c1c3c2 { (c1len, c1len + 32, ct.len()) } else { (ct.len() - 32, c1len, ct.len() - 32) };
            let (lo, hi, name) = match region % 4 {
                0 => (c3lo, c3lo + 32, "multi-C3"),
                1 => (c2lo, c2hi, "multi-C2"),
                2 => (1, 33, "multi-C1x"),
                _ => (1, ct.len(), "multi-body"),
            };
            if !multi::apply(&mut ct[lo..hi], m) {
                return pass(false, "multi-noop");
            }
            class = name;
        }
    }
    let want = r2::decrypt(&d, &ct, b.compressed, b.c1c3c2);
    let sk = lib_sk(&d).map_err(|e| Fail { key: "entry=Sm2PrivateKey::new input=d-in-[1,n-2] outcome=rejected".into(), detail: e })?;
    let got = outcome(|| sk.decrypt(&ct, b.compressed, model(b.c1c3c2)));
    let cfg = format!("{}/{}", if b.compressed { "compressed" } else { "uncompressed" }, if b.c1c3c2 { "C1C3C2" } else { "C1C2C3" });
    match (&got, &want) {
        (Outcome::Panic(p), _) => return fail(format!("entry=Sm2PrivateKey::decrypt input={} outcome=panic", class), format!("{} tamper={:?} ct={} -> {}", cfg, c.tamper, hexs::hx(&ct), p)),
        (Outcome::Ok(m), Some(w)) => {
            ensure!(m == w && *m == bd.msg, "entry=Sm2PrivateKey::decrypt outcome=wrong-plaintext", "{} tamper={:?}: library {} reference {} original {}", cfg, c.tamper, hexs::hx(m), hexs::hx(w), hexs::hx(&bd.msg));
        }
        (Outcome::Err(_), None) => {}
        (Outcome::Ok(m), None) => {
            return fail(format!("entry=Sm2PrivateKey::decrypt input={} outcome=accepted-invalid", class),
                format!("{} tamper={:?} ct={}: library returns plaintext {} (original {}), the standard's decryption reports an error", cfg, c.tamper, hexs::hx(&ct), hexs::hx(m), hexs::hx(&bd.msg)));
        }
        (Outcome::Err(e), Some(_)) => {
            return fail(format!("entry=Sm2PrivateKey::decrypt input={} outcome=rejected-valid", class), format!("{} tamper={:?} ct={}: {}", cfg, c.tamper, hexs::hx(&ct), e));
        }
    }
    // the same ciphertext re-framed as a GM/T 0009 SM2Cipher document and offered to decrypt_asn1: the second entry point must reach the same verdict
    // (uncompressed framing only: the document carries both coordinates, the compressed flag would make the decoder recompute y)
    if !b.compressed && ct.len() >= 97 && ct[0] == 4 && !matches!(c.tamper, Tamper::AltEncoding(_) | Tamper::WrongKind) {
        let (c3, c2) = if b.c1c3c2 { (ct[65..97].to_vec(), ct[97..].to_vec()) } else { (ct[ct.len() - 32..].to_vec(), ct[65..ct.len() - 32].to_vec()) };
        let doc = crate::refimpl::der::sm2_cipher(&from_be(&ct[1..33]), &from_be(&ct[33..65]), &c3, &c2);
        let got2 = outcome(|| sk.decrypt_asn1(&doc, false, model(b.c1c3c2)));
        match (&got2, &want) {
            (Outcome::Panic(p), _) => return fail(format!("entry=Sm2PrivateKey::decrypt_asn1 input={} outcome=panic", class), format!("{} tamper={:?} doc={} -> {}", cfg, c.tamper, hexs::hx(&doc), p)),
            (Outcome::Ok(m), Some(w)) => ensure!(m == w, "entry=Sm2PrivateKey::decrypt_asn1 outcome=wrong-plaintext", "{} tamper={:?}: library {} reference {}", cfg, c.tamper, hexs::hx(m), hexs::hx(w)),
            (Outcome::Err(_), None) => {}
            (Outcome::Ok(m), None) => {
                return fail(format!("entry=Sm2PrivateKey::decrypt_asn1 input={} outcome=accepted-invalid", class),
                    format!("{} tamper={:?} doc={}: library returns plaintext {} (original {}), the standard's decryption reports an error", cfg, c.tamper, hexs::hx(&doc), hexs::hx(m), hexs::hx(&bd.msg)));
            }
            (Outcome::Err(e), Some(_)) => return fail(format!("entry=Sm2PrivateKey::decrypt_asn1 input={} outcome=rejected-valid", class), format!("{} tamper={:?} doc={}: {}", cfg, c.tamper, hexs::hx(&doc), e)),
        }
    }
    pass(want.is_none(), format!("{}/{}", class, cfg))
}

fn fixed_bases(seed: u64, count: usize) -> Vec<Base> {
    let n = &r2::params().n;
    (0..count)
        .map(|i| {
            let s = seed.wrapping_mul(1009) + i as u64;
            Base {
                d: gen::hex32(&(from_be(&expand_bytes(s ^ 0xd6, 32)) % (n - 2u32) + 1u32)),
                msg_len: [1usize, 19, 32, 64, 240, 33, 48, 2, 5, 500, 100, 287][i % 12],
                msg_seed: s,
                compressed: i & 1 == 1,
                c1c3c2: i & 2 == 2,
                k: gen::hex32(&(from_be(&expand_bytes(s ^ 0x4b6, 32)) % (n - 1u32) + 1u32)),
            }
        })
        .collect()
}

fn base_strategy() -> impl Strategy<Value = Base> {
    let n = r2::params().n.clone();
    (gen::secret_scalar(&(&n - 2u32)), prop_oneof![4 => 1..=64usize, 1 => 65..=600usize], any::<u64>(), any::<bool>(), any::<bool>(), gen::secret_scalar(&(&n - 1u32)))
        .prop_map(|(d, msg_len, msg_seed, compressed, c1c3c2, k)| Base { d, msg_len, msg_seed, compressed, c1c3c2, k })
}

pub fn tamper_strategy() -> impl Strategy<Value = Tamper> {
    prop_oneof![
        6 => any::<u32>().prop_map(Tamper::FlipBit),
        3 => any::<u16>().prop_map(Tamper::Truncate),
        2 => (any::<u8>(), any::<u8>()).prop_map(|(n, b)| Tamper::Extend(n, b)),
        3 => any::<u64>().prop_map(Tamper::C1OffCurveForged),
        3 => any::<u16>().prop_map(Tamper::C1NearCurveForged),
        2 => (0..8u8).prop_map(Tamper::C1Nudged),
        2 => any::<u64>().prop_map(Tamper::C1NonResidue),
        2 => (0..16u8).prop_map(Tamper::C1XPlusP),
        2 => any::<u8>().prop_map(Tamper::Prefix),
        1 => Just(Tamper::WrongKind),
        1 => Just(Tamper::None),
        6 => (prop_oneof![3 => Just(0u8), 1 => Just(1u8), 1 => Just(2u8), 1 => Just(3u8)], multi::strategy()).prop_map(|(r, m)| Tamper::Multi(r, m)),
        2 => (0..4u8).prop_map(Tamper::AltEncoding),
        2 => (0..6u8, 0..6u8).prop_map(|(i, j)| Tamper::C1Special(i, j)),
        2 => any::<u64>().prop_map(Tamper::C1OrderTwoForged),
    ]
}

pub fn run(ctx: &Ctx) {
    ctx.set_rule(
        "a case is (base, tampering): the base is a ciphertext made by the *reference* encryptor (|M| 1..64, four configurations); tamperings: every single-bit flip incl. the prefix byte (exhaustive per base), \
         every truncation length, small extensions, C1 replaced by a random off-curve (x,y) with C2/C3 forged consistently through the group law of the curve y^2=x^3+ax+b' it lies on (invalid-curve attack: \
         without an on-curve check the library returns the plaintext), the same with C1 from the near-curve family (off the curve but on a neighbouring equation with one constant changed, abscissas at representation boundaries incl. those where the Montgomery image of x, x^2 or x^3 is next to 0 or p), C1 = (x, 0) (a point of order two under the curve's formulas) with C2/C3 forged for the shared point an unchecked decryptor would compute (odd and even private keys), C1 nudged off the curve, compressed x with non-residue right-hand side, an on-curve C1 with small x encoded as x+p with consistent C2/C3, \
         every other prefix byte, C1 re-encoded in the other form, the whole ciphertext re-encoded (SM2Cipher DER, hex text, the other component order), multi-byte alterations of C3 / C2 / C1.x that preserve the xor, the sum or the multiset of the bytes or words (a folded or partial comparison of C3 accepts them), wholesale replacements of C3. Every uncompressed case is also re-framed as an SM2Cipher DER document and offered to decrypt_asn1, which must reach the same verdict. Oracle: the reference decryptor (strict SEC1 decoding, on-curve check, C3 check) decides; tampered => Err, never a plaintext, never a panic. Non-trivial: a case the reference rejects.",
    );
    ctx.assume("reference decryptor (harness/src/refimpl/sm2.rs): strict SEC1 decoding (prefix 02/03/04 matching the caller's flag, coordinates < p), on-curve check, C3 = SM3(x2||M'||y2)");
    ctx.assume("rejection is decided for the generated tamperings only");

    let seed = ctx.seed;
    let nb = ctx.tier.pick(4, 64);
    ctx.exhaustive("all_bit_flips", "every single-bit flip of each base ciphertext (all four configurations)", move || {
        let mut v = Vec::new();
        for b in fixed_bases(seed, nb) {
            let len = (if b.compressed { 33 } else { 65 }) + 32 + b.msg_len;
            for i in 0..(len * 8) as u32 {
                v.push(Case { base: b.clone(), tamper: Tamper::FlipBit(i) });
            }
        }
        v
    }, check);

    let nb2 = ctx.tier.pick(8, 64);
    ctx.exhaustive("all_truncations_and_prefixes", "every truncation length, every prefix byte 0..=255, extensions by 1..4 bytes — for each base", move || {
        let mut v = Vec::new();
        for b in fixed_bases(seed ^ 0x33, nb2) {
            let len = (if b.compressed { 33 } else { 65 }) + 32 + b.msg_len;
            for l in 0..len as u16 {
                v.push(Case { base: b.clone(), tamper: Tamper::Truncate(l) });
            }
            for p in 0..=255u8 {
                v.push(Case { base: b.clone(), tamper: Tamper::Prefix(p) });
            }
            for n in 0..4u8 {
                v.push(Case { base: b.clone(), tamper: Tamper::Extend(n, 0) });
                v.push(Case { base: b.clone(), tamper: Tamper::Extend(n, 0xA5) });
            }
            v.push(Case { base: b.clone(), tamper: Tamper::None });
            v.push(Case { base: b.clone(), tamper: Tamper::WrongKind });
            for k in 0..4u8 {
                v.push(Case { base: b.clone(), tamper: Tamper::AltEncoding(k) });
            }
            for i in 0..6u8 {
                for j in 0..6u8 {
                    v.push(Case { base: b.clone(), tamper: Tamper::C1Special(i, j) });
                }
            }
        }
        v
    }, check);

    ctx.cold("cold_start_decrypt", "decrypt as the first library operation of a fresh process: untouched, bit flips in C1 / C3, a cancelling C3 alteration, an invalid-curve forgery", move || {
        let mut v = Vec::new();
        for b in fixed_bases(seed ^ 0xc06d, 4) {
            for t in [Tamper::None, Tamper::FlipBit(40), Tamper::FlipBit(65 * 8 + 3), Tamper::Multi(0, Multi::XorPair(0, 8, 1)), Tamper::C1OffCurveForged(5)] {
                v.push(Case { base: b.clone(), tamper: t });
            }
        }
        v
    }, check);

    let nbm = ctx.tier.pick(4, 32);
    ctx.exhaustive("c3_multi_byte_alterations", "alterations of C3 that keep the xor / sum / multiset of its bytes or words (all byte pairs x 3 masks, sum-preserving pairs, all rotations, word shuffles, partial keeps), wholesale replacements; the same family at word distances on C2 — for each base", move || {
        let mut v = Vec::new();
        for b in fixed_bases(seed ^ 0x66, nbm) {
            for m in multi::family(32, true, 300) {
                v.push(Case { base: b.clone(), tamper: Tamper::Multi(0, m) });
            }
            for m in multi::family(b.msg_len, false, 8) {
                v.push(Case { base: b.clone(), tamper: Tamper::Multi(1, m) });
            }
        }
        v
    }, check);

    ctx.exhaustive("long_message_byte_flips", "ciphertexts of 100, 224, 240, 287, 288, 500, 1000-byte messages (several hash blocks; four configurations in rotation) with one bit flipped in every byte of C2 and of C3: a digest that skips part of a long message accepts such a change", move || {
        let n = &r2::params().n;
        let mut v = Vec::new();
        for (i, len) in [100usize, 224, 240, 287, 288, 500, 1000].iter().enumerate() {
            let s = seed.wrapping_mul(1013) + i as u64;
            let b = Base { d: gen::hex32(&(from_be(&expand_bytes(s ^ 0xd7, 32)) % (n - 2u32) + 1u32)), msg_len: *len, msg_seed: s, compressed: i & 1 == 1, c1c3c2: i & 2 == 2, k: gen::hex32(&(from_be(&expand_bytes(s ^ 0x4b7, 32)) % (n - 1u32) + 1u32)) };
            let c1 = if b.compressed { 33 } else { 65 };
            for byte in c1..c1 + 32 + len {
                v.push(Case { base: b.clone(), tamper: Tamper::FlipBit((byte * 8 + byte % 8) as u32) });
            }
            v.push(Case { base: b.clone(), tamper: Tamper::None });
        }
        v
    }, check);

    let nbn = ctx.tier.pick(2, 8);
    ctx.listed("c1_near_curve_points", "C1 replaced by every point of the near-curve family — off the curve but on y^2 = x^3 + a'x + b' with one constant changed (a+1, a-1, a+2, a=0, a=+3, 2a, b+1, b-1, b=0, -b, both), abscissas 1..4, p-4..p-1 and those where the Montgomery image of x, x^2 or x^3 is within 6 of 0 or p, a power of two or 2^256-p — with C2/C3 forged consistently: an invalid-curve forgery aimed at a membership test that is wrong in one constant, reduction or carry", move || {
        let mut v = Vec::new();
        for b in fixed_bases(seed ^ 0x4e, nbn * 2).into_iter().filter(|b| !b.compressed) {
            for i in 0..near_curve_points().len() {
                v.push(Case { base: b.clone(), tamper: Tamper::C1NearCurveForged(i as u16) });
            }
        }
        v
    }, check);

    let nb3 = ctx.tier.pick(8, 64);
    let per = ctx.tier.pick(12u64, 40u64);
    ctx.listed("c1_replacements", "invalid-curve forgeries (random points; the near-curve family: points on a neighbouring equation with one constant changed and boundary abscissas), nudged points, non-residue x, x+p encodings — for each base", move || {
        let mut v = Vec::new();
        for (bi, b) in fixed_bases(seed ^ 0x44, nb3).into_iter().enumerate() {
            for j in 0..per {
                v.push(Case { base: b.clone(), tamper: Tamper::C1OffCurveForged(bi as u64 * 1000 + j) });
                v.push(Case { base: b.clone(), tamper: Tamper::C1NonResidue(bi as u64 * 1000 + j) });
            }
            for w in 0..8u8 {
                v.push(Case { base: b.clone(), tamper: Tamper::C1Nudged(w) });
            }
            for s in 0..16u8 {
                v.push(Case { base: b.clone(), tamper: Tamper::C1XPlusP(s) });
            }
            for s in 0..4u64 {
                v.push(Case { base: b.clone(), tamper: Tamper::C1OrderTwoForged(bi as u64 * 10 + s) });
                // the same against an even and an odd private key, uncompressed framing
                for parity in 0..2u8 {
                    let mut e = b.clone();
                    let mut dv = e.d.0.clone();
                    dv[31] = (dv[31] & 0xFE) | parity;
                    e.d = Hex(dv);
                    e.compressed = false;
                    v.push(Case { base: e, tamper: Tamper::C1OrderTwoForged(bi as u64 * 10 + s) });
                }
            }
        }
        v
    }, check);

    let npar = ctx.tier.pick(600u64, 20_000u64);
    ctx.listed("compressed_parity_flip", "many compressed-C1 ciphertexts with only the parity bit of the prefix flipped (02 <-> 03)", move || {
        let n = &r2::params().n;
        (0..npar)
            .map(|i| {
                let s = seed.wrapping_mul(31337) ^ (0x9a00_0000 + i);
                let b = Base {
                    d: gen::hex32(&(from_be(&expand_bytes(seed ^ 0xd7 ^ (i % 7), 32)) % (n - 2u32) + 1u32)),
                    msg_len: 1 + (i % 40) as usize,
                    msg_seed: s,
                    compressed: true,
                    c1c3c2: i & 1 == 1,
                    k: gen::hex32(&(from_be(&expand_bytes(s ^ 0x4b7, 32)) % (n - 1u32) + 1u32)),
                };
                Case { base: b, tamper: Tamper::FlipBit(7) }
            })
            .collect()
    }, check);

    ctx.generated("generated_tamperings", "proptest (base, tampering)", ctx.tier.pick(2_500, 60_000), || (base_strategy(), tamper_strategy()).prop_map(|(base, tamper)| Case { base, tamper }), check);
}
