//! C15 — SM2 key agreement: both sides agree, conform to GB/T 32918.3, detect tampering.

use gm_sm2::exchange::Exchange;
use gm_sm2::p256_ecc::Point;
use num_bigint::BigUint;
use num_traits::One;
use proptest::prelude::*;
use serde::{Deserialize, Serialize};

use super::multi::{self, Multi};
use super::sm2util::*;
use crate::engine::*;
use crate::gen;
use crate::refimpl::ec::Pt;
use crate::refimpl::field::{from_be, to32, Fld, Fp};
use crate::refimpl::sm2 as r2;

#[derive(Serialize, Deserialize, Hash, Debug, Clone, PartialEq, Eq)]
pub enum PtTamper {
    /// the same point in another Jacobian representation (Z = lambda from seed): NOT an alteration
    SameOtherZ(u64),
    /// a different valid curve point [t]G
    OtherValid(u64),
    /// (x, y + 1): not on the curve
    OffCurve,
    /// -R (valid, different)
    Negated,
    /// another valid point: boundary point #i of the curve (sm2util::edge_points), Z = 1 or 2
    EdgePoint(usize),
}

/// alteration of a 32-byte confirmation value in transit
#[derive(Serialize, Deserialize, Hash, Debug, Clone, PartialEq, Eq)]
pub enum STamper {
    FlipBit(u8),
    /// the same bit flipped in two different bytes (differences cancel under XOR)
    FlipSameBitInTwoBytes(u8, u8, u8),
    /// two bytes swapped (no effect when they are equal)
    SwapBytes(u8, u8),
    /// every byte replaced
    Replace(u64),
    /// first byte incremented
    AddOne,
    /// a multi-byte alteration (see props/multi.rs): keeps the xor / sum / multiset of the bytes or words, or replaces them
    Multi(Multi),
}

#[derive(Serialize, Deserialize, Hash, Debug, Clone)]
pub struct Kex {
    pub da: Hex,
    pub db: Hex,
    pub id_a: usize,
    pub id_b: usize,
    pub klen: usize,
    pub ra: Hex,
    pub rb: Hex,
    pub t_ra: Option<PtTamper>,
    pub t_rb: Option<PtTamper>,
    /// S_B / S_A altered in transit
    pub t_sb: Option<STamper>,
    pub t_sa: Option<STamper>,
}

fn tamper_point(honest: &Pt<Fp>, lib_honest: &Point, t: &Option<PtTamper>) -> (Pt<Fp>, Point, bool, bool) {
    // returns (reference point as seen, library point as seen, altered?, on_curve?)
    let pr = r2::params();
    match t {
        None => (honest.clone(), *lib_honest, false, true),
        Some(PtTamper::SameOtherZ(seed)) => {
            let lam = from_be(&expand_bytes(*seed, 32)) % (pr.p - 2u32) + 2u32;
            (honest.clone(), lib_point(honest, &lam), false, true)
        }
        Some(PtTamper::OtherValid(seed)) => {
            let t = from_be(&expand_bytes(*seed, 32)) % (&pr.n - 1u32) + 1u32;
            let q = r2::g_mul(&t);
            let same = &q == honest;
            let lam = from_be(&expand_bytes(seed ^ 0x5a, 32)) % (pr.p - 1u32) + 1u32;
            (q.clone(), lib_point(&q, &lam), !same, true)
        }
        Some(PtTamper::EdgePoint(i)) => {
            let eps = edge_points();
            let (_, x, y) = &eps[*i % eps.len()];
            let q = r2::pt(x, y);
            let same = &q == honest;
            (q.clone(), lib_point(&q, &BigUint::from(1 + (*i as u32 / eps.len() as u32) % 2)), !same, true)
        }
        Some(PtTamper::Negated) => {
            let q = pr.curve.neg(honest);
            (q.clone(), lib_point(&q, &BigUint::one()), true, true)
        }
        Some(PtTamper::OffCurve) => {
            let (x, y) = honest.clone().unwrap();
            let q = Some((x, y.add(&y.from_u64_like(1))));
            (q.clone(), lib_point(&q, &BigUint::one()), true, false)
        }
    }
}

fn flip(h: &[u8; 32], t: &Option<STamper>) -> [u8; 32] {
    let mut o = *h;
    match t {
        None => {}
        Some(STamper::FlipBit(b)) => o[(*b / 8) as usize] ^= 0x80 >> (b % 8),
        Some(STamper::FlipSameBitInTwoBytes(i, j, bit)) => {
            let (i, mut j) = ((*i % 32) as usize, (*j % 32) as usize);
            if i == j {
                j = (j + 1) % 32;
            }
            o[i] ^= 1 << (bit % 8);
            o[j] ^= 1 << (bit % 8);
        }
        Some(STamper::SwapBytes(i, j)) => o.swap((*i % 32) as usize, (*j % 32) as usize),
        Some(STamper::Replace(seed)) => o.copy_from_slice(&expand_bytes(*seed, 32)),
        Some(STamper::AddOne) => o[0] = o[0].wrapping_add(1),
        Some(STamper::Multi(m)) => {
            multi::apply(&mut o, m);
        }
    }
    o
}

fn check(c: &Kex) -> CaseResult {
    let (da, db, ra, rb) = (from_be(&c.da), from_be(&c.db), from_be(&c.ra), from_be(&c.rb));
    let (ida_b, ida) = id_bytes(c.id_a);
    let (idb_b, idb) = id_bytes(c.id_b);
    let (pa, pb) = (r2::g_mul(&da), r2::g_mul(&db));
    let (z_a, z_b) = (r2::za(ida_b, &pa), r2::za(idb_b, &pb));
    let mk = |what: &str, e: String| Fail { key: format!("entry={} input=valid-key outcome=rejected", what), detail: e };
    let (ska, skb) = (lib_sk(&da).map_err(|e| mk("Sm2PrivateKey::new", e))?, lib_sk(&db).map_err(|e| mk("Sm2PrivateKey::new", e))?);
    let (pka, pkb) = (lib_pk(&pa).map_err(|e| mk("Sm2PublicKey::new", e))?, lib_pk(&pb).map_err(|e| mk("Sm2PublicKey::new", e))?);
    let mut alice = match outcome(|| Exchange::new(c.klen, ida, &pka, &ska, idb, &pkb)) {
        Outcome::Ok(e) => e,
        o => return fail(format!("entry=Exchange::new input=valid outcome={}", o.class()), o.describe()),
    };
    let mut bob = match outcome(|| Exchange::new(c.klen, idb, &pkb, &skb, ida, &pka)) {
        Outcome::Ok(e) => e,
        o => return fail(format!("entry=Exchange::new input=valid outcome={}", o.class()), o.describe()),
    };
    let tampered = c.t_ra.is_some() || c.t_rb.is_some() || c.t_sb.is_some() || c.t_sa.is_some();
    // ---- step 1 (A)
    let (r, left) = with_sm2_candidates(vec![to32(&ra)], || alice.exchange_1());
    let ra_lib = match r {
        Ok(Ok(p)) => p,
        o => return fail("entry=Exchange::exchange_1 input=valid outcome=failure", format!("{:?}", o.map(|x| x.map(|p| show_lib(&p))))),
    };
    ensure!(left == 0, "entry=Exchange::exchange_1 outcome=nonce-not-drawn", "candidate not consumed");
    let ra_ref = r2::g_mul(&ra);
    ensure!(ref_point(&ra_lib).ok() == Some(ra_ref.clone()), "entry=Exchange::exchange_1 outcome=wrong-R_A", "rA={:x}: {}", ra, show_lib(&ra_lib));
    // ---- in transit
    let (ra_seen_ref, ra_seen_lib, ra_altered, ra_on_curve) = tamper_point(&ra_ref, &ra_lib, &c.t_ra);
    // ---- step 2 (B)
    let (r, _) = with_sm2_candidates(vec![to32(&rb)], || bob.exchange_2(&ra_seen_lib));
    let (rb_lib, sb) = match r {
        Err(p) => return fail(format!("entry=Exchange::exchange_2 input={} outcome=panic", if ra_on_curve { "valid-R_A" } else { "off-curve-R_A" }), p),
        Ok(Err(e)) => {
            ensure!(!ra_on_curve, "entry=Exchange::exchange_2 input=valid-R_A outcome=err", "{:?}", e);
            return pass(true, "offcurve-R_A-rejected");
        }
        Ok(Ok(v)) => {
            ensure!(ra_on_curve, "entry=Exchange::exchange_2 input=off-curve-R_A outcome=accepted", "R_A = {} is not on the curve but exchange_2 succeeded", show(&ra_seen_ref));
            v
        }
    };
    let rb_ref = r2::g_mul(&rb);
    ensure!(ref_point(&rb_lib).ok() == Some(rb_ref.clone()), "entry=Exchange::exchange_2 outcome=wrong-R_B", "rB={:x}: {}", rb, show_lib(&rb_lib));
    // what GB/T 32918.3 says B computes from what B saw
    let b_side = r2::key_agreement(false, &db, &rb, &pa, &ra_seen_ref, &z_a, &z_b, c.klen).ok_or_else(|| Fail { key: "harness: reference B side infinity".into(), detail: "".into() })?;
    ensure!(sb == b_side.s_b, "entry=Exchange::exchange_2 outcome=wrong-S_B", "library S_B {} ; GB/T 32918.3 (one-byte tag 0x02) {}", hex::encode(sb), hex::encode(b_side.s_b));
    let kb = gm_sm2::verif_hooks::exchange_key(&bob);
    ensure!(kb.as_deref() == Some(&b_side.key[..]), "entry=Exchange::exchange_2 outcome=wrong-key", "library K_B {:?} ; standard {}", kb.map(hex::encode), hex::encode(&b_side.key));
    ensure!(b_side.key.len() == c.klen, "harness: klen", "reference klen");
    // ---- in transit
    let (rb_seen_ref, rb_seen_lib, rb_altered, rb_on_curve) = tamper_point(&rb_ref, &rb_lib, &c.t_rb);
    let sb_seen = flip(&sb, &c.t_sb);
    let sb_altered = sb_seen != sb;
    // ---- step 3 (A)
    let a_must_fail = ra_altered || rb_altered || sb_altered;
    let r3 = outcome(|| alice.exchange_3(&rb_seen_lib, sb_seen));
    let honest_a = r2::key_agreement(true, &da, &ra, &pb, &rb_ref, &z_a, &z_b, c.klen).ok_or_else(|| Fail { key: "harness: reference A side infinity".into(), detail: "".into() })?;
    match &r3 {
        Outcome::Panic(p) => return fail(format!("entry=Exchange::exchange_3 input={} outcome=panic", if rb_on_curve { "on-curve-R_B" } else { "off-curve-R_B" }), p.clone()),
        Outcome::Ok(sa) => {
            ensure!(rb_on_curve, "entry=Exchange::exchange_3 input=off-curve-R_B outcome=accepted", "R_B = {} is not on the curve", show(&rb_seen_ref));
            ensure!(!a_must_fail, "entry=Exchange::exchange_3 input=tampered outcome=accepted", "altered: R_A {} R_B {} S_B {} ({:?}) — A must report failure", ra_altered, rb_altered, sb_altered, c.t_sb);
            ensure!(*sa == honest_a.s_a, "entry=Exchange::exchange_3 outcome=wrong-S_A", "library S_A {} ; GB/T 32918.3 (one-byte tag 0x03) {}", hex::encode(sa), hex::encode(honest_a.s_a));
            let ka = gm_sm2::verif_hooks::exchange_key(&alice);
            ensure!(ka.as_deref() == Some(&honest_a.key[..]), "entry=Exchange::exchange_3 outcome=wrong-key", "library K_A {:?} ; standard {}", ka.as_ref().map(hex::encode), hex::encode(&honest_a.key));
            ensure!(ka == kb, "entry=Exchange outcome=keys-differ", "K_A {:?} K_B {:?}", ka.map(hex::encode), kb.map(hex::encode));
        }
        Outcome::Err(e) => {
            ensure!(a_must_fail || !rb_on_curve, "entry=Exchange::exchange_3 input=honest outcome=err", "nothing A sees was altered, but exchange_3 failed: {}", e);
        }
    }
    // ---- step 4 (B): B receives the S_A an honest A (with an honest view) sends, possibly altered in transit
    let sa_seen = flip(&honest_a.s_a, &c.t_sa);
    let sa_altered = sa_seen != honest_a.s_a;
    let b_must_accept = !ra_altered && !sa_altered;
    let r4 = outcome(|| bob.exchange_4(sa_seen, &ra_seen_lib));
    match &r4 {
        Outcome::Panic(p) => return fail("entry=Exchange::exchange_4 outcome=panic", p.clone()),
        Outcome::Ok(true) => ensure!(b_must_accept, "entry=Exchange::exchange_4 input=tampered outcome=accepted", "altered: R_A {} S_A {} ({:?}) — B must not accept", ra_altered, sa_altered, c.t_sa),
        Outcome::Ok(false) | Outcome::Err(_) => ensure!(!b_must_accept, "entry=Exchange::exchange_4 input=honest outcome=rejected", "nothing B sees was altered, but the confirmation failed: {}", r4.describe()),
    }
    let exact = true;
    pass(exact, if tampered { format!("tampered/{}{}{}{}", c.t_ra.is_some() as u8, c.t_rb.is_some() as u8, c.t_sb.is_some() as u8, c.t_sa.is_some() as u8) } else { "honest".to_string() })
}

/// The shared point is the point at infinity. For the responder: d_A := -x1bar * r_A mod n makes P_A + [x1bar]R_A = O, so V = O whatever B's key
/// and r_B are; for the initiator: d_B := -x2bar * r_B makes U = O. GB/T 32918.3 (B5 / A6): the party reports failure.
#[derive(Serialize, Deserialize, Hash, Debug, Clone)]
pub struct InfShared {
    pub responder: bool,
    pub seed: u64,
    pub klen: usize,
}

fn check_infinity_shared(c: &InfShared) -> CaseResult {
    let n = &r2::params().n;
    let sc = |t: u64, m: &BigUint| from_be(&expand_bytes(c.seed ^ t << 8, 32)) % m + 1u32;
    let (ra, rb) = (sc(3, &(n - 1u32)), sc(4, &(n - 1u32)));
    let xbar_of = |r: &BigUint| r2::x_bar(&from_be(&r2::xy(&r2::g_mul(r)).unwrap().0));
    // the crafted key belongs to the party whose ephemeral point the *other* side combines with its public key
    let (da, db) = if c.responder { ((n - (xbar_of(&ra) * &ra) % n) % n, sc(2, &(n - 2u32))) } else { (sc(1, &(n - 2u32)), (n - (xbar_of(&rb) * &rb) % n) % n) };
    if da.bits() == 0 || db.bits() == 0 || da > n - 2u32 || db > n - 2u32 {
        return pass(false, "crafted-key-out-of-range");
    }
    let (pa, pb) = (r2::g_mul(&da), r2::g_mul(&db));
    let (ida_b, ida) = id_bytes(1);
    let (idb_b, idb) = id_bytes(3);
    let (z_a, z_b) = (r2::za(ida_b, &pa), r2::za(idb_b, &pb));
    let mk = |what: &str, e: String| Fail { key: format!("entry={} input=valid-key outcome=rejected", what), detail: e };
    let (ska, skb) = (lib_sk(&da).map_err(|e| mk("Sm2PrivateKey::new", e))?, lib_sk(&db).map_err(|e| mk("Sm2PrivateKey::new", e))?);
    let (pka, pkb) = (lib_pk(&pa).map_err(|e| mk("Sm2PublicKey::new", e))?, lib_pk(&pb).map_err(|e| mk("Sm2PublicKey::new", e))?);
    let mut alice = match outcome(|| Exchange::new(c.klen, ida, &pka, &ska, idb, &pkb)) {
        Outcome::Ok(e) => e,
        o => return fail(format!("entry=Exchange::new input=valid outcome={}", o.class()), o.describe()),
    };
    let mut bob = match outcome(|| Exchange::new(c.klen, idb, &pkb, &skb, ida, &pka)) {
        Outcome::Ok(e) => e,
        o => return fail(format!("entry=Exchange::new input=valid outcome={}", o.class()), o.describe()),
    };
    let (r, _) = with_sm2_candidates(vec![to32(&ra)], || alice.exchange_1());
    let ra_lib = match r { Ok(Ok(p)) => p, o => return fail("entry=Exchange::exchange_1 input=valid outcome=failure", format!("{:?}", o.map(|x| x.map(|p| show_lib(&p))))) };
    let (r, _) = with_sm2_candidates(vec![to32(&rb)], || bob.exchange_2(&ra_lib));
    if c.responder {
        // the reference agrees that B's shared point is infinity
        if r2::key_agreement(false, &db, &rb, &pa, &r2::g_mul(&ra), &z_a, &z_b, c.klen).is_some() {
            return pass(false, "crafting-failed");
        }
        return match r {
            Err(p) => fail("entry=Exchange::exchange_2 input=shared-point-at-infinity outcome=panic", p),
            Ok(Err(_)) => pass(true, "responder-reports-failure"),
            Ok(Ok((_, sb))) => fail("entry=Exchange::exchange_2 input=shared-point-at-infinity outcome=accepted", format!("dA = -x1bar*rA: V = O, yet exchange_2 returned S_B = {} (a key derived from the coordinates of O is known to everybody)", hex::encode(sb))),
        };
    }
    let (rb_lib, sb) = match r { Ok(Ok(v)) => v, o => return fail("entry=Exchange::exchange_2 input=valid outcome=failure", format!("{:?}", o.is_ok())) };
    if r2::key_agreement(true, &da, &ra, &pb, &r2::g_mul(&rb), &z_a, &z_b, c.klen).is_some() {
        return pass(false, "crafting-failed");
    }
    match outcome(|| alice.exchange_3(&rb_lib, sb)) {
        Outcome::Panic(p) => fail("entry=Exchange::exchange_3 input=shared-point-at-infinity outcome=panic", p),
        Outcome::Err(_) => pass(true, "initiator-reports-failure"),
        Outcome::Ok(sa) => fail("entry=Exchange::exchange_3 input=shared-point-at-infinity outcome=accepted", format!("dB = -x2bar*rB: U = O, yet exchange_3 returned S_A = {}", hex::encode(sa))),
    }
}

/// Histories on *reused* objects: 0 = the initiator first receives a damaged S_B (must fail), then the genuine (R_B, S_B) (must succeed with the
/// standard's key: nothing it saw the second time was altered); 1 = a complete run, then a second run on the same two objects with the roles swapped;
/// 2 = both parties call exchange_1 ("simultaneous start"), then one gives way and answers as responder.
#[derive(Serialize, Deserialize, Hash, Debug, Clone)]
pub struct Reuse {
    pub kind: u8,
    pub seed: u64,
    pub klen: usize,
}

pub fn check_reuse(c: &Reuse) -> CaseResult {
    let n = &r2::params().n;
    let sc = |t: u64, m: &BigUint| from_be(&expand_bytes(c.seed ^ t << 8, 32)) % m + 1u32;
    let (da, db) = (sc(1, &(n - 2u32)), sc(2, &(n - 2u32)));
    let (pa, pb) = (r2::g_mul(&da), r2::g_mul(&db));
    let (ida_b, ida) = id_bytes(1 + (c.seed % 3) as usize);
    let (idb_b, idb) = id_bytes(4 + (c.seed % 2) as usize);
    let (z_of_a, z_of_b) = (r2::za(ida_b, &pa), r2::za(idb_b, &pb));
    let mk = |what: &str, e: String| Fail { key: format!("entry={} input=valid-key outcome=rejected", what), detail: e };
    let (ska, skb) = (lib_sk(&da).map_err(|e| mk("Sm2PrivateKey::new", e))?, lib_sk(&db).map_err(|e| mk("Sm2PrivateKey::new", e))?);
    let (pka, pkb) = (lib_pk(&pa).map_err(|e| mk("Sm2PublicKey::new", e))?, lib_pk(&pb).map_err(|e| mk("Sm2PublicKey::new", e))?);
    let new = |klen, id, pk: &gm_sm2::key::Sm2PublicKey, sk: &gm_sm2::key::Sm2PrivateKey, rid, rpk: &gm_sm2::key::Sm2PublicKey| match outcome(|| Exchange::new(klen, id, pk, sk, rid, rpk)) {
        Outcome::Ok(e) => Ok(e),
        o => Err(Fail { key: format!("entry=Exchange::new input=valid outcome={}", o.class()), detail: o.describe() }),
    };
    let mut alice = new(c.klen, ida, &pka, &ska, idb, &pkb)?;
    let mut bob = new(c.klen, idb, &pkb, &skb, ida, &pka)?;
    // one complete run with `init` as initiator and `resp` as responder; returns nothing, fails on any deviation from the standard
    let run = |init: &mut Exchange, resp: &mut Exchange, d_i: &BigUint, d_r: &BigUint, p_i: &Pt<Fp>, p_r: &Pt<Fp>, z_i: &[u8; 32], z_r: &[u8; 32], salt: u64, damaged_first: bool, tag: &str| -> Result<(), Fail> {
        let intrude: u8 = match tag { "refused-R_A-mid-session" => 1, "refused-R_B-before-the-genuine-one" => 2, "wrong-S_A-before-the-genuine-one" => 4, "all-three-refusals" => 7, _ => 0 };
        // an off-curve point: the honest ephemeral point of the other side with y + 1
        let off = |q: &Pt<Fp>| { let (x, y) = q.clone().unwrap(); lib_point(&Some((x.clone(), y.add(&y.from_u64_like(1)))), &BigUint::one()) };
        let (r_i, r_r) = (sc(10 + salt, &(n - 1u32)), sc(20 + salt, &(n - 1u32)));
        let (r, _) = with_sm2_candidates(vec![to32(&r_i)], || init.exchange_1());
        let ri_lib = match r { Ok(Ok(p)) => p, o => return Err(Fail { key: format!("entry=Exchange::exchange_1 input={} outcome=failure", tag), detail: format!("{:?}", o.map(|x| x.map(|p| show_lib(&p)))) }) };
        let (r, _) = with_sm2_candidates(vec![to32(&r_r)], || resp.exchange_2(&ri_lib));
        let (rr_lib, sb) = match r { Ok(Ok(v)) => v, Ok(Err(e)) => return Err(Fail { key: format!("entry=Exchange::exchange_2 input={} outcome=err", tag), detail: format!("{:?}", e) }), Err(p) => return Err(Fail { key: format!("entry=Exchange::exchange_2 input={} outcome=panic", tag), detail: p }) };
        let want_r = r2::key_agreement(false, d_r, &r_r, p_i, &r2::g_mul(&r_i), z_i, z_r, c.klen).ok_or_else(|| Fail { key: "harness: reference responder infinity".into(), detail: "".into() })?;
        if sb != want_r.s_b {
            return Err(Fail { key: format!("entry=Exchange::exchange_2 input={} outcome=wrong-S_B", tag), detail: format!("library S_B {} ; GB/T 32918.3 {}", hex::encode(sb), hex::encode(want_r.s_b)) });
        }
        if intrude & 1 != 0 {
            // the responder, mid-session, is offered an off-curve R_A: it must refuse, and the session in flight must not notice
            match outcome(|| resp.exchange_2(&off(&r2::g_mul(&r_i)))) {
                Outcome::Err(_) => {}
                o => return Err(Fail { key: format!("entry=Exchange::exchange_2 input=off-curve-R_A outcome={}", if o.is_ok() { "accepted" } else { "panic" }), detail: o.describe() }),
            }
        }
        if intrude & 2 != 0 {
            match outcome(|| init.exchange_3(&off(&r2::g_mul(&r_r)), sb)) {
                Outcome::Err(_) => {}
                o => return Err(Fail { key: format!("entry=Exchange::exchange_3 input=off-curve-R_B outcome={}", if o.is_ok() { "accepted" } else { "panic" }), detail: o.describe() }),
            }
        }
        if damaged_first {
            let mut bad = sb;
            bad[5] ^= 0x10;
            match outcome(|| init.exchange_3(&rr_lib, bad)) {
                Outcome::Err(_) => {}
                o => return Err(Fail { key: format!("entry=Exchange::exchange_3 input=tampered outcome={}", if o.is_ok() { "accepted" } else { "panic" }), detail: o.describe() }),
            }
        }
        let want_i = r2::key_agreement(true, d_i, &r_i, p_r, &r2::g_mul(&r_r), z_i, z_r, c.klen).ok_or_else(|| Fail { key: "harness: reference initiator infinity".into(), detail: "".into() })?;
        let sa = match outcome(|| init.exchange_3(&rr_lib, sb)) {
            Outcome::Ok(sa) => sa,
            o => return Err(Fail { key: format!("entry=Exchange::exchange_3 input={} outcome={}", tag, o.class()), detail: format!("nothing the initiator sees in this call was altered: {}", o.describe()) }),
        };
        if sa != want_i.s_a {
            return Err(Fail { key: format!("entry=Exchange::exchange_3 input={} outcome=wrong-S_A", tag), detail: format!("library S_A {} ; GB/T 32918.3 {}", hex::encode(sa), hex::encode(want_i.s_a)) });
        }
        let (ki, kr) = (gm_sm2::verif_hooks::exchange_key(init), gm_sm2::verif_hooks::exchange_key(resp));
        if ki.as_deref() != Some(&want_i.key[..]) || kr.as_deref() != Some(&want_i.key[..]) {
            return Err(Fail { key: format!("entry=Exchange input={} outcome=wrong-key", tag), detail: format!("K_init {:?} K_resp {:?} standard {}", ki.map(hex::encode), kr.map(hex::encode), hex::encode(&want_i.key)) });
        }
        if intrude & 4 != 0 {
            let mut bad = sa;
            bad[31] ^= 1;
            match outcome(|| resp.exchange_4(bad, &ri_lib)) {
                Outcome::Ok(false) | Outcome::Err(_) => {}
                o => return Err(Fail { key: format!("entry=Exchange::exchange_4 input=tampered outcome={}", if o.is_ok() { "accepted" } else { "panic" }), detail: o.describe() }),
            }
        }
        match outcome(|| resp.exchange_4(sa, &ri_lib)) {
            Outcome::Ok(true) => Ok(()),
            o => Err(Fail { key: format!("entry=Exchange::exchange_4 input={} outcome=rejected", tag), detail: o.describe() }),
        }
    };
    match c.kind % 7 {
        0 => run(&mut alice, &mut bob, &da, &db, &pa, &pb, &z_of_a, &z_of_b, 0, true, "retry-after-damaged-S_B")?,
        3 => run(&mut alice, &mut bob, &da, &db, &pa, &pb, &z_of_a, &z_of_b, 0, false, "refused-R_A-mid-session")?,
        4 => run(&mut alice, &mut bob, &da, &db, &pa, &pb, &z_of_a, &z_of_b, 0, false, "refused-R_B-before-the-genuine-one")?,
        5 => run(&mut alice, &mut bob, &da, &db, &pa, &pb, &z_of_a, &z_of_b, 0, false, "wrong-S_A-before-the-genuine-one")?,
        6 => {
            run(&mut alice, &mut bob, &da, &db, &pa, &pb, &z_of_a, &z_of_b, 0, true, "all-three-refusals")?;
            run(&mut bob, &mut alice, &db, &da, &pb, &pa, &z_of_b, &z_of_a, 1, false, "all-three-refusals")?;
        }
        1 => {
            run(&mut alice, &mut bob, &da, &db, &pa, &pb, &z_of_a, &z_of_b, 0, false, "first-run")?;
            run(&mut bob, &mut alice, &db, &da, &pb, &pa, &z_of_b, &z_of_a, 1, false, "second-run-roles-swapped")?;
        }
        _ => {
            // simultaneous start: Bob also called exchange_1, then gives way and answers Alice
            let (r, _) = with_sm2_candidates(vec![to32(&sc(30, &(n - 1u32)))], || bob.exchange_1());
            if !matches!(r, Ok(Ok(_))) {
                return fail("entry=Exchange::exchange_1 input=valid outcome=failure", "bob's own start".to_string());
            }
            run(&mut alice, &mut bob, &da, &db, &pa, &pb, &z_of_a, &z_of_b, 0, false, "responder-had-started-itself")?;
        }
    }
    pass(true, ["retry", "roles-swapped", "simultaneous-start", "refused-R_A-mid-session", "refused-R_B-first", "wrong-S_A-first", "all-refusals-both-roles"][(c.kind % 7) as usize])
}

fn pt_tamper() -> impl Strategy<Value = Option<PtTamper>> {
    prop_oneof![
        4 => Just(None),
        2 => any::<u64>().prop_map(|s| Some(PtTamper::SameOtherZ(s))),
        2 => any::<u64>().prop_map(|s| Some(PtTamper::OtherValid(s))),
        1 => Just(Some(PtTamper::OffCurve)),
        1 => Just(Some(PtTamper::Negated)),
    ]
}

fn kex(tamper: bool) -> impl Strategy<Value = Kex> {
    let n = r2::params().n.clone();
    let bit = || prop_oneof![
        4 => Just(None),
        1 => any::<u8>().prop_map(|b| Some(STamper::FlipBit(b))),
        1 => (any::<u8>(), any::<u8>(), any::<u8>()).prop_map(|(i, j, b)| Some(STamper::FlipSameBitInTwoBytes(i, j, b))),
        1 => (any::<u8>(), any::<u8>()).prop_map(|(i, j)| Some(STamper::SwapBytes(i, j))),
        1 => any::<u64>().prop_map(|s| Some(STamper::Replace(s))),
        1 => Just(Some(STamper::AddOne)),
        3 => multi::strategy().prop_map(|m| Some(STamper::Multi(m))),
    ];
    (
        (gen::secret_scalar(&(&n - 2u32)), gen::secret_scalar(&(&n - 2u32)), 0..id_pool().len(), 0..id_pool().len()),
        prop_oneof![3 => 1..=48usize, 1 => (1..=6usize).prop_map(|b| b * 32), 1 => 1..=200usize],
        (gen::secret_scalar(&(&n - 1u32)), gen::secret_scalar(&(&n - 1u32))),
        (pt_tamper(), pt_tamper(), bit(), bit()),
    )
        .prop_map(move |((da, db, id_a, id_b), klen, (ra, rb), (t_ra, t_rb, t_sb, t_sa))| {
            if tamper {
                Kex { da, db, id_a, id_b, klen, ra, rb, t_ra, t_rb, t_sb, t_sa }
            } else {
                Kex { da, db, id_a, id_b, klen, ra, rb, t_ra: None, t_rb: None, t_sb: None, t_sa: None }
            }
        })
}

pub fn run(ctx: &Ctx) {
    ctx.set_rule(
        "a case is a history of the four protocol steps: (dA, dB, ID_A, ID_B, klen, rA, rB) from the edge-biased generators (IDs incl. None/None, empty, different lengths; klen 1..=200 incl. multiples of 32; \
         ephemeral scalars injected through the RNG hook) plus a subset of {R_A, R_B, S_B, S_A} altered in transit (another valid point incl. the boundary points of the curve, -R, an off-curve point, a single-bit flip of S, multi-byte alterations of S that preserve the xor / sum / multiset of its bytes or words; and the *same* point in another \
         Jacobian representation, which is not an alteration). Oracle: GB/T 32918.3 on the affine reference (w = 127, one-byte tags 0x02/0x03): R_A, R_B, K_B, S_B, K_A, S_A compared exactly; A must fail iff R_A, R_B or S_B was \
         altered, B must accept iff R_A and S_A were not; off-curve R => Err at once. Non-trivial: every history (each includes exact comparisons with fixed rA, rB).",
    );
    ctx.assume("reference key agreement (harness/src/refimpl/sm2.rs) reproduces the GM/T 0003.5 Annex K, S_B and S_A");
    ctx.assume("hooks used: RNG candidate override for rA, rB; accessor for the crate-private derived key");

    ctx.listed("annex_example", "GM/T 0003.5 key-exchange example: K, S_B, S_A exact", || {
        let h = |s: &str| Hex(hex::decode(s).unwrap());
        vec![Kex {
            da: h("81EB26E941BB5AF16DF116495F90695272AE2CD63D6C4AE1678418BE48230029"),
            db: h("785129917D45A9EA5437A59356B82338EAADDA6CEB199088F14AE10DEFA229B5"),
            id_a: 1,
            id_b: 1,
            klen: 16,
            ra: h("D4DE15474DB74D06491C440D305E012400990F3E390C7E87153C12DB2EA60BB3"),
            rb: h("7E07124814B309489125EAED101113164EBF0F3458C5BD88335C1F9D596243D6"),
            t_ra: None, t_rb: None, t_sb: None, t_sa: None,
        }]
    }, check);

    ctx.generated("honest_histories", "proptest honest runs: exact K, S_B, S_A, both confirmations succeed", ctx.tier.pick(400, 10_000), || kex(false), check);

    ctx.exhaustive("all_16_tamper_subsets", "every subset of {R_A, R_B, S_B, S_A} altered x 4 kinds of alteration x 2 parameter draws", || {
        let n = &r2::params().n;
        let mut v = Vec::new();
        for draw in 0..2u64 {
            for mask in 0..16u8 {
                for kind in 0..4u8 {
                    let s = draw << 16 | (mask as u64) << 8 | kind as u64;
                    let sc = |t: u64, m: &BigUint| gen::hex32(&(from_be(&expand_bytes(s ^ t, 32)) % m + 1u32));
                    let st = |x: u64| match kind { 0 => STamper::FlipBit((x % 256) as u8), 1 => STamper::FlipSameBitInTwoBytes((x % 32) as u8, (x / 32 % 31) as u8 + 1 + (x % 32) as u8, (x % 8) as u8), 2 => STamper::SwapBytes((x % 32) as u8, (x / 7 % 32) as u8), _ => STamper::Replace(x) };
                    let pt = |on: bool, salt: u64| if !on { None } else { Some(match kind { 0 => PtTamper::OtherValid(s ^ salt), 1 => PtTamper::OffCurve, 2 => PtTamper::Negated, _ => PtTamper::SameOtherZ(s ^ salt) }) };
                    v.push(Kex {
                        da: sc(1, &(n - 2u32)), db: sc(2, &(n - 2u32)), id_a: (s % 7) as usize, id_b: (s % 5) as usize, klen: 1 + (s % 70) as usize,
                        ra: sc(3, &(n - 1u32)), rb: sc(4, &(n - 1u32)),
                        t_ra: pt(mask & 1 != 0, 0x11), t_rb: pt(mask & 2 != 0, 0x22),
                        t_sb: if mask & 4 != 0 { Some(st(s * 37)) } else { None },
                        t_sa: if mask & 8 != 0 { Some(st(s * 91 + 1)) } else { None },
                    });
                }
            }
        }
        v
    }, check);

    ctx.cold("cold_start_exchange", "a complete honest key exchange (and one with S_B altered) as the first library operations of a fresh process", || {
        let n = &r2::params().n;
        (0..3u64).map(|i| {
            let sc = |t: u64, m: &BigUint| gen::hex32(&(from_be(&expand_bytes(0xc15d ^ i ^ t << 8, 32)) % m + 1u32));
            Kex { da: sc(1, &(n - 2u32)), db: sc(2, &(n - 2u32)), id_a: i as usize, id_b: 2 * i as usize, klen: 16 + 7 * i as usize, ra: sc(3, &(n - 1u32)), rb: sc(4, &(n - 1u32)), t_ra: None, t_rb: None, t_sb: if i == 2 { Some(STamper::FlipBit(9)) } else { None }, t_sa: None }
        }).collect()
    }, check);

    ctx.listed("shared_point_at_infinity", "the initiator's private key crafted from its own ephemeral scalar (d_A = -x1bar * r_A mod n) so that P_A + [x1bar]R_A = O and the responder's shared point V is the point at infinity: the responder must report failure (GB/T 32918.3 B5), not derive a key from the coordinates of O", || {
        let mut v = Vec::new();
        // only the responder's check is observable: d_B = -x2bar * r_B would make B's own t_B zero, so B fails before A ever gets an S_B
        for i in 0..8u64 {
            v.push(InfShared { responder: true, seed: 0x1f5 + i, klen: 16 + i as usize });
        }
        v
    }, check_infinity_shared);

    ctx.listed("reused_objects", "histories on reused Exchange objects: a damaged S_B (failure) followed by the genuine one (success, standard key); a complete run followed by a second run with the roles swapped; both parties start, one gives way; a responder that is offered an off-curve R_A in the middle of a session (refused) and then completes it; an initiator that is offered an off-curve R_B, then the genuine one; a wrong S_A followed by the right one; all of these together in both roles — every value compared with GB/T 32918.3", || {
        let mut v = Vec::new();
        for kind in 0..7u8 {
            for i in 0..4u64 {
                v.push(Reuse { kind, seed: 0x2e15 + i * 7 + kind as u64, klen: 16 + (i as usize * 11) % 40 });
            }
        }
        v
    }, check_reuse);

    ctx.listed("edge_point_ephemerals", "R_A (resp. R_B) replaced in transit by a boundary point of the curve (x next to 0, n, p, 2^256-p, powers of two, Montgomery limb patterns, y with a leading zero byte), affine and Z = 2: B must accept the valid point and derive exactly the S_B / K_B of GB/T 32918.3 from it; A must report failure", || {
        let n = &r2::params().n;
        let mut v = Vec::new();
        for i in 0..2 * edge_points().len() {
            for which in 0..2u8 {
                if which == 1 && i >= edge_points().len() {
                    continue;
                }
                let s = 0xc15e ^ (i as u64 % 2);
                let sc = |t: u64, m: &BigUint| gen::hex32(&(from_be(&expand_bytes(s ^ t, 32)) % m + 1u32));
                v.push(Kex {
                    da: sc(1, &(n - 2u32)), db: sc(2, &(n - 2u32)), id_a: 1, id_b: 4, klen: 16 + i % 33,
                    ra: sc(3, &(n - 1u32)), rb: sc(4, &(n - 1u32)),
                    t_ra: if which == 0 { Some(PtTamper::EdgePoint(i)) } else { None },
                    t_rb: if which == 1 { Some(PtTamper::EdgePoint(i)) } else { None },
                    t_sb: None, t_sa: None,
                });
            }
        }
        v
    }, check);

    let dense = ctx.tier.pick(false, true);
    ctx.exhaustive("confirmation_multi_byte_alterations", "S_B (then S_A) altered by the multi-byte family: byte pairs with the same mask (word distances in the quick tier, all pairs in the thorough tier), sum-preserving pairs, rotations, word shuffles, partial keeps, 40 replacements — a folded or partial comparison accepts them", move || {
        let n = &r2::params().n;
        let mut v = Vec::new();
        for (i, m) in multi::family(32, dense, 40).into_iter().enumerate() {
            for which in 0..2u8 {
                let s = 0xc15 ^ (i as u64 % 3);
                let sc = |t: u64, m: &BigUint| gen::hex32(&(from_be(&expand_bytes(s ^ t, 32)) % m + 1u32));
                v.push(Kex {
                    da: sc(1, &(n - 2u32)), db: sc(2, &(n - 2u32)), id_a: 1, id_b: 3, klen: 16 + (i % 3) * 16,
                    ra: sc(3, &(n - 1u32)), rb: sc(4, &(n - 1u32)),
                    t_ra: None, t_rb: None,
                    t_sb: if which == 0 { Some(STamper::Multi(m.clone())) } else { None },
                    t_sa: if which == 1 { Some(STamper::Multi(m.clone())) } else { None },
                });
            }
        }
        v
    }, check);

    ctx.generated("tampered_histories", "proptest histories with random subsets altered", ctx.tier.pick(600, 10_000), || kex(true), check);
}
