//! Multi-byte alterations of an authentication field (a hash / MAC / confirmation value).
//!
//! Single-bit flips find a comparison that skips bytes; they do not find a comparison that *folds* the bytes before comparing
//! (xor-fold, sum-fold, compare as a set of words, compare a truncation). Every alteration here leaves the multiset, the xor
//! or the sum of the bytes (or of the 4-/8-byte words) unchanged while changing the value, or replaces the field wholesale.

use proptest::prelude::*;
use serde::{Deserialize, Serialize};

use crate::engine::expand_bytes;

#[derive(Serialize, Deserialize, Hash, Debug, Clone, PartialEq, Eq)]
pub enum Multi {
    /// the same mask xored into bytes i and j (xor of all bytes / words at distance j-i unchanged)
    XorPair(u8, u8, u8),
    /// byte i += delta, byte j -= delta (sum of the bytes unchanged)
    AddSub(u8, u8, u8),
    /// rotate the field left by r bytes
    Rotate(u8),
    /// 0 swap halves, 1 reverse bytes, 2 reverse 8-byte words, 3 reverse 4-byte words, 4 swap the first two 8-byte words, 5 swap bytes inside each pair
    Shuffle(u8),
    /// replace by pseudo-random bytes
    Random(u64),
    /// complement every byte
    Complement,
    /// every byte equal to a constant
    Fill(u8),
    /// keep the first n bytes, zero the rest (a prefix-only comparison accepts it)
    KeepPrefix(u8),
    /// keep the last n bytes, zero the rest
    KeepSuffix(u8),
}

/// Apply to `field`; returns false when the field is unchanged (the case is then vacuous).
pub fn apply(field: &mut [u8], m: &Multi) -> bool {
    let before = field.to_vec();
    let n = field.len();
    if n == 0 {
        return false;
    }
    match m {
        Multi::XorPair(i, j, mask) => {
            let (i, j) = (*i as usize % n, *j as usize % n);
            if i != j {
                field[i] ^= mask;
                field[j] ^= mask;
            }
        }
        Multi::AddSub(i, j, d) => {
            let (i, j) = (*i as usize % n, *j as usize % n);
            if i != j {
                field[i] = field[i].wrapping_add(*d);
                field[j] = field[j].wrapping_sub(*d);
            }
        }
        Multi::Rotate(r) => field.rotate_left(*r as usize % n),
        Multi::Shuffle(k) => match k % 6 {
            0 => field.rotate_left(n / 2),
            1 => field.reverse(),
            2 | 3 => {
                let w = if k % 6 == 2 { 8 } else { 4 };
                if n % w == 0 {
                    let words: Vec<Vec<u8>> = field.chunks(w).rev().map(|c| c.to_vec()).collect();
                    field.copy_from_slice(&words.concat());
                }
            }
            4 => {
                if n >= 16 {
                    let (a, b) = field.split_at_mut(8);
                    a.swap_with_slice(&mut b[..8]);
                }
            }
            _ => {
                for c in field.chunks_mut(2) {
                    if c.len() == 2 {
                        c.swap(0, 1);
                    }
                }
            }
        },
        Multi::Random(s) => field.copy_from_slice(&expand_bytes(*s ^ 0x6d75_6c74_69, n)),
        Multi::Complement => field.iter_mut().for_each(|b| *b = !*b),
        Multi::Fill(v) => field.iter_mut().for_each(|b| *b = *v),
        Multi::KeepPrefix(k) => {
            let k = *k as usize % n;
            field[k..].iter_mut().for_each(|b| *b = 0);
        }
        Multi::KeepSuffix(k) => {
            let k = *k as usize % n;
            field[..n - k].iter_mut().for_each(|b| *b = 0);
        }
    }
    field != &before[..]
}

pub fn class(m: &Multi) -> &'static str {
    match m {
        Multi::XorPair(..) => "xor-pair",
        Multi::AddSub(..) => "add-sub-pair",
        Multi::Rotate(_) => "rotate",
        Multi::Shuffle(_) => "shuffle",
        Multi::Random(_) => "random-field",
        Multi::Complement => "complement",
        Multi::Fill(_) => "fill",
        Multi::KeepPrefix(_) | Multi::KeepSuffix(_) => "keep-part",
    }
}

/// The structured family for a field of `len` bytes. `dense`: all byte pairs (i < j) for three masks; otherwise pairs at
/// distances 1, 2, 4, 8, 16, 24 (the word sizes a folded comparison would use).
pub fn family(len: usize, dense: bool, randoms: u64) -> Vec<Multi> {
    let mut v = Vec::new();
    let n = len.min(255);
    for i in 0..n {
        for j in (i + 1)..n {
            let dist = j - i;
            if dense || matches!(dist, 1 | 2 | 4 | 8 | 16 | 24) {
                for mask in [0x01u8, 0x80, 0xFF] {
                    v.push(Multi::XorPair(i as u8, j as u8, mask));
                }
            }
            if matches!(dist, 1 | 8 | 16) {
                for d in [1u8, 0x80] {
                    v.push(Multi::AddSub(i as u8, j as u8, d));
                }
            }
        }
    }
    for r in 1..n {
        v.push(Multi::Rotate(r as u8));
    }
    for k in 0..6u8 {
        v.push(Multi::Shuffle(k));
    }
    v.push(Multi::Complement);
    v.push(Multi::Fill(0));
    v.push(Multi::Fill(0xFF));
    for k in [1usize, 4, 8, 16, 24, 28, 31] {
        if k < n {
            v.push(Multi::KeepPrefix(k as u8));
            v.push(Multi::KeepSuffix(k as u8));
        }
    }
    for s in 0..randoms {
        v.push(Multi::Random(s));
    }
    v
}

pub fn strategy() -> impl Strategy<Value = Multi> {
    prop_oneof![
        4 => (any::<u8>(), any::<u8>(), prop_oneof![Just(1u8), Just(0x80u8), Just(0xFFu8), any::<u8>()]).prop_map(|(i, j, m)| Multi::XorPair(i, j, m)),
        2 => (any::<u8>(), any::<u8>(), 1..=255u8).prop_map(|(i, j, d)| Multi::AddSub(i, j, d)),
        2 => any::<u8>().prop_map(Multi::Rotate),
        1 => (0..6u8).prop_map(Multi::Shuffle),
        3 => any::<u64>().prop_map(Multi::Random),
        1 => Just(Multi::Complement),
        1 => any::<u8>().prop_map(Multi::Fill),
        1 => any::<u8>().prop_map(Multi::KeepPrefix),
        1 => any::<u8>().prop_map(Multi::KeepSuffix),
    ]
}
