//! C07 — SM4 CBC/CFB/OFB/CTR match the standard modes, round-trip, and report the stated errors.

use proptest::prelude::*;
use serde::{Deserialize, Serialize};

use crate::corpus;
use crate::engine::*;
use crate::refimpl::sm4::{self as rsm4, Mode};

#[derive(Serialize, Deserialize, Hash, Debug, Clone)]
pub struct MC {
    /// 0 cbc, 1 cfb, 2 ofb, 3 ctr
    pub mode: u8,
    pub key: Hex,
    pub iv: Hex,
    pub data: Hex,
}

fn mode_of(m: u8) -> Mode {
    Mode::ALL[(m % 4) as usize]
}

fn lib_mode(m: Mode) -> gm_sm4::CipherMode {
    match m {
        Mode::Cbc => gm_sm4::CipherMode::Cbc,
        Mode::Cfb => gm_sm4::CipherMode::Cfb,
        Mode::Ofb => gm_sm4::CipherMode::Ofb,
        Mode::Ctr => gm_sm4::CipherMode::Ctr,
    }
}

fn arr16(b: &[u8]) -> [u8; 16] {
    let mut a = [0u8; 16];
    a.copy_from_slice(&b[..16]);
    a
}

fn lib_obj(m: Mode, key: &[u8]) -> Result<gm_sm4::Sm4CipherMode, Fail> {
    match outcome(|| gm_sm4::Sm4CipherMode::new(key, lib_mode(m))) {
        Outcome::Ok(c) => Ok(c),
        o => Err(Fail {
            key: format!("entry=Sm4CipherMode::new input=16-byte-key outcome={}", o.class()),
            detail: o.describe(),
        }),
    }
}

fn iv_class(iv: &[u8]) -> &'static str {
    let t = iv.iter().rev().take_while(|b| **b == 0xFF).count();
    match t {
        0 => "iv-plain",
        1..=7 => "iv-carry1-7",
        8..=15 => "iv-carry8-15",
        _ => "iv-wrap",
    }
}

/// Valid inputs: ciphertext == reference, round trip, lengths.
pub fn check_valid(c: &MC) -> CaseResult {
    let m = mode_of(c.mode);
    let (key, iv) = (arr16(&c.key), arr16(&c.iv));
    let obj = lib_obj(m, &key)?;
    let want = rsm4::encrypt(m, &key, &iv, &c.data);
    let got = match outcome(|| obj.encrypt(&c.data, &iv)) {
        Outcome::Ok(v) => v,
        o => return fail(format!("entry=Sm4CipherMode::encrypt mode={} input=valid outcome={}", m.name(), o.class()), format!("len={} -> {}", c.data.len(), o.describe())),
    };
    let want_len = if m == Mode::Cbc { 16 * (c.data.len() / 16 + 1) } else { c.data.len() };
    ensure!(got.len() == want_len, format!("entry=Sm4CipherMode::encrypt mode={} outcome=wrong-length", m.name()), "input {} bytes -> {} bytes, expected {}", c.data.len(), got.len(), want_len);
    ensure!(got == want, format!("entry=Sm4CipherMode::encrypt mode={} outcome=wrong-ciphertext", m.name()),
        "key={} iv={} data={} library={} reference={}", hex::encode(key), hex::encode(iv), hexs::hx(&c.data), hexs::hx(&got), hexs::hx(&want));
    let back = match outcome(|| obj.decrypt(&got, &iv)) {
        Outcome::Ok(v) => v,
        o => return fail(format!("entry=Sm4CipherMode::decrypt mode={} input=own-ciphertext outcome={}", m.name(), o.class()), format!("len={} -> {}", got.len(), o.describe())),
    };
    ensure!(back == c.data.0, format!("entry=Sm4CipherMode::decrypt mode={} outcome=round-trip-mismatch", m.name()),
        "key={} iv={} data={} decrypted={}", hex::encode(key), hex::encode(iv), hexs::hx(&c.data), hexs::hx(&back));
    if c.data.len() <= 4096 {
        // key, IV and data handed over as windows at odd offsets of larger buffers: results may not depend on where the bytes live
        let off = 1 + c.data.len() % 3;
        let win = |b: &[u8]| { let mut v = vec![0x7Eu8; off]; v.extend_from_slice(b); v.push(0x11); v };
        let (kb, ib, db, cb) = (win(&key), win(&iv), win(&c.data), win(&got));
        let obj2 = lib_obj(m, &kb[off..off + 16])?;
        let e2 = outcome(|| obj2.encrypt(&db[off..off + c.data.len()], &ib[off..off + 16]));
        ensure!(e2 == Outcome::Ok(got.clone()), format!("entry=Sm4CipherMode::encrypt mode={} outcome=depends-on-buffer-alignment", m.name()), "len={} at byte offset {}: {}", c.data.len(), off, e2.describe());
        let d2 = outcome(|| obj2.decrypt(&cb[off..off + got.len()], &ib[off..off + 16]));
        ensure!(d2 == Outcome::Ok(c.data.0.clone()), format!("entry=Sm4CipherMode::decrypt mode={} outcome=depends-on-buffer-alignment", m.name()), "len={} at byte offset {}: {}", got.len(), off, d2.describe());
    }
    let carry = m == Mode::Ctr && iv_class(&iv) != "iv-plain" && c.data.len() > 32;
    let nt = c.data.len() % 16 != 0 || c.data.len() > 16 || carry;
    pass(nt, format!("{}/{}/{}", m.name(), if c.data.len() % 16 == 0 { "aligned" } else { "ragged" }, iv_class(&iv)))
}

/// Arbitrary "ciphertext" bytes: decrypt must agree with the reference decryptor
/// (Ok with the same plaintext, or Err exactly where the standard mode has no plaintext).
pub fn check_decrypt_any(c: &MC) -> CaseResult {
    let m = mode_of(c.mode);
    let (key, iv) = (arr16(&c.key), arr16(&c.iv));
    let obj = lib_obj(m, &key)?;
    let want = rsm4::decrypt(m, &key, &iv, &c.data);
    let got = outcome(|| obj.decrypt(&c.data, &iv));
    let class = if m == Mode::Cbc {
        if c.data.is_empty() {
            "cbc-empty"
        } else if c.data.len() % 16 != 0 {
            "cbc-ragged"
        } else if want.is_none() {
            "cbc-badpad"
        } else {
            "cbc-goodpad"
        }
    } else {
        "stream"
    };
    match (&want, &got) {
        (Some(w), Outcome::Ok(g)) => {
            // The property constrains only the final padding byte; bytes before it are not checked by either side.
            ensure!(g == w, format!("entry=Sm4CipherMode::decrypt mode={} outcome=wrong-plaintext", m.name()),
                "key={} iv={} ct={} library={} reference={}", hex::encode(key), hex::encode(iv), hexs::hx(&c.data), hexs::hx(g), hexs::hx(w));
        }
        (None, Outcome::Err(_)) => {}
        (None, o) => {
            return fail(format!("entry=Sm4CipherMode::decrypt mode=cbc input={} outcome={}", class, o.class()),
                format!("key={} iv={} ct={} must be rejected with an error, got {}", hex::encode(key), hex::encode(iv), hexs::hx(&c.data), o.describe()));
        }
        (Some(_), o) => {
            return fail(format!("entry=Sm4CipherMode::decrypt mode={} input=valid outcome={}", m.name(), o.class()),
                format!("key={} iv={} ct={} is valid, got {}", hex::encode(key), hex::encode(iv), hexs::hx(&c.data), o.describe()));
        }
    }
    pass(true, class)
}

/// IV of a wrong length: both directions must return Err.
pub fn check_bad_iv(c: &MC) -> CaseResult {
    let m = mode_of(c.mode);
    let key = arr16(&c.key);
    let obj = lib_obj(m, &key)?;
    for (dir, o) in [("encrypt", outcome(|| obj.encrypt(&c.data, &c.iv))), ("decrypt", outcome(|| obj.decrypt(&c.data, &c.iv)))] {
        ensure!(o.is_err(), format!("entry=Sm4CipherMode::{} mode={} input=iv-len!=16 outcome={}", dir, m.name(), o.class()),
            "iv of {} bytes, data of {} bytes: expected Err, got {}", c.iv.len(), c.data.len(), o.describe());
    }
    pass(true, format!("{}/ivlen{}", m.name(), if c.iv.len() < 16 { "<16" } else { ">16" }))
}

/// One mode object driven through a history of calls, some of which it must refuse (IV of the wrong length, ragged or badly padded CBC input):
/// every answer is compared with the reference, so anything a refused call leaves behind in the object shows in the calls after it.
#[derive(Serialize, Deserialize, Hash, Debug, Clone)]
pub struct ObjHist {
    pub mode: u8,
    pub key: Hex,
    /// (decrypt?, iv, data, shape): shape 0 data as given; 1 (decrypt only) data := reference ciphertext of `data`; 2 that ciphertext without its last block;
    /// 3 that ciphertext with its last byte flipped
    pub ops: Vec<(bool, Hex, Hex, u8)>,
}

pub fn check_obj_hist(h: &ObjHist) -> CaseResult {
    let m = mode_of(h.mode);
    let key = arr16(&h.key);
    let obj = lib_obj(m, &key)?;
    let mut refused = 0;
    let mut after_refusal = 0;
    for (i, (dec, iv, data, shape)) in h.ops.iter().enumerate() {
        let iv_ok = iv.len() == 16;
        let mut input = data.0.clone();
        if *dec && *shape % 4 != 0 && iv_ok {
            let mut ct = rsm4::encrypt(m, &key, &arr16(iv), &data.0);
            match shape % 4 {
                2 => { let l = ct.len().saturating_sub(16); ct.truncate(l); }
                3 => { if let Some(b) = ct.last_mut() { *b ^= 0x40; } }
                _ => {}
            }
            input = ct;
        }
        let want: Option<Vec<u8>> = if !iv_ok { None } else if *dec { rsm4::decrypt(m, &key, &arr16(iv), &input) } else { Some(rsm4::encrypt(m, &key, &arr16(iv), &input)) };
        let got = outcome(|| if *dec { obj.decrypt(&input, iv) } else { obj.encrypt(&input, iv) });
        let dir = if *dec { "decrypt" } else { "encrypt" };
        match (&want, &got) {
            (Some(w), Outcome::Ok(g)) => ensure!(g == w, format!("entry=Sm4CipherMode::{} mode={} history outcome=wrong-output", dir, m.name()),
                "step {} of {} on one object ({} refused calls before it): input {} bytes, library {} reference {}", i, h.ops.len(), refused, input.len(), hexs::hx(g), hexs::hx(w)),
            (None, Outcome::Err(_)) => refused += 1,
            (None, o) => return fail(format!("entry=Sm4CipherMode::{} mode={} history input=invalid outcome={}", dir, m.name(), o.class()), format!("step {}: iv {} bytes, input {} bytes: {}", i, iv.len(), input.len(), o.describe())),
            (Some(_), o) => return fail(format!("entry=Sm4CipherMode::{} mode={} history input=valid outcome={}", dir, m.name(), o.class()),
                format!("step {} of {} on one object ({} refused calls before it): iv {} bytes, input {} bytes: {}", i, h.ops.len(), refused, iv.len(), input.len(), o.describe())),
        }
        if want.is_some() && refused > 0 {
            after_refusal += 1;
        }
    }
    pass(after_refusal > 0, format!("{}/ops{}/{}", m.name(), (h.ops.len() / 4) * 4, if after_refusal > 0 { "valid-after-refused" } else { "no-refusal-before-valid" }))
}

fn key_iv() -> impl Strategy<Value = (Hex, Hex)> {
    let iv = prop_oneof![
        4 => prop::array::uniform16(any::<u8>()).prop_map(|a| a.to_vec()),
        1 => Just(vec![0u8; 16]),
        3 => (1..=16usize, prop::array::uniform16(any::<u8>())).prop_map(|(t, a)| { let mut v = a.to_vec(); for i in 0..t { v[15 - i] = 0xFF; } v }),
    ];
    (prop::array::uniform16(any::<u8>()).prop_map(|a| Hex(a.to_vec())), iv.prop_map(Hex))
}

#[derive(Serialize, Deserialize, Hash, Debug, Clone)]
pub struct Idx {
    pub index: usize,
}

pub fn run(ctx: &Ctx) {
    ctx.set_rule(
        "cases are (mode, key, iv, data): every data length 0..=200 per mode x 3 (key, iv) draws; CTR/all-mode IVs with 1..16 trailing 0xFF \
         bytes (carry through every byte, wrap-around) over >= 4 blocks; proptest data up to 2^14 bytes; arbitrary byte strings fed to decrypt \
         (CBC: empty, ragged, crafted final plaintext byte 0 and 17..255 via the reference's unpadded CBC, and valid paddings); IV lengths 0..=40 \
         except 16; OpenSSL `enc -sm4-{cbc,cfb,ofb,ctr}` corpus (868 entries). Oracle: textbook modes over the reference SM4; Ok/Err class only for \
         the error clause. Non-trivial: length not a multiple of 16, or > 16, or a carry IV consumed, or an error-clause case; distinct by hash of the case.",
    );
    ctx.assume("reference modes (harness/src/refimpl/sm4.rs) anchored on 868 OpenSSL ciphertexts incl. carry IVs");
    ctx.assume("padding whose last byte is in 1..16 but whose other padding bytes are inconsistent is not asserted to be rejected (the property constrains the final byte only)");

    ctx.exhaustive(
        "lengths_0_200",
        "4 modes x every data length 0..=200 x 3 (key, iv) draws",
        || {
            let mut v = Vec::new();
            for mode in 0..4u8 {
                for len in 0..=200usize {
                    for d in 0..3u64 {
                        let s = (mode as u64) << 32 | (len as u64) << 8 | d;
                        let mut iv = expand_bytes(s ^ 0x1111, 16);
                        if d == 1 {
                            iv = vec![0xFF; 16];
                        }
                        if d == 2 {
                            let t = 1 + len % 16;
                            for i in 0..t {
                                iv[15 - i] = 0xFF;
                            }
                        }
                        v.push(MC { mode, key: Hex(expand_bytes(s ^ 0x2222, 16)), iv: Hex(iv), data: Hex(expand_bytes(s ^ 0x3333, len)) });
                    }
                }
            }
            v
        },
        check_valid,
    );

    let cold_cases = || {
        let mut v = Vec::new();
        for mode in 0..4u8 {
            for len in [16usize, 33, 48] {
                let s = 0xc07d00 | (mode as u64) << 8 | len as u64;
                v.push(MC { mode, key: Hex(expand_bytes(s ^ 1, 16)), iv: Hex(expand_bytes(s ^ 2, 16)), data: Hex(expand_bytes(s ^ 3, len)) });
            }
        }
        v
    };
    ctx.cold("cold_start_decrypt", "mode decryption as the first library operation of a fresh process: arbitrary bytes, and valid ciphertexts made by the reference (4 modes x 3 lengths each)", move || {
        let mut v = cold_cases();
        for c in cold_cases() {
            let ct = rsm4::encrypt(mode_of(c.mode), &arr16(&c.key), &arr16(&c.iv), &c.data);
            v.push(MC { mode: c.mode, key: c.key.clone(), iv: c.iv.clone(), data: Hex(ct) });
        }
        v
    }, check_decrypt_any);
    ctx.cold("cold_start_encrypt", "mode encryption (then decryption) as the first library operation of a fresh process (4 modes x 3 lengths)", cold_cases, check_valid);

    let huge: Vec<usize> = ctx.tier.pick(vec![(1usize << 16) - 1, 1 << 16, (1 << 16) + 3, (1 << 16) + 16, 100_000, (1 << 17) + 40, (1 << 18) + 8], vec![(1usize << 16) - 1, 1 << 16, (1 << 16) + 3, (1 << 16) + 16, 100_000, (1 << 17) + 40, (1 << 18) + 8, (1 << 20) + 3, (1 << 22) + 16, (1 << 24) + 1]);
    ctx.listed("huge_messages", "each mode on very large inputs (2^16-1, 2^16, 2^16+3, 2^16+16, 100000, 2^17+40, 2^18+8 bytes in the quick tier; up to 2^24+1 in the thorough tier: size thresholds, chunked or parallel paths), IV near a carry", move || {
        let mut v = Vec::new();
        for len in huge.iter() {
            for mode in 0..4u8 {
                let mut iv = expand_bytes(*len as u64 ^ 0x77, 16);
                iv[12..].copy_from_slice(&[0xFF, 0xFF, 0xFF, 0x00]);
                v.push(MC { mode, key: Hex(expand_bytes(*len as u64 ^ 0x78, 16)), iv: Hex(iv), data: Hex(expand_bytes(*len as u64, *len)) });
            }
        }
        v
    }, check_valid);

    ctx.exhaustive(
        "lengths_above_size_thresholds",
        "each mode at T + 16 b + r bytes for T in {4096, 65536, 131072}, b = 0..=8 whole blocks (every residue of an unroll / lane factor up to 8) and r in {0, 1, 15}: bulk paths that only large inputs take",
        || {
            let mut v = Vec::new();
            for t in [4096usize, 65536, 131072] {
                for b in 0..=8usize {
                    for r in [0usize, 1, 15] {
                        let len = t + 16 * b + r;
                        for mode in 0..4u8 {
                            v.push(MC { mode, key: Hex(expand_bytes(len as u64 ^ 0x7a1, 16)), iv: Hex(expand_bytes(len as u64 ^ 0x7a2, 16)), data: Hex(expand_bytes(len as u64 ^ 0x7a3, len)) });
                        }
                    }
                }
            }
            v
        },
        check_valid,
    );

    ctx.exhaustive(
        "cbc_valid_ciphertext_plus_or_minus_bytes",
        "valid CBC ciphertexts (reference-made, plaintexts of 0..=47 bytes incl. ones whose block-final bytes are 0x01..0x10) with 1..=15 bytes appended, and cut by 1..=15 bytes inside the last block: neither length is a multiple of 16, so both must be rejected; the untouched ciphertext must decrypt",
        || {
            let mut v = Vec::new();
            for plen in 0..=47usize {
                for variant in 0..2u64 {
                    let s = 0xcbc7_0000 | (plen as u64) << 4 | variant;
                    let (key, iv) = (arr16(&expand_bytes(s ^ 1, 16)), arr16(&expand_bytes(s ^ 2, 16)));
                    let mut pt = expand_bytes(s ^ 3, plen);
                    if variant == 1 {
                        // make every block-final plaintext byte a legal padding value, so that a decryptor that drops the ragged tail sees valid padding
                        for i in (15..pt.len()).step_by(16) {
                            pt[i] = 1 + (i as u8 % 16);
                        }
                    }
                    let ct = rsm4::encrypt(Mode::Cbc, &key, &iv, &pt);
                    v.push(MC { mode: 0, key: Hex(key.to_vec()), iv: Hex(iv.to_vec()), data: Hex(ct.clone()) });
                    for extra in [1usize, 7, 15] {
                        let mut longer = ct.clone();
                        longer.extend_from_slice(&expand_bytes(s ^ 4, extra));
                        v.push(MC { mode: 0, key: Hex(key.to_vec()), iv: Hex(iv.to_vec()), data: Hex(longer) });
                        if ct.len() > 16 {
                            v.push(MC { mode: 0, key: Hex(key.to_vec()), iv: Hex(iv.to_vec()), data: Hex(ct[..ct.len() - extra].to_vec()) });
                        }
                    }
                }
            }
            v
        },
        check_decrypt_any,
    );

    ctx.exhaustive(
        "carry_ivs",
        "4 modes x IVs with t = 1..16 trailing 0xFF bytes x data of 49..=96 bytes step 47 (>= 4 counter values)",
        || {
            let mut v = Vec::new();
            for mode in 0..4u8 {
                for t in 1..=16usize {
                    for (j, len) in [49usize, 64, 96, 130].iter().enumerate() {
                        let s = 0xC0 << 40 | (mode as u64) << 32 | (t as u64) << 8 | j as u64;
                        let mut iv = expand_bytes(s, 16);
                        for i in 0..t {
                            iv[15 - i] = 0xFF;
                        }
                        if j == 3 && t < 16 {
                            iv[15] = 0xFE; // carry happens after the second block
                        }
                        v.push(MC { mode, key: Hex(expand_bytes(s ^ 0x77, 16)), iv: Hex(iv), data: Hex(expand_bytes(s ^ 0x99, *len)) });
                    }
                }
            }
            v
        },
        check_valid,
    );

    let maxlen = ctx.tier.pick(1usize << 12, 1usize << 14);
    ctx.generated(
        "generated_valid",
        "proptest (mode, key, iv incl. carry family, data 0..2^12 / 2^14 bytes)",
        ctx.tier.pick(60_000, 600_000),
        || {
            (0..4u8, key_iv(), prop_oneof![3 => 0..=300usize, 1 => 0..=maxlen], any::<u64>())
                .prop_map(|(mode, (key, iv), len, seed)| MC { mode, key, iv, data: Hex(expand_bytes(seed, len)) })
        },
        check_valid,
    );

    ctx.generated(
        "object_histories_with_refused_calls",
        "one mode object driven through 2..12 calls (encrypt / decrypt, IVs of 16 bytes and of wrong lengths, arbitrary bytes, reference-made ciphertexts whole, without their last block, with a flipped last byte) of which some must be refused: every answer == reference, so whatever a refused call leaves behind shows in the next one",
        ctx.tier.pick(6_000, 100_000),
        || {
            let iv = prop_oneof![6 => prop::array::uniform16(any::<u8>()).prop_map(|a| Hex(a.to_vec())), 1 => (prop::sample::select(vec![0usize, 1, 15, 17, 32]), any::<u64>()).prop_map(|(l, s)| Hex(expand_bytes(s, l)))];
            let data = (prop_oneof![2 => 0..=48usize, 1 => prop::sample::select(vec![15usize, 16, 17, 31, 32, 33, 64])], any::<u64>()).prop_map(|(l, s)| Hex(expand_bytes(s, l)));
            let op = (any::<bool>(), iv, data, 0..4u8);
            (prop_oneof![2 => Just(0u8), 3 => 1..4u8], prop::array::uniform16(any::<u8>()), prop::collection::vec(op, 2..12)).prop_map(|(mode, key, ops)| ObjHist { mode, key: Hex(key.to_vec()), ops })
        },
        check_obj_hist,
    );
    ctx.listed("object_refused_then_valid", "for each mode: decrypt of a reference ciphertext on an object whose previous call was refused — (a) CBC bad padding, same length; (b) CBC bad padding, longer; (c) ragged CBC input; (d) IV of 15 bytes; (e) IV of 17 bytes on encrypt — then an encrypt; plus the same after two refusals", || {
        let mut v = Vec::new();
        for mode in 0..4u8 {
            for k in 0..6u64 {
                let s = 0x0b1e_0000 | (mode as u64) << 8 | k;
                let good_iv = Hex(expand_bytes(s ^ 1, 16));
                let bad = |kind: u64| -> (bool, Hex, Hex, u8) {
                    match kind {
                        0 => (true, good_iv.clone(), Hex(expand_bytes(s ^ 2, 21)), 2),       // ciphertext without its last block: bad padding for CBC
                        1 => (true, good_iv.clone(), Hex(expand_bytes(s ^ 3, 37)), 2),
                        2 => (true, good_iv.clone(), Hex(expand_bytes(s ^ 4, 23)), 0),       // ragged arbitrary bytes
                        3 => (true, Hex(expand_bytes(s ^ 5, 15)), Hex(expand_bytes(s ^ 6, 16)), 0),
                        4 => (false, Hex(expand_bytes(s ^ 7, 17)), Hex(expand_bytes(s ^ 8, 5)), 0),
                        _ => (true, good_iv.clone(), Hex(expand_bytes(s ^ 9, 5)), 3),
                    }
                };
                let valid_dec = (true, Hex(expand_bytes(s ^ 10, 16)), Hex(expand_bytes(s ^ 11, 5)), 1u8);
                let valid_dec2 = (true, Hex(expand_bytes(s ^ 12, 16)), Hex(expand_bytes(s ^ 13, 21)), 1u8);
                let valid_enc = (false, Hex(expand_bytes(s ^ 14, 16)), Hex(expand_bytes(s ^ 15, 33)), 0u8);
                v.push(ObjHist { mode, key: Hex(expand_bytes(s, 16)), ops: vec![bad(k), valid_dec.clone(), valid_dec2.clone(), valid_enc.clone()] });
                v.push(ObjHist { mode, key: Hex(expand_bytes(s, 16)), ops: vec![valid_dec2.clone(), bad(k), bad((k + 1) % 6), valid_dec.clone(), valid_enc.clone(), valid_dec2.clone()] });
            }
        }
        v
    }, check_obj_hist);

    ctx.exhaustive(
        "decrypt_every_length",
        "4 modes x arbitrary ciphertext bytes of every length 0..=100 (CBC: empty/ragged must be Err, aligned judged by the reference)",
        || {
            let mut v = Vec::new();
            for mode in 0..4u8 {
                for len in 0..=100usize {
                    let s = 0xD0 << 40 | (mode as u64) << 32 | len as u64;
                    v.push(MC { mode, key: Hex(expand_bytes(s ^ 1, 16)), iv: Hex(expand_bytes(s ^ 2, 16)), data: Hex(expand_bytes(s ^ 3, len)) });
                }
            }
            v
        },
        check_decrypt_any,
    );

    ctx.exhaustive(
        "cbc_final_byte",
        "CBC ciphertexts (1..=3 blocks) crafted with the reference's unpadded CBC so that the final plaintext byte takes every value 0..=255",
        || {
            let mut v = Vec::new();
            for last in 0..=255u8 {
                for blocks in 1..=3usize {
                    let s = 0xE0 << 40 | (last as u64) << 8 | blocks as u64;
                    let key = arr16(&expand_bytes(s ^ 1, 16));
                    let iv = arr16(&expand_bytes(s ^ 2, 16));
                    let mut pt = expand_bytes(s ^ 3, 16 * blocks);
                    let n = pt.len();
                    // consistent padding when possible, so that valid paddings are really valid
                    if last >= 1 && last <= 16 {
                        for i in 0..last as usize {
                            pt[n - 1 - i] = last;
                        }
                    }
                    pt[n - 1] = last;
                    let ct = rsm4::cbc_encrypt_nopad(&rsm4::Sm4::new(&key), &iv, &pt);
                    v.push(MC { mode: 0, key: Hex(key.to_vec()), iv: Hex(iv.to_vec()), data: Hex(ct) });
                }
            }
            v
        },
        check_decrypt_any,
    );

    ctx.generated(
        "generated_decrypt_any",
        "proptest arbitrary ciphertext bytes per mode (CBC lengths biased to multiples of 16)",
        ctx.tier.pick(40_000, 400_000),
        || {
            (0..4u8, key_iv(), prop_oneof![2 => (0..=20usize).prop_map(|b| b * 16), 1 => 0..=330usize], any::<u64>())
                .prop_map(|(mode, (key, iv), len, seed)| MC { mode, key, iv, data: Hex(expand_bytes(seed, len)) })
        },
        check_decrypt_any,
    );

    ctx.exhaustive(
        "iv_length_errors",
        "4 modes x IV lengths 0..=40 except 16 x data lengths {0, 5, 16, 33}",
        || {
            let mut v = Vec::new();
            for mode in 0..4u8 {
                for ivlen in (0..=40usize).filter(|l| *l != 16) {
                    for dl in [0usize, 5, 16, 33] {
                        let s = 0xF0 << 40 | (mode as u64) << 32 | (ivlen as u64) << 8 | dl as u64;
                        v.push(MC { mode, key: Hex(expand_bytes(s ^ 1, 16)), iv: Hex(expand_bytes(s ^ 2, ivlen)), data: Hex(expand_bytes(s ^ 3, dl)) });
                    }
                }
            }
            v
        },
        check_bad_iv,
    );

    ctx.listed(
        "openssl_modes_corpus",
        "868 (mode, key, iv, pt, ct) entries from openssl enc",
        || (0..corpus::openssl()["sm4_modes"].as_array().unwrap().len()).map(|index| Idx { index }).collect(),
        |c| {
            let e = &corpus::openssl()["sm4_modes"][c.index];
            let m = Mode::from_name(e["mode"].as_str().unwrap());
            let (key, iv, pt, ct) = (corpus::hexv(&e["key"]), corpus::hexv(&e["iv"]), corpus::hexv(&e["pt"]), corpus::hexv(&e["ct"]));
            let r = rsm4::encrypt(m, &arr16(&key), &arr16(&iv), &pt);
            ensure!(r == ct, "reference-vs-openssl sm4-modes", "reference {} disagrees with OpenSSL on entry {}", m.name(), c.index);
            let obj = lib_obj(m, &key)?;
            let got = outcome(|| obj.encrypt(&pt, &iv));
            ensure!(got == Outcome::Ok(ct.clone()), format!("entry=Sm4CipherMode::encrypt mode={} outcome=wrong-ciphertext", m.name()),
                "corpus {}: library {} openssl {}", c.index, got.describe(), hexs::hx(&ct));
            let back = outcome(|| obj.decrypt(&ct, &iv));
            ensure!(back == Outcome::Ok(pt.clone()), format!("entry=Sm4CipherMode::decrypt mode={} outcome=round-trip-mismatch", m.name()),
                "corpus {}: library decrypt {}", c.index, back.describe());
            pass(pt.len() % 16 != 0 || pt.len() > 16, format!("{}/corpus", m.name()))
        },
    );
}
