//! C12 — the SM9 pairing is the bilinear, non-degenerate R-ate pairing of GM/T 0044.1.

use gm_sm9::fields::FieldElement;
use gm_sm9::points::{Point, TwistPoint};
use gm_sm9::verif_hooks as hk;
use num_bigint::BigUint;
use num_traits::{One, Zero};
use proptest::prelude::*;
use serde::{Deserialize, Serialize};

use super::sm9util::*;
use crate::engine::*;
use crate::gen;
use crate::refimpl::field::{from_be, to_limbs, Fld};
use crate::refimpl::sm9 as r9;

#[derive(Serialize, Deserialize, Hash, Debug, Clone)]
pub struct PairCase {
    /// Q = [a]P2
    pub a: Hex,
    /// P = [b]P1
    pub b: Hex,
    /// Jacobian Z of P (Fp) — 1 = affine
    pub zp: Hex,
    /// Jacobian Z of Q (Fp2: z0 + z1 u) — (1, 0) = affine
    pub zq0: Hex,
    pub zq1: Hex,
}

fn scalar_edge(k: &BigUint) -> bool {
    let n = &r9::params().n;
    k.bits() <= 3 || (n - k).bits() <= 3 || k.count_ones() == 1
}

fn check_exact(c: &PairCase) -> CaseResult {
    let pr = r9::params();
    let (a, b) = (from_be(&c.a) % &pr.n, from_be(&c.b) % &pr.n);
    if a.is_zero() || b.is_zero() {
        return pass(false, "zero-scalar-skipped");
    }
    let (q_ref, p_ref) = (r9::p2_mul(&a), r9::p1_mul(&b));
    let zp = from_be(&c.zp) % pr.p;
    let zq = r9::fp2(&(from_be(&c.zq0) % pr.p), &(from_be(&c.zq1) % pr.p));
    if zp.is_zero() || zq.is_zero() {
        return pass(false, "zero-z-skipped");
    }
    let (p_lib, q_lib) = (lib_g1(&p_ref, &zp), lib_g2(&q_ref, &zq));
    let got = catch(|| hk::pairing(&q_lib, &p_lib)).map_err(|e| Fail { key: "entry=sm9_u256_pairing outcome=panic".into(), detail: format!("a={:x} b={:x}: {}", a, b, e) })?;
    ensure!(f12_canonical(&got), "entry=sm9_u256_pairing outcome=non-canonical", "a={:x} b={:x}", a, b);
    let want = r9::pairing(&p_ref, &q_ref);
    let jac = !(zp.is_one() && zq == fp2_one());
    if ref_f12(&got) != want {
        return fail(
            format!("entry=sm9_u256_pairing outcome=wrong-value{}", if jac { " input=jacobian" } else { "" }),
            format!("e([{:x}]P1, [{:x}]P2) with Z_P={:x} Z_Q={:?}:\nlibrary  {}\nGM/T 0044.1 {}", b, a, zp, zq, hex::encode(&ref_f12(&got).bytes()[..96]), hex::encode(&want.bytes()[..96])),
        );
    }
    // the 384-byte encoding the library hands to its hash functions
    let bytes = catch(|| got.to_bytes_be()).map_err(|e| Fail { key: "entry=Fp12::to_bytes_be outcome=panic".into(), detail: e })?;
    ensure!(bytes == want.bytes(), "entry=Fp12::to_bytes_be outcome=wrong-encoding", "a={:x} b={:x}: {}", a, b, hex::encode(&bytes[..64]));
    pass(!(a.is_one() && b.is_one()) || jac, format!("exact{}{}", if jac { "/jacobian" } else { "/affine" }, if scalar_edge(&a) || scalar_edge(&b) { "/edge" } else { "" }))
}

/// P = a boundary point of G1 (sm9util::g1_edge_points) in the representation Z_P, Q = [a]P2 affine
#[derive(Serialize, Deserialize, Hash, Debug, Clone)]
pub struct EdgePair {
    pub point: usize,
    pub a: Hex,
    pub zp: Hex,
}

fn check_exact_edge(c: &EdgePair) -> CaseResult {
    let pr = r9::params();
    let eps = g1_edge_points();
    let (label, x, y) = &eps[c.point % eps.len()];
    let a = from_be(&c.a) % &pr.n;
    let mut zp = from_be(&c.zp) % pr.p;
    if a.is_zero() {
        return pass(false, "zero-scalar-skipped");
    }
    if zp.is_zero() {
        zp = BigUint::one();
    }
    let p_ref = Some((r9::fp(x), r9::fp(y)));
    let q_ref = r9::p2_mul(&a);
    let (p_lib, q_lib) = (lib_g1(&p_ref, &zp), lib_g2(&q_ref, &fp2_one()));
    let got = catch(|| hk::pairing(&q_lib, &p_lib)).map_err(|e| Fail { key: "entry=sm9_u256_pairing outcome=panic".into(), detail: format!("P = edge point {} a={:x}: {}", label, a, e) })?;
    ensure!(f12_canonical(&got), "entry=sm9_u256_pairing outcome=non-canonical", "P = edge point {} a={:x}", label, a);
    let want = r9::pairing(&p_ref, &q_ref);
    if ref_f12(&got) != want {
        return fail(
            format!("entry=sm9_u256_pairing outcome=wrong-value{}", if zp.is_one() { "" } else { " input=jacobian" }),
            format!("e(P, [{:x}]P2) with P = edge point {} x={:x} y={:x} Z_P={:x}:\nlibrary  {}\nGM/T 0044.1 {}", a, label, x, y, zp, hex::encode(&ref_f12(&got).bytes()[..96]), hex::encode(&want.bytes()[..96])),
        );
    }
    pass(true, format!("exact/edge-point{}", if zp.is_one() { "/affine" } else { "/jacobian" }))
}

#[derive(Serialize, Deserialize, Hash, Debug, Clone)]
pub struct Bilin {
    pub a: Hex,
    pub b: Hex,
}

/// inside the library only: e([b]P1, [a]P2) == e(P1, P2)^(ab mod N), through the library's own scalar multiplications
fn check_bilinear(c: &Bilin) -> CaseResult {
    let pr = r9::params();
    let n = &pr.n;
    let (a, b) = (from_be(&c.a) % n, from_be(&c.b) % n);
    if a.is_zero() || b.is_zero() {
        return pass(false, "zero-scalar-skipped");
    }
    let e = (&a * &b) % n;
    // Fp12::pow admits every exponent up to N-1, and e = ab mod N never exceeds it
    let r = catch(|| {
        let p = Point::g_mul(&to_limbs(&b));
        let q = TwistPoint::g_mul(&to_limbs(&a));
        let lhs = hk::pairing(&q, &p);
        let g = hk::pairing(&TwistPoint::g_mul(&[1, 0, 0, 0]), &Point::g_mul(&[1, 0, 0, 0]));
        let rhs = hk::fp12_pow(&g, &to_limbs(&e));
        (ref_f12(&lhs), ref_f12(&rhs), ref_f12(&g))
    })
    .map_err(|p| Fail { key: "entry=sm9_u256_pairing outcome=panic".into(), detail: format!("a={:x} b={:x}: {}", a, b, p) })?;
    ensure!(r.0 == r.1, "entry=sm9_u256_pairing outcome=not-bilinear", "e([{:x}]P1,[{:x}]P2) != e(P1,P2)^(ab)", b, a);
    ensure!(r.2 != r9::f12_one(), "entry=sm9_u256_pairing outcome=degenerate", "e(P1,P2) = 1");
    pass(!(a.is_one() && b.is_one()), if scalar_edge(&a) || scalar_edge(&b) { "bilinear/edge" } else { "bilinear" })
}

fn scalar() -> impl Strategy<Value = Hex> {
    let n = r9::params().n.clone();
    prop_oneof![
        2 => (1u64..8).prop_map(|v| gen::hex32(&BigUint::from(v))),
        2 => (1u64..8).prop_map(move |v| gen::hex32(&(&n - BigUint::from(v)))),
        2 => (0u32..255).prop_map(|i| gen::hex32(&(BigUint::one() << i))),
        6 => prop::array::uniform32(any::<u8>()).prop_map(|a| Hex(a.to_vec())),
    ]
}

fn zrep() -> impl Strategy<Value = (Hex, Hex, Hex)> {
    let p = r9::p_static().clone();
    let one = gen::hex32(&BigUint::one());
    let zero = gen::hex32(&BigUint::zero());
    let rnd = move || {
        let p = p.clone();
        prop::array::uniform32(any::<u8>()).prop_map(move |a| gen::hex32(&(from_be(&a) % (&p - 1u32) + 1u32)))
    };
    // Z whose *Montgomery limbs* are a small integer (the field element k * R^-1): the classic plain-vs-Montgomery "one" confusion
    let raw = |k: u32| gen::hex32(&((BigUint::from(k) * rinv()) % r9::p_static()));
    let raws = prop::sample::select(vec![raw(1), raw(2), raw(3)]);
    let raws2 = raws.clone();
    prop_oneof![
        2 => Just((one.clone(), one.clone(), zero.clone())),
        1 => (raws, Just(one.clone()), Just(zero.clone())),
        1 => (Just(one.clone()), raws2, Just(zero.clone())),
        2 => (rnd(), Just(one.clone()), Just(zero.clone())),
        2 => (Just(one.clone()), rnd(), rnd()),
        1 => (Just(one.clone()), Just(zero.clone()), rnd()),
        4 => (rnd(), rnd(), rnd()),
    ]
}

pub fn run(ctx: &Ctx) {
    let pr = r9::params();
    ctx.set_rule(
        "cases are (a, b, Z_P, Z_Q): Q = [a]P2 and P = [b]P1 with a, b from {1..7, N-7..N-1, 2^i, uniform}, both points rewritten by the harness into Jacobian representations (Z = 1, random, purely imaginary for Q); P also taken from the boundary points of G1 (coordinates next to 0, N, p, powers of two, special limb patterns). \
         Oracle 1 (exact): the 384-byte value of the library pairing equals the textbook R-ate pairing of the reference (affine Miller loop over Fp12 = Fp[w]/(w^12+2), final exponent (p^12-1)/N). Oracle 2 (inside the library, \
         more pairs): e([b]P1,[a]P2) == e(P1,P2)^(ab mod N) with the library's own scalar multiplications and exponentiation, e(P1,P2) != 1, g^N == 1. Annex value of e(P1, Ppub-s). Non-trivial: a, b not both 1, or a Jacobian input.",
    );
    ctx.assume("reference pairing (harness/src/refimpl/sm9.rs) reproduces the GM/T 0044.5 Annex value of e(P1,Ppub-s) and all Annex signature/ciphertext/exchange values, and is bilinear on its own");
    ctx.assume("the G2 point at infinity is not a pairing argument in any caller (user keys and master public keys are never O) and is not generated; the G1 point at infinity is (a caller can pass S = O or R = O) and must give the value 1");

    ctx.listed("annex_and_order", "e(P1, Ppub-s) for the Annex master key equals the published value; g has order N; e(P1,P2) != 1", || vec![0u8], |_| {
        let ks = crate::refimpl::field::big("000130E7 8459D785 45CB54C5 87E02CF4 80CE0B66 340F319F 348A1D5B 1F2DC5F4");
        let g = catch(|| hk::pairing(&TwistPoint::g_mul(&to_limbs(&ks)), &Point::g_mul(&[1, 0, 0, 0]))).map_err(|p| Fail { key: "entry=sm9_u256_pairing outcome=panic".into(), detail: p })?;
        let bytes = g.to_bytes_be();
        ensure!(hex::encode_upper(&bytes[..64]) == "4E378FB5561CD0668F906B731AC58FEE25738EDF09CADC7A29C0ABC0177AEA6D28B3404A61908F5D6198815C99AF1990C8AF38655930058C28C21BB539CE0000",
            "entry=sm9_u256_pairing outcome=wrong-value", "Annex g: library {}", hex::encode_upper(&bytes[..64]));
        ensure!(bytes == r9::pairing(&pr.p1, &r9::p2_mul(&ks)).bytes(), "entry=sm9_u256_pairing outcome=wrong-value", "Annex g: all 384 bytes");
        // order N: g^(N-2) * g * g == 1   (pow demands an exponent < N-1)
        let gn = catch(|| hk::fp12_pow(&g, &to_limbs(&(&pr.n - 2u32))).fp_mul(&g).fp_mul(&g)).map_err(|p| Fail { key: "entry=Fp12::pow outcome=panic".into(), detail: p })?;
        ensure!(ref_f12(&gn) == r9::f12_one(), "entry=sm9_u256_pairing outcome=order-not-N", "g^N != 1");
        ensure!(ref_f12(&g) != r9::f12_one(), "entry=sm9_u256_pairing outcome=degenerate", "g = 1");
        pass(true, "annex")
    });

    ctx.exhaustive("exact_small_and_edge", "a, b in {1, 2, 3, N-1, N-2, 2^127, 2^255 mod N} x affine / Jacobian representations", || {
        let n = &pr.n;
        let vals = [BigUint::one(), BigUint::from(2u32), BigUint::from(3u32), n - 1u32, n - 2u32, BigUint::one() << 127, (BigUint::one() << 255) % n];
        let one = gen::hex32(&BigUint::one());
        let zero = gen::hex32(&BigUint::zero());
        let mut v = Vec::new();
        for (i, a) in vals.iter().enumerate() {
            for (j, b) in vals.iter().enumerate() {
                let s = (i * 7 + j) as u64;
                let z = |t: u64| gen::hex32(&(from_be(&expand_bytes(s * 8 + t, 32)) % (pr.p - 1u32) + 1u32));
                v.push(PairCase { a: gen::hex32(a), b: gen::hex32(b), zp: one.clone(), zq0: one.clone(), zq1: zero.clone() });
                v.push(PairCase { a: gen::hex32(a), b: gen::hex32(b), zp: z(1), zq0: z(2), zq1: z(3) });
                if i == j {
                    // Montgomery limbs of Z equal to the plain integers 1 / 2 (field elements R^-1, 2R^-1)
                    let raw = |k: u32| gen::hex32(&((BigUint::from(k) * rinv()) % pr.p));
                    v.push(PairCase { a: gen::hex32(a), b: gen::hex32(b), zp: raw(1), zq0: one.clone(), zq1: zero.clone() });
                    v.push(PairCase { a: gen::hex32(a), b: gen::hex32(b), zp: one.clone(), zq0: raw(1), zq1: zero.clone() });
                    v.push(PairCase { a: gen::hex32(a), b: gen::hex32(b), zp: raw(2), zq0: raw(1), zq1: raw(1) });
                }
            }
        }
        v
    }, check_exact);

    ctx.listed("related_argument_sequences", "on one thread inside one case: e(P,Q), e(P,-Q), e(P,Q), e(-P,Q), e(-P,-Q), e(P,[2]Q), e(P,Q) in other Jacobian representations — each compared with the reference; a result remembered from an earlier call must not be served for a different argument", || {
        let n = &pr.n;
        let one = gen::hex32(&BigUint::one());
        let zero = gen::hex32(&BigUint::zero());
        let mut v: Vec<Vec<PairCase>> = Vec::new();
        for i in 0..3u64 {
            let a = from_be(&expand_bytes(i ^ 0x5e91, 32)) % (n - 1u32) + 1u32;
            let b = from_be(&expand_bytes(i ^ 0x5e92, 32)) % (n - 1u32) + 1u32;
            let pc = |a: &BigUint, b: &BigUint, jac: bool| PairCase { a: gen::hex32(a), b: gen::hex32(b), zp: if jac { Hex(expand_bytes(i ^ 0x5e93, 32)) } else { one.clone() }, zq0: if jac { Hex(expand_bytes(i ^ 0x5e94, 32)) } else { one.clone() }, zq1: if jac { Hex(expand_bytes(i ^ 0x5e95, 32)) } else { zero.clone() } };
            v.push(vec![pc(&a, &b, false), pc(&(n - &a), &b, false), pc(&a, &b, false), pc(&a, &(n - &b), false), pc(&(n - &a), &(n - &b), true), pc(&((&a * 2u32) % n), &b, false), pc(&a, &b, true), pc(&(n - &a), &b, true)]);
        }
        v
    }, |steps: &Vec<PairCase>| seq(steps, check_exact));

    ctx.cold("cold_start_pairing", "one pairing as the first library operation of a fresh process (exact 384-byte value)", || {
        let one = gen::hex32(&BigUint::one());
        let zero = gen::hex32(&BigUint::zero());
        vec![
            PairCase { a: one.clone(), b: one.clone(), zp: one.clone(), zq0: one.clone(), zq1: zero.clone() },
            PairCase { a: Hex(expand_bytes(0xc12d, 32)), b: Hex(expand_bytes(0xc12e, 32)), zp: one.clone(), zq0: one.clone(), zq1: zero.clone() },
            PairCase { a: Hex(expand_bytes(0xc12f, 32)), b: Hex(expand_bytes(0xc130, 32)), zp: Hex(expand_bytes(0xc131, 32)), zq0: Hex(expand_bytes(0xc132, 32)), zq1: Hex(expand_bytes(0xc133, 32)) },
        ]
    }, check_exact);
    ctx.cold("cold_start_concurrent", "six threads of a fresh process compute their first pairing at the same moment", || {
        let one = gen::hex32(&BigUint::one());
        let zero = gen::hex32(&BigUint::zero());
        vec![(0..6u64).map(|i| PairCase { a: Hex(expand_bytes(i ^ 0xc12a, 32)), b: Hex(expand_bytes(i ^ 0xc12b, 32)), zp: one.clone(), zq0: one.clone(), zq1: zero.clone() }).collect::<Vec<_>>()]
    }, |steps: &Vec<PairCase>| par(steps, check_exact));
    ctx.cold("cold_start_bilinearity", "the in-library bilinearity identity as the first library operations of a fresh process", || vec![Bilin { a: Hex(expand_bytes(0xc134, 32)), b: Hex(expand_bytes(0xc135, 32)) }], check_bilinear);

    ctx.listed("g1_infinity_argument", "e(O, [a]P2) for the G1 point at infinity in three representations (Point::zero(), (l^2, l^3, 0), and [N-1]P1 + P1 computed by the library): bilinearity forces the value 1 (e([N]P, Q) = e(P, Q)^N); a caller reaches it with S = O in verify_sign or R = O in the key exchange", || vec![1u64, 2, 0xabcdef, 0x1234_5678_9abc_def1], |a| {
        let q_ref = r9::p2_mul(&BigUint::from(*a));
        let q_lib = lib_g2(&q_ref, &fp2_one());
        let n1 = to_limbs(&(&pr.n - 1u32));
        let infs: Vec<(&str, Point)> = vec![
            ("Point::zero()", Point::zero()),
            ("(l^2, l^3, 0)", lib_g1(&None, &BigUint::from(7u32))),
            ("[N-1]P1 + P1", catch(|| Point::g_mul(&n1).point_add(&Point::g_mul(&[1, 0, 0, 0]))).map_err(|p| Fail { key: "entry=Point::point_add outcome=panic".into(), detail: p })?),
        ];
        for (what, o) in infs {
            ensure!(o.is_zero(), "harness: infinity representation", "{} is not the point at infinity", what);
            let got = catch(|| hk::pairing(&q_lib, &o)).map_err(|e| Fail { key: "entry=sm9_u256_pairing input=G1-infinity outcome=panic".into(), detail: format!("P = {} a={:x}: {}", what, a, e) })?;
            ensure!(ref_f12(&got) == r9::f12_one(), "entry=sm9_u256_pairing input=G1-infinity outcome=wrong-value", "e({}, [{:x}]P2) = {} instead of 1", what, a, hex::encode(&ref_f12(&got).bytes()[..48]));
        }
        pass(true, "g1-infinity")
    });

    ctx.listed("exact_edge_g1_points", "P a boundary point of G1 (x next to 0, N, p, 2^256-p, powers of two; Montgomery x with all-ones / zero limbs; y with a leading zero byte), affine and Jacobian, against Q = [a]P2", || {
        let mut v = Vec::new();
        for point in 0..g1_edge_points().len() {
            v.push(EdgePair { point, a: gen::hex32(&BigUint::one()), zp: gen::hex32(&BigUint::one()) });
            v.push(EdgePair { point, a: Hex(expand_bytes(point as u64 ^ 0xc12e, 32)), zp: Hex(expand_bytes(point as u64 ^ 0xc12f, 32)) });
        }
        v
    }, check_exact_edge);

    let bl_step = ctx.tier.pick(3usize, 1usize);
    ctx.exhaustive("bilinearity_zero_limb_scalars", "e([b]P1,[a]P2) == e(P1,P2)^(ab) inside the library with (a, b) = (s, 1) and (1, s) for scalars s that have an all-zero 64-bit limb below a non-zero limb (every 3rd pattern in the quick tier)", move || {
        let one = gen::hex32(&BigUint::one());
        let mut v = Vec::new();
        for (i, k) in gen::zero_limb_scalars().into_iter().enumerate() {
            if i % bl_step != 0 {
                continue;
            }
            v.push(Bilin { a: gen::hex32(&k), b: one.clone() });
            v.push(Bilin { a: one.clone(), b: gen::hex32(&k) });
        }
        v
    }, check_bilinear);

    ctx.listed("exact_values_with_short_coefficients", "pairing values g^b = e([b]P1, P2) found by walking b = 1, 2, ... with the reference (one Fp12 multiplication per step) until a coefficient has one leading zero byte, and until one has two (about 1 step in 5500): the 384-byte encoding must keep every coefficient at 32 bytes", || {
        let pr = r9::params();
        let g = r9::pairing(&pr.p1, &pr.p2);
        let mut acc = g.clone();
        let (mut one, mut two) = (Vec::new(), Vec::new());
        let mut b = 1u64;
        while (one.len() < 2 || two.len() < 2) && b < 60_000 {
            let lead = acc.0.iter().map(|c| 32 - (c.bits() as usize + 7) / 8).max().unwrap_or(0);
            if lead == 1 && one.len() < 2 {
                one.push(b);
            }
            if lead >= 2 && two.len() < 2 {
                two.push(b);
            }
            acc = acc.mul(&g);
            b += 1;
        }
        let mut v = Vec::new();
        for b in one.into_iter().chain(two.into_iter()) {
            v.push(PairCase { a: gen::hex32(&BigUint::one()), b: gen::hex32(&BigUint::from(b)), zp: gen::hex32(&BigUint::one()), zq0: gen::hex32(&BigUint::one()), zq1: gen::hex32(&BigUint::zero()) });
            v.push(PairCase { a: gen::hex32(&BigUint::one()), b: gen::hex32(&BigUint::from(b)), zp: gen::hex32(&BigUint::from(2u32)), zq0: gen::hex32(&BigUint::from(3u32)), zq1: gen::hex32(&BigUint::from(5u32)) });
        }
        v
    }, check_exact);

    ctx.generated("exact_generated", "proptest (a, b, Z_P, Z_Q): library pairing == reference pairing, all 384 bytes", ctx.tier.pick(1_500, 20_000), || {
        (scalar(), scalar(), zrep()).prop_map(|(a, b, (zp, zq0, zq1))| PairCase { a, b, zp, zq0, zq1 })
    }, check_exact);

    ctx.generated("bilinearity_in_library", "proptest (a, b): e([b]P1,[a]P2) == e(P1,P2)^(ab) evaluated inside the library", ctx.tier.pick(2_000, 30_000), || (scalar(), scalar()).prop_map(|(a, b)| Bilin { a, b }), check_bilinear);
}
