//! C04 — SM2 verification accepts nothing but a valid signature (two-sided against the reference verifier).

use num_bigint::BigUint;
use num_traits::{One, Zero};
use proptest::prelude::*;
use serde::{Deserialize, Serialize};
use std::collections::HashMap;
use std::sync::{Arc, Mutex};

use super::multi::{self, Multi};
use super::sm2util::*;
use crate::engine::*;
use crate::gen;
use crate::refimpl::ec::Pt;
use crate::refimpl::field::{from_be, to32, Fp};
use crate::refimpl::sm2 as r2;

#[derive(Serialize, Deserialize, Hash, Debug, Clone, PartialEq, Eq)]
pub struct Base {
    pub d: Hex,
    pub id: usize,
    pub msg_len: usize,
    pub msg_seed: u64,
    pub k: Hex,
}

#[derive(Serialize, Deserialize, Hash, Debug, Clone, PartialEq, Eq)]
pub enum Tamper {
    None,
    FlipBit(u16),
    /// component (0 = r, 1 = s) replaced by edge value #i of EDGES
    SetComponent(u8, u8),
    SEqualsNMinusR,
    SwapRS,
    /// r + n (when it fits in 256 bits) — same residue, non-canonical
    RPlusN,
    SPlusN,
    MsgFlipBit(u32),
    MsgTruncate,
    MsgExtend(u8),
    OtherId(u8),
    KeyNeg,
    KeyPlusG,
    KeyOther(u64),
    /// signature cut or extended to this length; fill: 0 zeros, 1 0xFF, 2 pseudo-random
    Length(u8, u8),
    RandomRS(u64),
    /// (r, s) built with the private key so that [s]G + [r+s]P is the point at infinity: r = e mod n, s = -r d (1+d)^-1
    InfinityForgery,
    /// a multi-byte alteration (see props/multi.rs) of region 0: r, 1: s, 2: r||s
    Multi(u8, Multi),
    /// the *valid* (r, s) in another encoding, never 64 bytes long: 0 DER SEQUENCE{INTEGER,INTEGER}; 1 DER + trailing byte; 2 each component padded to 33 bytes;
    /// 3 04||r||s; 4 00||r||s; 5 lowercase hex text; 6 r||s||r||s; 7 leading zero bytes stripped from r and s (only when that shortens it);
    /// 8 r||s||00; 9 DER with a long-form length; 10 uppercase hex text; 11 OCTET STRING wrapping r||s
    AltEncoding(u8),
    /// NOT an alteration: the same public key held in another Jacobian representation (see sm2util::point_in_rep)
    KeyRep(u8),
    /// the key object is made to hold (x, 0), which is on no curve y^2 = x^3 + ax + b' that has the same group law formulas as a point of order two
    /// ([t](x,0) = O for even t), and (r, s) is forged without any private key: r = (e' + x([s]G)) mod n with r + s even; e' hashed over (x, 0)
    KeyOrderTwoForged(u64),
    /// a forgery made with the signer's own private key that is consistent in everything but the last comparison: r' = (e + x1 + delta) mod n for displacement #i of
    /// `displacements`, s' = (k - r' d)(1+d)^-1, so that [s']G + [r'+s']P is again [k]G with abscissa x1 — only the comparison R == r' tells it from a valid signature
    DisplacedR(u8),
}

/// Displacements of r that a comparison done in the wrong ring, in projective coordinates or on the wrong quantity could let through (all non-zero modulo n).
pub fn displacements(e: &BigUint, x1: &BigUint) -> Vec<BigUint> {
    let pr = r2::params();
    let (n, p): (&BigUint, &BigUint) = (&pr.n, &pr.p);
    let pmn = p - n;
    let two256: BigUint = BigUint::one() << 256usize;
    let m = |v: BigUint| v % n;
    let neg = |v: BigUint| (n - v % n) % n;
    let mut v = vec![
        BigUint::one(), neg(BigUint::one()), BigUint::from(2u32), neg(BigUint::from(2u32)),
        m(pmn.clone()), neg(pmn.clone()), m(&pmn * 2u32), neg(&pmn * 2u32), m(p.clone()),
        m(&two256 - p), neg(&two256 - p), m(&two256 - n), neg(&two256 - n), m(two256.clone()),
        BigUint::one() << 255, BigUint::one() << 128, BigUint::one() << 64, BigUint::one() << 32, n >> 1, (n >> 1) + 1u32,
        m(x1.clone()), neg(x1.clone()), neg(x1 * 2u32), m(e.clone()), neg(e.clone()), neg(e + x1), m((e + x1) % n), m(p - x1 % p), m(from_be(&r2::xy(&pr.g).unwrap().0)),
    ];
    v.retain(|d| !(d % n).is_zero());
    v
}

fn edges() -> Vec<BigUint> {
    let n = &r2::params().n;
    vec![BigUint::zero(), BigUint::one(), n - 1u32, n.clone(), n + 1u32, (BigUint::one() << 256) - 1u32, r2::params().p.clone(), BigUint::one() << 255]
}

#[derive(Serialize, Deserialize, Hash, Debug, Clone)]
pub struct Case {
    pub base: Base,
    pub tamper: Tamper,
}

struct BaseData {
    pk: Pt<Fp>,
    msg: Vec<u8>,
    sig: [u8; 64],
}

fn base_data(b: &Base) -> Option<Arc<BaseData>> {
    static CACHE: Mutex<Option<HashMap<Base, Option<Arc<BaseData>>>>> = Mutex::new(None);
    if let Some(v) = CACHE.lock().unwrap().get_or_insert_with(HashMap::new).get(b) {
        return v.clone();
    }
    let d = from_be(&b.d);
    let pk = r2::g_mul(&d);
    let msg = expand_bytes(b.msg_seed, b.msg_len);
    let (id_b, _) = id_bytes(b.id);
    let v = r2::sign(&d, id_b, &msg, &from_be(&b.k)).map(|sig| Arc::new(BaseData { pk, msg, sig }));
    let mut g = CACHE.lock().unwrap();
    let m = g.get_or_insert_with(HashMap::new);
    if m.len() > 4096 {
        m.clear();
    }
    m.insert(b.clone(), v.clone());
    v
}

pub fn check(c: &Case) -> CaseResult {
    let pr = r2::params();
    let n = &pr.n;
    let Some(bd) = base_data(&c.base) else { return pass(false, "base-needs-retry") };
    let mut pk = bd.pk.clone();
    let mut msg = bd.msg.clone();
    let mut sig = bd.sig.to_vec();
    let mut id_idx = c.base.id;
    let (r, s) = (from_be(&sig[..32]), from_be(&sig[32..]));
    let put = |sig: &mut Vec<u8>, comp: u8, v: &BigUint| sig[32 * comp as usize..32 * comp as usize + 32].copy_from_slice(&to32(v));
    let class;
    match &c.tamper {
        Tamper::None => class = "untouched",
        Tamper::FlipBit(i) => {
            let i = *i as usize % 512;
            sig[i / 8] ^= 0x80 >> (i % 8);
            class = "flip-bit";
        }
        Tamper::SetComponent(comp, e) => {
            let ed = edges();
            put(&mut sig, *comp % 2, &ed[*e as usize % ed.len()]);
            class = "component-edge";
        }
        Tamper::SEqualsNMinusR => {
            put(&mut sig, 1, &(n - &r));
            class = "s=n-r";
        }
        Tamper::SwapRS => {
            put(&mut sig, 0, &s);
            put(&mut sig, 1, &r);
            class = "swap";
        }
        Tamper::RPlusN => {
            let v = &r + n;
            if v.bits() > 256 {
                return pass(false, "r+n-does-not-fit");
            }
            put(&mut sig, 0, &v);
            class = "r+n";
        }
        Tamper::SPlusN => {
            let v = &s + n;
            if v.bits() > 256 {
                return pass(false, "s+n-does-not-fit");
            }
            put(&mut sig, 1, &v);
            class = "s+n";
        }
        Tamper::MsgFlipBit(i) => {
            if msg.is_empty() {
                msg.push(0);
            } else {
                let i = *i as usize % (msg.len() * 8);
                msg[i / 8] ^= 0x80 >> (i % 8);
            }
            class = "msg-edit";
        }
        Tamper::MsgTruncate => {
            if msg.is_empty() {
                msg.push(0x80);
            } else {
                msg.pop();
            }
            class = "msg-edit";
        }
        Tamper::MsgExtend(b) => {
            msg.push(*b);
            class = "msg-edit";
        }
        Tamper::OtherId(j) => {
            let other = (c.base.id + 1 + *j as usize % (id_pool().len() - 1)) % id_pool().len();
            id_idx = other;
            class = "other-id";
        }
        Tamper::KeyNeg => {
            pk = pr.curve.neg(&pk);
            class = "other-key";
        }
        Tamper::KeyPlusG => {
            pk = pr.curve.add(&pk, &pr.g);
            if pk.is_none() {
                return pass(false, "key+G=O");
            }
            class = "other-key";
        }
        Tamper::KeyOther(seed) => {
            pk = r2::g_mul(&(from_be(&expand_bytes(*seed, 32)) % (n - 1u32) + 1u32));
            class = "other-key";
        }
        Tamper::Length(len, fill) => {
            let len = *len as usize;
            if len <= 64 {
                sig.truncate(len);
            } else {
                let extra = match fill % 3 {
                    0 => vec![0u8; len - 64],
                    1 => vec![0xFF; len - 64],
                    _ => expand_bytes(len as u64, len - 64),
                };
                sig.extend_from_slice(&extra);
            }
            class = if len < 64 { "short" } else if len == 64 { "untouched" } else { "long" };
        }
        Tamper::RandomRS(seed) => {
            sig = expand_bytes(*seed, 64);
            class = "random-rs";
        }
        Tamper::InfinityForgery => {
            let d = from_be(&c.base.d);
            let (id_b0, _) = id_bytes(c.base.id);
            let e = r2::digest(id_b0, &bd.pk, &msg);
            let rr = &e % n;
            let inv = crate::refimpl::field::mod_inv(&((&d + 1u32) % n), n).unwrap();
            let ss = (n - (&rr * &d % n) * &inv % n) % n;
            if rr.is_zero() || ss.is_zero() {
                return pass(false, "degenerate-forgery");
            }
            put(&mut sig, 0, &rr);
            put(&mut sig, 1, &ss);
            class = "sum-is-infinity";
        }
        Tamper::AltEncoding(kind) => {
            use crate::refimpl::der;
            let raw = sig.clone();
            let strip = |b: &[u8]| -> Vec<u8> { let z = b.iter().take_while(|x| **x == 0).count(); b[z.min(b.len() - 1)..].to_vec() };
            sig = match kind % 12 {
                0 => der::seq(&[der::integer(&r), der::integer(&s)]),
                1 => { let mut v = der::seq(&[der::integer(&r), der::integer(&s)]); v.push(0); v }
                2 => { let mut v = vec![0u8]; v.extend_from_slice(&raw[..32]); v.push(0); v.extend_from_slice(&raw[32..]); v }
                3 => { let mut v = vec![4u8]; v.extend_from_slice(&raw); v }
                4 => { let mut v = vec![0u8]; v.extend_from_slice(&raw); v }
                5 => hex::encode(&raw).into_bytes(),
                6 => [&raw[..], &raw[..]].concat(),
                7 => [strip(&raw[..32]), strip(&raw[32..])].concat(),
                8 => { let mut v = raw.clone(); v.push(0); v }
                9 => { let body = [der::integer(&r), der::integer(&s)].concat(); let mut v = vec![0x30, 0x81, body.len() as u8]; v.extend_from_slice(&body); v }
                10 => hex::encode_upper(&raw).into_bytes(),
                _ => der::tlv(0x04, &raw),
            };
            if sig.len() == 64 {
                return pass(false, "alt-encoding-is-64-bytes");
            }
            class = "alt-encoding";
        }
        Tamper::KeyRep(_) => class = "untouched",
        Tamper::KeyOrderTwoForged(seed) => {
            let x = from_be(&expand_bytes(*seed, 32)) % pr.p;
            pk = Some((r2::fp(&x), r2::fp(&BigUint::zero())));
            if pr.curve.on_curve(&pk) {
                return pass(false, "accidentally-on-curve");
            }
            let (id_b0, _) = id_bytes(c.base.id);
            let e = r2::digest(id_b0, &pk, &msg);
            let mut sv = from_be(&expand_bytes(seed ^ 0x51, 32)) % (n - 1u32) + 1u32;
            let mut forged = None;
            for _ in 0..64 {
                let x1 = from_be(&r2::xy(&r2::g_mul(&sv)).unwrap().0);
                let rr = (&e + &x1) % n;
                let t = (&rr + &sv) % n;
                if !rr.is_zero() && !t.is_zero() && !t.bit(0) {
                    forged = Some((rr, sv.clone()));
                    break;
                }
                sv = (&sv % (n - 1u32)) + 1u32;
            }
            let Some((rr, ss)) = forged else { return pass(false, "no-even-t") };
            put(&mut sig, 0, &rr);
            put(&mut sig, 1, &ss);
            class = "off-curve-key-order-two-forgery";
        }
        Tamper::DisplacedR(i) => {
            let d = from_be(&c.base.d);
            let k = from_be(&c.base.k);
            let (id_b0, _) = id_bytes(c.base.id);
            let e = r2::digest(id_b0, &bd.pk, &msg);
            let x1 = from_be(&r2::xy(&r2::g_mul(&k)).unwrap().0);
            let ds = displacements(&e, &x1);
            let delta = &ds[*i as usize % ds.len()];
            let rr = (&e + &x1 + delta) % n;
            let inv = crate::refimpl::field::mod_inv(&((&d + 1u32) % n), n).unwrap();
            let ss = ((&k + n - &rr * &d % n) % n) * &inv % n;
            if rr.is_zero() || ss.is_zero() || ((&rr + &ss) % n).is_zero() {
                return pass(false, "degenerate-forgery");
            }
            put(&mut sig, 0, &rr);
            put(&mut sig, 1, &ss);
            class = "consistent-but-r-displaced";
        }
        Tamper::Multi(region, m) => {
            let (lo, hi, name) = match region % 3 {
                0 => (0, 32, "multi-r"),
                1 => (32, 64, "multi-s"),
                _ => (0, 64, "multi-rs"),
            };
            if !multi::apply(&mut sig[lo..hi], m) {
                return pass(false, "multi-noop");
            }
            class = name;
        }
    }
    let (id_b, id_opt) = id_bytes(id_idx);
    // IDs None and Some("1234567812345678") are the same signer ID: that is not a tampering
    let want = r2::verify(&pk, id_b, &msg, &sig);
    let mut lpk = if matches!(c.tamper, Tamper::KeyOrderTwoForged(_)) {
        // no constructor accepts such a point: the object is built through its public field
        let mut k = lib_pk(&bd.pk).map_err(|e| Fail { key: "entry=Sm2PublicKey::new input=valid-point outcome=rejected".into(), detail: e })?;
        k.point = lib_point(&pk, &BigUint::one());
        k
    } else {
        lib_pk(&pk).map_err(|e| Fail { key: "entry=Sm2PublicKey::new input=valid-point outcome=rejected".into(), detail: e })?
    };
    if let Tamper::KeyRep(kind) = &c.tamper {
        lpk.point = point_in_rep(&pk, Some(&from_be(&c.base.d)), *kind, c.base.msg_seed);
    }
    let got = outcome(|| lpk.verify(id_opt, &msg, &sig));
    let len_class = if sig.len() < 64 { "len<64" } else if sig.len() > 64 { "len>64" } else { "len=64" };
    match (&got, want) {
        (Outcome::Ok(()), true) | (Outcome::Err(_), false) => {}
        (Outcome::Panic(p), _) => {
            return fail(format!("entry=Sm2PublicKey::verify input={} outcome=panic", len_class), format!("tamper={:?} sig={} -> {}", c.tamper, hex::encode(&sig), p));
        }
        (Outcome::Ok(()), false) => {
            return fail(format!("entry=Sm2PublicKey::verify input={}/{} outcome=accepted-invalid", len_class, class), format!("tamper={:?} sig={} |M|={} id#{}: library accepts, the standard's verification rejects", c.tamper, hex::encode(&sig), msg.len(), id_idx));
        }
        (Outcome::Err(e), true) => {
            return fail(format!("entry=Sm2PublicKey::verify input={}/{} outcome=rejected-valid", len_class, class), format!("tamper={:?} sig={}: library rejects ({}), the standard's verification accepts", c.tamper, hex::encode(&sig), e));
        }
    }
    pass(!want, class)
}

fn base_strategy() -> impl Strategy<Value = Base> {
    let n = r2::params().n.clone();
    (gen::secret_scalar(&(&n - 2u32)), 0..id_pool().len(), gen::msg_len(300), any::<u64>(), gen::secret_scalar(&(&n - 1u32)))
        .prop_map(|(d, id, msg_len, msg_seed, k)| Base { d, id, msg_len, msg_seed, k })
}

pub fn tamper_strategy() -> impl Strategy<Value = Tamper> {
    prop_oneof![
        6 => (0..512u16).prop_map(Tamper::FlipBit),
        3 => (0..2u8, 0..8u8).prop_map(|(c, e)| Tamper::SetComponent(c, e)),
        1 => Just(Tamper::SEqualsNMinusR),
        1 => Just(Tamper::SwapRS),
        1 => Just(Tamper::RPlusN),
        1 => Just(Tamper::SPlusN),
        2 => any::<u32>().prop_map(Tamper::MsgFlipBit),
        1 => Just(Tamper::MsgTruncate),
        1 => any::<u8>().prop_map(Tamper::MsgExtend),
        2 => any::<u8>().prop_map(Tamper::OtherId),
        1 => Just(Tamper::KeyNeg),
        1 => Just(Tamper::KeyPlusG),
        1 => any::<u64>().prop_map(Tamper::KeyOther),
        3 => (0..=130u8, 0..3u8).prop_map(|(l, f)| Tamper::Length(l, f)),
        2 => any::<u64>().prop_map(Tamper::RandomRS),
        2 => Just(Tamper::InfinityForgery),
        1 => Just(Tamper::None),
        5 => (0..3u8, multi::strategy()).prop_map(|(r, m)| Tamper::Multi(r, m)),
        3 => (0..12u8).prop_map(Tamper::AltEncoding),
        3 => (1..6u8).prop_map(Tamper::KeyRep),
        2 => any::<u64>().prop_map(Tamper::KeyOrderTwoForged),
        3 => (0..32u8).prop_map(Tamper::DisplacedR),
    ]
}

fn fixed_bases(seed: u64, count: usize) -> Vec<Base> {
    let n = &r2::params().n;
    (0..count)
        .map(|i| {
            let s = seed.wrapping_mul(1000) + i as u64;
            let d = match i {
                0 => BigUint::one(),
                1 => n - 2u32,
                _ => from_be(&expand_bytes(s ^ 0xd, 32)) % (n - 2u32) + 1u32,
            };
            Base { d: gen::hex32(&d), id: i % id_pool().len(), msg_len: [32usize, 0, 1, 64, 13, 55, 100, 300, 31, 33][i % 10], msg_seed: s, k: gen::hex32(&(from_be(&expand_bytes(s ^ 0x4b, 32)) % (n - 1u32) + 1u32)) }
        })
        .collect()
}

pub fn run(ctx: &Ctx) {
    ctx.set_rule(
        "a case is (base, tampering): the base is a valid signature made by the *reference* signer for generated (d, ID, message, k); tamperings: every one of the 512 single-bit flips of r||s \
         (exhaustive per base), r or s replaced by {0, 1, n-1, n, n+1, 2^256-1, p, 2^255}, s = n-r, swapped r/s, r+n and s+n when they fit, message bit flip / truncation / extension, another ID, \
         another key (-P, P+G, unrelated), every signature length 0..=130 (truncation, extension by zeros / 0xFF / random), independent random (r,s), the valid (r, s) re-encoded in 12 other ways (DER, DER variants, padded / prefixed / stripped components, hex text, doubled, OCTET STRING: none is 64 bytes, all must be rejected), forgeries made with the signer's private key that are consistent in everything but the final comparison (r displaced by one of 29 offsets, s recomputed so that the verification point is unchanged), multi-byte alterations of r / s / r||s that preserve the xor, the sum or the multiset of the bytes or words, the untouched signature, also under the same public key held in other Jacobian representations (as computed by g_mul, Z = 2, random Z, Z with Montgomery limbs [1,0,0,0], Z = p-1: not an alteration). \
         Oracle: the reference verifier decides; the library must return Ok exactly when the reference accepts; a panic is a violation. Non-trivial: a case the reference rejects.",
    );
    ctx.assume("reference verifier (harness/src/refimpl/sm2.rs): independent verification equation and ZA; exactly-64-byte rule from the property statement");
    ctx.assume("rejection is decided for the generated tamperings only; this is not a proof of unforgeability");

    let nb = ctx.tier.pick(6, 120);
    let seed = ctx.seed;
    ctx.exhaustive("all_512_bit_flips", "every single-bit flip of r||s for each base signature", move || {
        let mut v = Vec::new();
        for b in fixed_bases(seed, nb) {
            for i in 0..512u16 {
                v.push(Case { base: b.clone(), tamper: Tamper::FlipBit(i) });
            }
        }
        v
    }, check);

    let nb2 = ctx.tier.pick(6, 60);
    ctx.exhaustive("every_length_0_130", "every signature length 0..=130 x 3 fills for each base signature", move || {
        let mut v = Vec::new();
        for b in fixed_bases(seed ^ 0x11, nb2) {
            for l in 0..=130u8 {
                for f in 0..3u8 {
                    if l <= 64 && f > 0 {
                        continue;
                    }
                    v.push(Case { base: b.clone(), tamper: Tamper::Length(l, f) });
                }
            }
        }
        v
    }, check);

    ctx.listed("related_key_sequences", "verify under P, then -P (same x coordinate), then P, then P+G on one thread inside one case, valid and altered signatures interleaved: anything the library remembers between calls is carried over", move || {
        let mut v: Vec<Vec<Case>> = Vec::new();
        for b in fixed_bases(seed ^ 0x5e9, 3) {
            v.push(vec![
                Case { base: b.clone(), tamper: Tamper::None }, Case { base: b.clone(), tamper: Tamper::KeyNeg }, Case { base: b.clone(), tamper: Tamper::None }, Case { base: b.clone(), tamper: Tamper::KeyPlusG },
                Case { base: b.clone(), tamper: Tamper::FlipBit(300) }, Case { base: b.clone(), tamper: Tamper::None }, Case { base: b.clone(), tamper: Tamper::OtherId(0) }, Case { base: b.clone(), tamper: Tamper::None },
            ]);
        }
        v
    }, |steps: &Vec<Case>| seq(steps, check));

    ctx.cold("cold_start_verify", "verify as the first library operation of a fresh process: a valid signature, a bit flip, an over-long encoding", move || {
        let mut v = Vec::new();
        for b in fixed_bases(seed ^ 0xc01d, 3) {
            for t in [Tamper::None, Tamper::FlipBit(77), Tamper::AltEncoding(0), Tamper::Length(65, 0)] {
                v.push(Case { base: b.clone(), tamper: t });
            }
        }
        v
    }, check);

    let nbm = ctx.tier.pick(3, 24);
    ctx.exhaustive("multi_byte_alterations", "alterations of r (all byte pairs x 3 masks, sum-preserving pairs, rotations, word shuffles, partial keeps, 100 replacements) and of s / r||s (pairs at word distances) that keep the xor, the sum or the multiset of the bytes or words — a folded or partial comparison of R with r accepts them", move || {
        let mut v = Vec::new();
        for b in fixed_bases(seed ^ 0x66, nbm) {
            for m in multi::family(32, true, 100) {
                v.push(Case { base: b.clone(), tamper: Tamper::Multi(0, m) });
            }
            for m in multi::family(32, false, 16) {
                v.push(Case { base: b.clone(), tamper: Tamper::Multi(1, m) });
            }
            for m in multi::family(64, false, 16) {
                v.push(Case { base: b.clone(), tamper: Tamper::Multi(2, m) });
            }
        }
        v
    }, check);

    let nb3 = ctx.tier.pick(8, 100);
    ctx.exhaustive("component_substitutions", "r/s edge values, s = n-r, swap, r+n, s+n, message/ID/key changes, untouched, 29 forgeries made with the private key that are consistent up to the last comparison (r displaced by +-1, +-2, +-(p-n), +-2(p-n), p, +-(2^256-p), +-(2^256-n), 2^256, powers of two, n/2, +-x1, -2x1, +-e, ...) — for each base", move || {
        let mut v = Vec::new();
        for b in fixed_bases(seed ^ 0x22, nb3) {
            for comp in 0..2u8 {
                for e in 0..8u8 {
                    v.push(Case { base: b.clone(), tamper: Tamper::SetComponent(comp, e) });
                }
            }
            for k in 0..12u8 {
                v.push(Case { base: b.clone(), tamper: Tamper::AltEncoding(k) });
            }
            for k in 1..6u8 {
                v.push(Case { base: b.clone(), tamper: Tamper::KeyRep(k) });
            }
            for k in 0..4u64 {
                v.push(Case { base: b.clone(), tamper: Tamper::KeyOrderTwoForged(k) });
            }
            for k in 0..29u8 {
                v.push(Case { base: b.clone(), tamper: Tamper::DisplacedR(k) });
            }
            for t in [Tamper::None, Tamper::InfinityForgery, Tamper::SEqualsNMinusR, Tamper::SwapRS, Tamper::RPlusN, Tamper::SPlusN, Tamper::MsgFlipBit(0), Tamper::MsgFlipBit(0xFFFF_FFFF), Tamper::MsgTruncate, Tamper::MsgExtend(0), Tamper::KeyNeg, Tamper::KeyPlusG, Tamper::KeyOther(1)] {
                v.push(Case { base: b.clone(), tamper: t });
            }
            for j in 0..id_pool().len() as u8 - 1 {
                v.push(Case { base: b.clone(), tamper: Tamper::OtherId(j) });
            }
        }
        v
    }, check);

    ctx.listed("golden_small_r_s", "stored (d, k, message) found by a 2^32 off-line search whose signature has r (resp. s) < 2^256 - n: r+n / s+n fits in 32 bytes, is congruent to a valid component and must be rejected as out of range", || vec![0usize, 1], |idx| {
        let n = &r2::params().n;
        let text = std::fs::read_to_string(format!("{}/corpus/sm2_small_rs.json", VERIF_ROOT)).map_err(|e| Fail { key: "corpus-missing".into(), detail: e.to_string() })?;
        let v: serde_json::Value = serde_json::from_str(&text).unwrap();
        let e = &v[*idx];
        let d = from_be(&hex::decode(e["d"].as_str().unwrap()).unwrap());
        let k = from_be(&hex::decode(e["k"].as_str().unwrap()).unwrap());
        let msg = hex::decode(e["msg"].as_str().unwrap()).unwrap();
        let pk = r2::g_mul(&d);
        let sig = r2::sign(&d, b"1234567812345678", &msg, &k).ok_or_else(|| Fail { key: "golden-input-stale".into(), detail: "retry".into() })?;
        let comp = e["mode"].as_u64().unwrap() as usize;
        let val = from_be(&sig[32 * comp..32 * comp + 32]) + n;
        ensure!(val.bits() <= 256, "golden-input-stale", "component + n does not fit any more");
        let mut bad = sig.to_vec();
        bad[32 * comp..32 * comp + 32].copy_from_slice(&to32(&val));
        ensure!(r2::verify(&pk, b"1234567812345678", &msg, &sig) && !r2::verify(&pk, b"1234567812345678", &msg, &bad), "golden-input-stale", "reference disagrees about the golden signature");
        let lpk = lib_pk(&pk).map_err(|e| Fail { key: "entry=Sm2PublicKey::new input=valid-point outcome=rejected".into(), detail: e })?;
        let ok = outcome(|| lpk.verify(None, &msg, &sig));
        ensure!(ok.is_ok(), "entry=Sm2PublicKey::verify input=len=64/untouched outcome=rejected-valid", "golden signature rejected: {}", ok.describe());
        let got = outcome(|| lpk.verify(None, &msg, &bad));
        ensure!(got.is_err(), format!("entry=Sm2PublicKey::verify input=len=64/{} outcome={}", if comp == 0 { "r+n" } else { "s+n" }, if got.is_ok() { "accepted-invalid" } else { "panic" }),
            "sig={} (component {} replaced by itself + n): {}", hex::encode(&bad), comp, got.describe());
        pass(true, if comp == 0 { "r+n" } else { "s+n" })
    });

    ctx.generated("generated_tamperings", "proptest (base, tampering)", ctx.tier.pick(2_500, 60_000), || (base_strategy(), tamper_strategy()).prop_map(|(base, tamper)| Case { base, tamper }), check);
}
