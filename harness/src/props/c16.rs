//! C16 — SM9 hash-to-range (H1, H2) and key extraction match GM/T 0044.

use gm_sm9::key::{Sm9EncMasterKey, Sm9SignMasterKey};
use gm_sm9::points::{Point, TwistPoint};
use gm_sm9::verif_hooks as hk;
use num_bigint::BigUint;
use num_traits::{One, Zero};
use proptest::prelude::*;
use serde::{Deserialize, Serialize};

use super::sm9util::*;
use crate::engine::*;
use crate::gen;
use crate::refimpl::field::{big, from_be, from_limbs, to_limbs};
use crate::refimpl::sm9 as r9;

#[derive(Serialize, Deserialize, Hash, Debug, Clone)]
pub struct HaCase {
    /// 40 bytes
    pub ha: Hex,
}

fn ha_class(ha: &BigUint) -> &'static str {
    let nm1 = &r9::params().n - 1u32;
    let r = ha % &nm1;
    if r.bits() <= 2 {
        "residue-tiny"
    } else if (&nm1 - &r).bits() <= 2 {
        "residue-top"
    } else if (ha >> 256u32) == BigUint::from(u64::MAX) {
        "top-limb-ones"
    } else if (ha >> 256u32) == (&nm1 >> 192u32) || (ha >> 256u32) == ((&nm1 * 2u32) >> 256u32) {
        "top-limb-of-divisor-multiple"
    } else if { let q = ha / &nm1; let b = q.bits(); b >= 32 && (q.count_ones() <= 2 || (&q + 2u32).count_ones() <= 2 || (&q + 1u32).count_ones() <= 2) } {
        "quotient-edge"
    } else {
        "generic"
    }
}

fn check_ha(c: &HaCase) -> CaseResult {
    let ha = from_be(&c.ha);
    let want = r9::ha_to_range(&c.ha);
    let class = ha_class(&ha);
    let got = catch(|| gm_sm9::fields::mod_n_from_hash(&c.ha)).map_err(|p| Fail { key: format!("entry=mod_n_from_hash input=40-bytes/{} outcome=panic", class), detail: format!("Ha={}: {}", hex::encode(&c.ha.0), p) })?;
    let g = from_limbs(&got);
    ensure!(g == want, format!("entry=mod_n_from_hash input=40-bytes/{} outcome=wrong-value", class), "Ha={}: library {:x}, (Ha mod (N-1)) + 1 = {:x}", hex::encode(&c.ha.0), g, want);
    ensure!(!g.is_zero() && g < r9::params().n, "entry=mod_n_from_hash outcome=out-of-range", "Ha={}: {:x}", hex::encode(&c.ha.0), g);
    pass(class != "generic", class)
}

fn ha40(v: &BigUint) -> Hex {
    let b = v.to_bytes_be();
    let mut o = vec![0u8; 40usize.saturating_sub(b.len())];
    o.extend_from_slice(&b[b.len().saturating_sub(40)..]);
    Hex(o)
}

#[derive(Serialize, Deserialize, Hash, Debug, Clone)]
pub struct HCase {
    /// 1: H1(id || hid), 2: H2(data || w)
    pub which: u8,
    pub z_len: usize,
    pub z_seed: u64,
    pub hid: u8,
    pub w_len: usize,
}

#[derive(Serialize, Deserialize, Hash, Debug, Clone)]
pub enum Either {
    H(HCase),
    E(Extract),
}

fn check_h(c: &HCase) -> CaseResult {
    let z = expand_bytes(c.z_seed, c.z_len);
    if c.which == 1 {
        let want = r9::h1(&z, c.hid);
        let got = catch(|| hk::hash1(&z, c.hid)).map_err(|p| Fail { key: "entry=sm9_u256_hash1 outcome=panic".into(), detail: p })?;
        ensure!(from_limbs(&got) == want, "entry=sm9_u256_hash1 outcome=wrong-value", "|ID|={} hid={}: library {:x} standard {:x}", z.len(), c.hid, from_limbs(&got), want);
        pass(true, format!("H1/hid{}", c.hid))
    } else {
        let w = expand_bytes(c.z_seed ^ 0x77, c.w_len);
        let want = r9::h2(&z, &w);
        let got = catch(|| hk::hash2(&z, &w)).map_err(|p| Fail { key: "entry=sm9_u256_hash2 outcome=panic".into(), detail: p })?;
        ensure!(from_limbs(&got) == want, "entry=sm9_u256_hash2 outcome=wrong-value", "|M|={} |w|={}: library {:x} standard {:x}", z.len(), w.len(), from_limbs(&got), want);
        pass(true, "H2")
    }
}

#[derive(Serialize, Deserialize, Hash, Debug, Clone)]
pub struct Extract {
    /// 1 sign (hid 01, G1), 3 enc (hid 03, G2), 2 exchange (hid 02, G2)
    pub hid: u8,
    /// master key; when `craft_fail` it is replaced by N - H1(ID || hid)
    pub k: Hex,
    pub craft_fail: bool,
    pub id_len: usize,
    pub id_seed: u64,
    /// representation of the master public key stored in the master-key object (sm9util::g1_in_rep / g2_in_rep kinds; 1 = what g_mul returns)
    #[serde(default = "one_u8")]
    pub pub_rep: u8,
}

fn one_u8() -> u8 {
    1
}

fn check_extract(c: &Extract) -> CaseResult {
    let pr = r9::params();
    let n = &pr.n;
    let id = identity(c.id_seed, c.id_len);
    let hid = match (c.hid & 0x3f) % 3 {
        0 => 3u8,
        x => x,
    };
    // bit 7 of `hid`: the stored k is a target v for (H1 + k)^-1, i.e. k := v^-1 - H1 mod N (the inverse the extraction computes is then v: short, sparse ...)
    let k = if c.craft_fail {
        (n - r9::h1(&id, hid)) % n
    } else if c.hid & 0x40 != 0 {
        // the stored k is a target S for the integer sum H1 + k (before reduction): k := S - H1, usable when that lies in [1, N-1]
        let s = from_be(&c.k);
        let h = r9::h1(&id, hid);
        if s <= h || &s - &h >= *n || (&s % n).is_zero() {
            return pass(false, "sum-target-out-of-reach");
        }
        &s - &h
    } else if c.hid & 0x80 != 0 {
        match crate::refimpl::field::mod_inv(&(from_be(&c.k) % n), n) {
            Some(vi) => (vi + n - r9::h1(&id, hid)) % n,
            None => return pass(false, "inverse-target-not-invertible"),
        }
    } else {
        from_be(&c.k) % (n - 1u32) + 1u32
    };
    if k.is_zero() {
        return pass(false, "crafted-k=0-skipped");
    }
    let want = r9::extract_scalar(&k, &id, hid);
    ensure!(want.is_none() == c.craft_fail, "harness: crafted failure", "crafted {} reference {:?}", c.craft_fail, want);
    let kl = to_limbs(&k);
    let desc = format!("hid={:02x} k={:x} |ID|={}", hid, k, id.len());
    if hid == 1 {
        // the extraction depends on (ks, ID) only: the public key travels along in whatever representation the caller stored it
        let msk = Sm9SignMasterKey { ks: kl, ppubs: g2_in_rep(&r9::p2_mul(&k), Some(&k), c.pub_rep, c.id_seed) };
        let got = catch(|| msk.extract_key(&id)).map_err(|p| Fail { key: "entry=Sm9SignMasterKey::extract_key outcome=panic".into(), detail: format!("{}: {}", desc, p) })?;
        match (&got, &want) {
            (None, None) => {}
            (Some(key), Some(t2)) => {
                let ds = ref_g1(&key.ds).map_err(|e| Fail { key: "entry=Sm9SignMasterKey::extract_key outcome=non-canonical".into(), detail: e })?;
                ensure!(ds == r9::p1_mul(t2), "entry=Sm9SignMasterKey::extract_key outcome=wrong-key", "{}: library {} standard {}", desc, show1(&ds), show1(&r9::p1_mul(t2)));
                ensure!(ref_g2(&key.ppubs).ok() == Some(r9::p2_mul(&k)), "entry=Sm9SignMasterKey::extract_key outcome=wrong-ppubs", "{}", desc);
            }
            (Some(_), None) => return fail("entry=Sm9SignMasterKey::extract_key input=H1+k=0 outcome=returned-a-key", desc),
            (None, Some(_)) => return fail("entry=Sm9SignMasterKey::extract_key input=valid outcome=none", desc),
        }
    } else {
        let msk = Sm9EncMasterKey { ke: kl, ppube: g1_in_rep(&r9::p1_mul(&k), Some(&k), c.pub_rep, c.id_seed) };
        let got = catch(|| if hid == 3 { msk.extract_key(&id) } else { msk.extract_exch_key(&id) }).map_err(|p| Fail { key: format!("entry=Sm9EncMasterKey::extract{} outcome=panic", if hid == 3 { "_key" } else { "_exch_key" }), detail: format!("{}: {}", desc, p) })?;
        let what = if hid == 3 { "Sm9EncMasterKey::extract_key" } else { "Sm9EncMasterKey::extract_exch_key" };
        match (&got, &want) {
            (None, None) => {}
            (Some(key), Some(t2)) => {
                let de = ref_g2(&key.de).map_err(|e| Fail { key: format!("entry={} outcome=non-canonical", what), detail: e })?;
                ensure!(de == r9::p2_mul(t2), format!("entry={} outcome=wrong-key", what), "{}: library {} standard {}", desc, show2(&de), show2(&r9::p2_mul(t2)));
                ensure!(ref_g1(&key.ppube).ok() == Some(r9::p1_mul(&k)), format!("entry={} outcome=wrong-ppube", what), "{}", desc);
            }
            (Some(_), None) => return fail(format!("entry={} input=H1+k=0 outcome=returned-a-key", what), desc),
            (None, Some(_)) => return fail(format!("entry={} input=valid outcome=none", what), desc),
        }
    }
    pass(true, format!("extract/hid{}{}/pub-rep{}", hid, if c.craft_fail { "/H1+k=0" } else { "" }, c.pub_rep % 6))
}

pub fn run(ctx: &Ctx) {
    let pr = r9::params();
    let n = pr.n.clone();
    ctx.set_rule(
        "Ha cases: 40-byte values q(N-1)+r for r in {0,1,2,3,N-4,N-3,N-2} and q in {0,1,2, random, q_max-2..q_max} (the quotient-estimate edge), values whose top 64 bits are all ones, boundary patterns, uniform; \
         H1/H2 through the hook for identities/messages of 0..300 bytes, hid in {1,2,3}; key extraction for master keys {1, 2, N-2, N-1, Annex, uniform} x random identities, and master keys crafted as N - H1(ID||hid) so that extraction must report failure; the master public key is stored in the key object in six representations of the same point (what g_mul returns, affine, Z = 2, random Z, Z = R^-1, purely imaginary Z on G2). \
         Oracle: (Ha mod (N-1)) + 1 by BigUint; reference H1/H2; extracted keys == [k (H1+k)^-1]P1 / P2 on the affine reference; Annex ds_A and de_B. Non-trivial: boundary Ha, or an extraction compared.",
    );
    ctx.assume("reference hash-to-range and extraction (harness/src/refimpl/sm9.rs) reproduce the Annex ds_A, de_B and everything downstream of them");
    ctx.assume("hooks used: wrappers for the private sm9_u256_hash1 / hash2");

    ctx.exhaustive("ha_quotient_edges", "Ha = q(N-1)+r, r in {0,1,2,3,N-4,N-3,N-2}, q in {0,1,2,3, 64 random, q_max-3..q_max}", move || {
        let nm1 = &n - 1u32;
        let top = (BigUint::one() << 320) - 1u32;
        let qmax = &top / &nm1;
        let mut qs: Vec<BigUint> = (0..4u32).map(BigUint::from).collect();
        for i in 0..64u64 {
            qs.push(from_be(&expand_bytes(0x16 + i, 8)));
        }
        for i in 0..4u32 {
            qs.push(&qmax - i);
        }
        let rs: Vec<BigUint> = vec![BigUint::zero(), BigUint::one(), BigUint::from(2u32), BigUint::from(3u32), &nm1 - 3u32, &nm1 - 2u32, &nm1 - 1u32];
        let mut v = Vec::new();
        for q in &qs {
            for r in &rs {
                let ha = q * &nm1 + r;
                if ha <= top {
                    v.push(HaCase { ha: ha40(&ha) });
                }
            }
        }
        v
    }, check_ha);

    ctx.generated("ha_generated", "proptest 40-byte Ha: uniform, top limb all ones, small, boundary-limb patterns, near multiples of N-1", ctx.tier.pick(400_000, 4_000_000), || {
        let nm1 = &r9::params().n - 1u32;
        let limb = prop::sample::select(vec![0u64, 1, 1 << 32, 1 << 63, u64::MAX, u64::MAX - 1]);
        prop_oneof![
            5 => prop::collection::vec(any::<u8>(), 40).prop_map(|v| HaCase { ha: Hex(v) }),
            2 => prop::collection::vec(any::<u8>(), 32).prop_map(|v| { let mut h = vec![0xFFu8; 8]; h.extend(v); HaCase { ha: Hex(h) } }),
            2 => prop::array::uniform5(limb).prop_map(|l| { let mut v = Vec::new(); for x in l { v.extend_from_slice(&x.to_be_bytes()); } HaCase { ha: Hex(v) } }),
            3 => (any::<u64>(), 0u32..6).prop_map(move |(q, r)| HaCase { ha: ha40(&(BigUint::from(q) * &nm1 + r)) }),
            1 => (0u32..320).prop_map(|i| HaCase { ha: ha40(&(BigUint::one() << i)) }),
        ]
    }, check_ha);

    ctx.cold("cold_start_hashes", "H1 / H2 as the first library operation of a fresh process", || {
        vec![HCase { which: 1, z_len: 5, z_seed: 1, hid: 1, w_len: 0 }, HCase { which: 1, z_len: 0, z_seed: 2, hid: 3, w_len: 0 }, HCase { which: 2, z_len: 20, z_seed: 3, hid: 1, w_len: 384 }]
    }, check_h);
    ctx.cold("cold_start_extraction", "key extraction (three kinds, and the crafted t1 = 0 case) as the first library operation of a fresh process", || {
        let mut v = Vec::new();
        for hid in 1..=3u8 {
            v.push(Extract { hid, k: Hex(expand_bytes(hid as u64 ^ 0xc16d, 32)), craft_fail: false, id_len: 5, id_seed: hid as u64, pub_rep: hid });
            v.push(Extract { hid, k: Hex(expand_bytes(hid as u64 ^ 0xc16e, 32)), craft_fail: true, id_len: 3, id_seed: hid as u64 ^ 9, pub_rep: hid });
        }
        v
    }, check_extract);

    ctx.generated("ha_divisor_prefix_patterns", "proptest Ha built to sit on the edges of a multi-limb division by N-1: (a) q(N-1)+r with q in {0,1,2, 2^32+-1, 2^63+-1, 2^64-2..2^64+2, q_max-2..q_max} and r uniform or boundary-limbed; (b) Ha whose leading 1..4 limbs equal those of N, N-1 or 2(N-1) shifted to the top, followed by a limb one above / one below / all ones / zero and random limbs; (c) m(N-1)2^(64k) +- 2^j", ctx.tier.pick(200_000, 2_000_000), || {
        let n = r9::params().n.clone();
        let nm1 = &n - 1u32;
        let top: BigUint = (BigUint::one() << 320u32) - 1u32;
        let qmax = &top / &nm1;
        let mut qs: Vec<BigUint> = vec![BigUint::zero(), BigUint::one(), BigUint::from(2u32)];
        for e in [32u32, 63, 64] {
            for d in 0..3u32 {
                qs.push((BigUint::one() << e) + d);
                qs.push((BigUint::one() << e) - d);
            }
        }
        for d in 0..3u32 {
            qs.push(&qmax - d);
        }
        let limb = prop::sample::select(vec![0u64, 1, 1 << 32, 1 << 63, u64::MAX, u64::MAX - 1]);
        let (nm1a, nm1b, nm1c) = (nm1.clone(), nm1.clone(), nm1.clone());
        let topa = top.clone();
        let a = (prop::sample::select(qs), prop_oneof![2 => prop::array::uniform32(any::<u8>()).prop_map(|b| from_be(&b)), 1 => prop::array::uniform4(limb).prop_map(|l| from_limbs(&l))])
            .prop_map(move |(q, r)| { let v = &q * &nm1a + (r % &nm1a); HaCase { ha: ha40(&(if v > topa { v % (&topa + 1u32) } else { v })) } });
        // (b) leading limbs of a multiple of the divisor, then a deviating limb, then random limbs
        let b = (0..3u8, 1..=4usize, 0..5u8, prop::array::uniform32(any::<u8>()), any::<u64>()).prop_map(move |(which, keep, dev, rnd, extra)| {
            let base: BigUint = match which { 0 => n.clone(), 1 => nm1b.clone(), _ => &nm1b * 2u32 };
            // align the base's most significant limb with the top limb of the 320-bit value
            let shift = 320 - ((base.bits() + 63) / 64) * 64;
            let aligned = &base << shift;
            let mut l: Vec<u64> = aligned.to_u64_digits();
            l.resize(5, 0);
            // l[4] is the top limb; keep `keep` limbs from the top, deviate the next, randomise the rest
            let r = from_be(&rnd).to_u64_digits();
            for i in 0..5usize {
                let from_top = 4 - i;
                if from_top < keep {
                    continue;
                }
                if from_top == keep {
                    l[i] = match dev { 0 => l[i].wrapping_add(1), 1 => l[i].wrapping_sub(1), 2 => u64::MAX, 3 => 0, _ => extra };
                } else {
                    l[i] = r.get(i).copied().unwrap_or(extra);
                }
            }
            let mut v = BigUint::zero();
            for i in (0..5).rev() {
                v = (v << 64) + l[i];
            }
            HaCase { ha: ha40(&v) }
        });
        let c = (1..4u32, 0..2u32, 0..300u32, any::<bool>()).prop_map(move |(m, k, j, plus)| {
            let base = (&nm1c * m) << (64 * k);
            let d = BigUint::one() << j;
            let v = if plus { &base + &d } else if base > d { &base - &d } else { base.clone() };
            HaCase { ha: ha40(&(v % (BigUint::one() << 320))) }
        });
        prop_oneof![3 => a, 4 => b, 1 => c]
    }, check_ha);

    ctx.generated("h1_h2_generated", "proptest H1(ID||hid) and H2(M||w) against the reference (prefix, counter framing, 40-byte truncation)", ctx.tier.pick(20_000, 300_000), || {
        (1..3u8, 0..=300usize, any::<u64>(), 1..4u8, prop_oneof![Just(384usize), 0..=400usize]).prop_map(|(which, z_len, z_seed, hid, w_len)| HCase { which, z_len, z_seed, hid, w_len })
    }, check_h);

    ctx.exhaustive("structured_identities", "H1 and the three extractions for identities as applications write them (names, mailbox-style strings in several capitalisations, non-ASCII text, blanks at the edges, the empty string): exact values", || {
        let mut v = Vec::new();
        for i in 0..structured_identities().len() {
            for hid in 1..=3u8 {
                v.push(Extract { hid, k: Hex(expand_bytes(0x51d4 + i as u64, 32)), craft_fail: false, id_len: STRUCTURED_ID + i, id_seed: 0, pub_rep: (i % 6) as u8 });
            }
        }
        v
    }, check_extract);

    ctx.exhaustive("long_identities", "H1 / H2 and the three extractions for identities (resp. messages) of 122..129, 250..257, 1000, 4096, 8191, 8192, 65535, 65536, 70000 bytes: an identity is a byte string of any length (buffer caps, 8- and 16-bit length fields, limits borrowed from SM2's ENTL)", || {
        let mut v = Vec::new();
        for (i, l) in [122usize, 123, 127, 128, 129, 250, 251, 255, 256, 257, 1000, 4096, 8191, 8192, 65535, 65536, 70_000].iter().enumerate() {
            for hid in 1..=3u8 {
                v.push(Either::H(HCase { which: 1, z_len: *l, z_seed: 0x1d00 + i as u64, hid, w_len: 0 }));
                v.push(Either::E(Extract { hid, k: Hex(expand_bytes(0x1d40 + i as u64, 32)), craft_fail: false, id_len: *l, id_seed: 0x1d80 + i as u64 + hid as u64 * 100, pub_rep: (i % 6) as u8 }));
            }
            v.push(Either::H(HCase { which: 2, z_len: *l, z_seed: 0x1dc0 + i as u64, hid: 0, w_len: 384 }));
        }
        v
    }, |c: &Either| match c { Either::H(h) => check_h(h), Either::E(e) => check_extract(e) });

    ctx.listed("annex_keys", "Annex A ds_A (hid 01, Alice) and Annex C de_B (hid 03, Bob)", || vec![1u8, 3u8], |hid| {
        if *hid == 1 {
            let ks = big("000130E7 8459D785 45CB54C5 87E02CF4 80CE0B66 340F319F 348A1D5B 1F2DC5F4");
            let msk = Sm9SignMasterKey { ks: to_limbs(&ks), ppubs: TwistPoint::g_mul(&to_limbs(&ks)) };
            let key = catch(|| msk.extract_key(b"Alice")).map_err(|p| Fail { key: "entry=Sm9SignMasterKey::extract_key outcome=panic".into(), detail: p })?.ok_or_else(|| Fail { key: "entry=Sm9SignMasterKey::extract_key input=valid outcome=none".into(), detail: "Annex".into() })?;
            let ds = ref_g1(&key.ds).map_err(|e| Fail { key: "entry=Sm9SignMasterKey::extract_key outcome=non-canonical".into(), detail: e })?;
            ensure!(hex::encode_upper(r9::g1_bytes(&ds).unwrap()) == "A5702F05CF1315305E2D6EB64B0DEB923DB1A0BCF0CAFF90523AC8754AA6982078559A844411F9825C109F5EE3F52D720DD01785392A727BB1556952B2B013D3", "entry=Sm9SignMasterKey::extract_key outcome=wrong-key", "Annex ds_A: {}", show1(&ds));
        } else {
            let ke = big("0001EDEE 3778F441 F8DEA3D9 FA0ACC4E 07EE36C9 3F9A0861 8AF4AD85 CEDE1C22");
            let msk = Sm9EncMasterKey { ke: to_limbs(&ke), ppube: Point::g_mul(&to_limbs(&ke)) };
            let key = catch(|| msk.extract_key(b"Bob")).map_err(|p| Fail { key: "entry=Sm9EncMasterKey::extract_key outcome=panic".into(), detail: p })?.ok_or_else(|| Fail { key: "entry=Sm9EncMasterKey::extract_key input=valid outcome=none".into(), detail: "Annex".into() })?;
            let de = ref_g2(&key.de).map_err(|e| Fail { key: "entry=Sm9EncMasterKey::extract_key outcome=non-canonical".into(), detail: e })?;
            ensure!(hex::encode_upper(r9::g2_bytes(&de).unwrap()) == "94736ACD2C8C8796CC4785E938301A139A059D3537B6414140B2D31EECF41683115BAE85F5D8BC6C3DBD9E5342979ACCCF3C2F4F28420B1CB4F8C0B59A19B1587AA5E47570DA7600CD760A0CF7BEAF71C447F3844753FE74FA7BA92CA7D3B55F27538A62E7F7BFB51DCE08704796D94C9D56734F119EA44732B50E31CDEB75C1", "entry=Sm9EncMasterKey::extract_key outcome=wrong-key", "Annex de_B: {}", show2(&de));
        }
        pass(true, "annex")
    });

    let seed = ctx.seed;
    ctx.listed("extraction_crafted_inverse", "master keys crafted so that the inverse (H1 + k)^-1 the extraction computes is a chosen value v: 1, 2, 3, 65537, 2^64, 2^128, 2^128+12345, 2^192-1, 2^192, N-1, N-2 and boundary-limb values (short or sparse inverses), three key kinds", move || {
        let n = &r9::params().n;
        let mut vs: Vec<BigUint> = vec![BigUint::one(), BigUint::from(2u32), BigUint::from(3u32), BigUint::from(65537u32), BigUint::one() << 64, BigUint::one() << 128, (BigUint::one() << 128) + 12345u32, (BigUint::one() << 192) - 1u32, BigUint::one() << 192, n - 1u32, n - 2u32];
        vs.extend(gen::boundary_limb_values(n).into_iter().filter(|x| x.bits() > 1).step_by(11));
        let mut v = Vec::new();
        for (i, t) in vs.iter().enumerate() {
            v.push(Extract { hid: 0x80 | (1 + (i % 3) as u8), k: gen::hex32(t), craft_fail: false, id_len: 1 + i % 17, id_seed: seed ^ (0x2e61 + i as u64), pub_rep: (i % 6) as u8 });
        }
        v
    }, check_extract);

    let zl_step = ctx.tier.pick(5usize, 1usize);
    ctx.exhaustive("extraction_crafted_sum", "master keys crafted so that the integer sum H1 + k (before reduction mod N) is a limb-wise neighbour of N (each limb equal to N's limb, one below, one above, 0 or all ones: 625 targets) or within 2 of N, 2N-2, 2^256: the comparison that decides the reduction ties with N in some limbs and differs in others", move || {
        let n = &r9::params().n;
        let nl = to_limbs(n);
        let mut targets: Vec<BigUint> = Vec::new();
        for code in 0..625u32 {
            let mut l = [0u64; 4];
            let mut c = code;
            for i in 0..4 {
                l[i] = match c % 5 { 0 => nl[i], 1 => nl[i].wrapping_sub(1), 2 => nl[i].wrapping_add(1), 3 => 0, _ => u64::MAX };
                c /= 5;
            }
            targets.push(from_limbs(&l));
        }
        for d in 0..5u32 {
            targets.push(n + d - 2u32);
            targets.push(n * 2u32 - 2u32 - d);
            targets.push((BigUint::one() << 256usize) + d - 2u32);
        }
        targets.iter().enumerate().map(|(i, t)| Extract { hid: 0x40 | (1 + (i % 3) as u8), k: Hex(t.to_bytes_be()), craft_fail: false, id_len: 1 + i % 23, id_seed: seed ^ (0x5e16 + i as u64), pub_rep: (i % 6) as u8 }).collect::<Vec<_>>()
    }, check_extract);

    ctx.listed("extraction_zero_limb_master_keys", "master keys with an all-zero 64-bit limb (also the least significant one: multiples of 2^64) below a non-zero limb, three key kinds (every 5th pattern in the quick tier)", move || {
        let n = &r9::params().n;
        let mut v = Vec::new();
        for (i, k) in gen::zero_limb_scalars().into_iter().enumerate() {
            if i % zl_step != 0 || &k >= &(n - 1u32) || k <= BigUint::one() {
                continue;
            }
            // stored k is mapped to k mod (N-1) + 1
            v.push(Extract { hid: 1 + (i % 3) as u8, k: gen::hex32(&(&k - 1u32)), craft_fail: false, id_len: 1 + i % 20, id_seed: seed ^ (0x2e16 + i as u64), pub_rep: (i % 6) as u8 });
        }
        v
    }, check_extract);

    ctx.listed("extraction_edge_keys", "master keys {1, 2, N-2, N-1} and crafted N - H1(ID||hid) x three key kinds x several identities", move || {
        let n = &r9::params().n;
        let mut v = Vec::new();
        for hid in 1..=3u8 {
            for (i, k) in [BigUint::zero(), BigUint::one(), n - 3u32, n - 2u32].iter().enumerate() {
                // stored k is mapped to k % (N-1) + 1: 0 -> 1, 1 -> 2, N-3 -> N-2, N-2 -> N-1
                for id_len in [0usize, 1, 5, 64] {
                    v.push(Extract { hid, k: gen::hex32(k), craft_fail: false, id_len, id_seed: seed ^ (hid as u64 * 100 + i as u64 * 10 + id_len as u64), pub_rep: (i + id_len) as u8 % 6 });
                }
            }
            for j in 0..12u64 {
                v.push(Extract { hid, k: gen::hex32(&BigUint::zero()), craft_fail: true, id_len: (j * 7 % 40) as usize, id_seed: seed ^ (0xfa11 + j + hid as u64 * 1000), pub_rep: (j % 6) as u8 });
            }
        }
        v
    }, check_extract);

    ctx.generated("extraction_generated", "proptest (kind, master key, identity 0..300 bytes, 1 in 8 crafted to fail)", ctx.tier.pick(1_200, 20_000), || {
        (1..4u8, gen::scalar256(&r9::params().n), prop::bool::weighted(0.125), 0..=300usize, any::<u64>()).prop_map(|(hid, k, craft_fail, id_len, id_seed)| Extract { hid, k, craft_fail, id_len, id_seed, pub_rep: (id_seed >> 40) as u8 % 6 })
    }, check_extract);
}
