//! C14 — secret scalars are fresh, in range and full-entropy on every use.

use gm_sm2::exchange::Exchange;
use gm_sm2::key::Sm2Model;
use num_bigint::BigUint;
use num_traits::{One, Zero};
use proptest::prelude::*;
use serde::{Deserialize, Serialize};
use std::collections::{BTreeMap, HashSet};
use std::sync::Mutex;

use super::sm2util::*;
use super::sm9util::*;
use crate::engine::*;
use crate::refimpl::field::{from_be, from_limbs, mod_inv, to32};
use crate::refimpl::sm2 as r2;
use crate::refimpl::sm9 as r9;

#[derive(Serialize, Deserialize, Hash, Debug, Clone, Copy, PartialEq, Eq, PartialOrd, Ord)]
pub enum Kind {
    Sm2Keygen,
    Sm2Sign,
    Sm2Encrypt,
    Sm2Exchange1,
    Sm2Exchange2,
    Sm9GenSignMaster,
    Sm9GenEncMaster,
    Sm9SignMasterGenerate,
    Sm9EncMasterGenerate,
    Sm9Sign,
    Sm9Encrypt,
    Sm9Exch1a,
    Sm9Exch1b,
}

const ALL_KINDS: [Kind; 13] = [
    Kind::Sm2Keygen, Kind::Sm2Sign, Kind::Sm2Encrypt, Kind::Sm2Exchange1, Kind::Sm2Exchange2, Kind::Sm9GenSignMaster, Kind::Sm9GenEncMaster, Kind::Sm9SignMasterGenerate,
    Kind::Sm9EncMasterGenerate, Kind::Sm9Sign, Kind::Sm9Encrypt, Kind::Sm9Exch1a, Kind::Sm9Exch1b,
];

impl Kind {
    fn is_sm2(self) -> bool {
        matches!(self, Kind::Sm2Keygen | Kind::Sm2Sign | Kind::Sm2Encrypt | Kind::Sm2Exchange1 | Kind::Sm2Exchange2)
    }
    /// inclusive upper bound of the admissible range [1, hi]
    fn hi(self) -> BigUint {
        match self {
            Kind::Sm2Keygen => &r2::params().n - 2u32,
            k if k.is_sm2() => &r2::params().n - 1u32,
            _ => &r9::params().n - 1u32,
        }
    }
}

#[derive(Serialize, Deserialize, Hash, Debug, Clone)]
pub struct Op {
    pub kind: Kind,
    /// distinguishes the inputs (message, identity, key) of this invocation
    pub seed: u64,
}

#[derive(Serialize, Deserialize, Hash, Debug, Clone)]
pub struct History {
    pub ops: Vec<Op>,
    /// candidate bytes offered to the generator (hex, 32 bytes each); empty = the real OS-seeded generator
    pub inject: Vec<Hex>,
}

static OBSERVED: Mutex<Vec<(Kind, [u64; 4])>> = Mutex::new(Vec::new());

fn sm2_key(seed: u64) -> BigUint {
    from_be(&expand_bytes(seed ^ 0x5e2d, 32)) % (&r2::params().n - 2u32) + 1u32
}

/// Run one operation; returns the scalar that black-box evidence shows was used, and the scalars the hook recorded.
fn run_op(op: &Op, inject: &[Hex]) -> Result<(BigUint, Vec<BigUint>), Fail> {
    let sm2 = op.kind.is_sm2();
    let cands: Option<Vec<[u8; 32]>> = if inject.is_empty() { None } else { Some(inject.iter().map(|h| { let mut a = [0u8; 32]; a.copy_from_slice(&h.0[..32]); a }).collect()) };
    if sm2 {
        gm_sm2::verif_hooks::set_candidates(cands);
        gm_sm2::verif_hooks::start_recording();
    } else {
        gm_sm9::verif_hooks::set_candidates(cands);
        gm_sm9::verif_hooks::start_recording();
    }
    let name = format!("{:?}", op.kind);
    let msg = expand_bytes(op.seed, 1 + (op.seed % 60) as usize);
    // identities of 1..12 bytes, and (one in three) of 33..132 bytes: longer than a hash block half / a hash block
    let id = expand_bytes(op.seed ^ 0x1d, if op.seed % 3 == 0 { 33 + (op.seed / 3 % 100) as usize } else { 1 + (op.seed % 12) as usize });
    let n2 = &r2::params().n;
    // each arm returns the scalar proven by the operation's public output
    let res: Result<Result<BigUint, String>, String> = catch(|| -> Result<BigUint, String> {
        match op.kind {
            Kind::Sm2Keygen => {
                let (pk, sk) = gm_sm2::key::gen_keypair().map_err(|e| format!("{:?}", e))?;
                let d = from_limbs(&sk.d);
                if ref_point(&pk.point)? != r2::g_mul(&d) {
                    return Err("public key != [d]G".into());
                }
                Ok(d)
            }
            Kind::Sm2Sign => {
                let d = sm2_key(op.seed % 5);
                let sk = lib_sk(&d)?;
                let sig = sk.sign(None, &msg).map_err(|e| format!("{:?}", e))?;
                let (r, s) = (from_be(&sig[..32]), from_be(&sig[32..]));
                // s = (1+d)^-1 (k - r d)  =>  k = s (1+d) + r d
                Ok((&s * (&d + 1u32) + &r * &d) % n2)
            }
            Kind::Sm2Encrypt => {
                let d = sm2_key(op.seed % 5);
                let pk = lib_pk(&r2::g_mul(&d))?;
                let ct = pk.encrypt(&msg, false, Sm2Model::C1C3C2).map_err(|e| format!("{:?}", e))?;
                // the recorded scalar must reproduce C1
                let rec = gm_sm2::verif_hooks::take_recorded();
                gm_sm2::verif_hooks::start_recording();
                let k = from_limbs(rec.last().ok_or("nothing recorded")?);
                if r2::encode_uncompressed(&r2::g_mul(&(&k % n2))) != ct[..65] {
                    return Err("C1 != [k]G for the recorded k".into());
                }
                for x in rec {
                    gm_sm2::verif_hooks::record_accepted(&x);
                }
                Ok(k)
            }
            Kind::Sm2Exchange1 | Kind::Sm2Exchange2 => {
                let (da, db) = (sm2_key(op.seed % 5), sm2_key(op.seed % 5 + 7));
                let (pa, pb) = (lib_pk(&r2::g_mul(&da))?, lib_pk(&r2::g_mul(&db))?);
                let (ska, skb) = (lib_sk(&da)?, lib_sk(&db)?);
                // the session-key length is one more input of the invocation: the scalar may not depend on it
                let klen = [16usize, 1, 2, 8, 15, 17, 32, 48][(op.seed / 5 % 8) as usize];
                let mut alice = Exchange::new(klen, Some("alice"), &pa, &ska, Some("bob"), &pb).map_err(|e| format!("{:?}", e))?;
                let point = if op.kind == Kind::Sm2Exchange1 {
                    alice.exchange_1().map_err(|e| format!("{:?}", e))?
                } else {
                    // R_A is made outside the recording window
                    let rec = gm_sm2::verif_hooks::take_recorded();
                    let saved = gm_sm2::verif_hooks::candidates_left();
                    let _ = (rec, saved);
                    let ra = lib_point(&r2::g_mul(&BigUint::from(op.seed | 1)), &BigUint::one());
                    let mut bob = Exchange::new(klen, Some("bob"), &pb, &skb, Some("alice"), &pa).map_err(|e| format!("{:?}", e))?;
                    gm_sm2::verif_hooks::start_recording();
                    bob.exchange_2(&ra).map_err(|e| format!("{:?}", e))?.0
                };
                let rec = gm_sm2::verif_hooks::take_recorded();
                gm_sm2::verif_hooks::start_recording();
                let k = from_limbs(rec.last().ok_or("nothing recorded")?);
                if ref_point(&point)? != r2::g_mul(&(&k % n2)) {
                    return Err("R != [r]G for the recorded r".into());
                }
                for x in rec {
                    gm_sm2::verif_hooks::record_accepted(&x);
                }
                Ok(k)
            }
            Kind::Sm9GenSignMaster | Kind::Sm9SignMasterGenerate => {
                let m = if op.kind == Kind::Sm9GenSignMaster { gm_sm9::key::generate_sign_master_key() } else { gm_sm9::key::Sm9SignMasterKey::master_key_generate() };
                let ks = from_limbs(&m.ks);
                if ref_g2(&m.ppubs)? != r9::p2_mul(&ks) {
                    return Err("Ppub-s != [ks]P2".into());
                }
                Ok(ks)
            }
            Kind::Sm9GenEncMaster | Kind::Sm9EncMasterGenerate => {
                let m = if op.kind == Kind::Sm9GenEncMaster { gm_sm9::key::generate_enc_master_key() } else { gm_sm9::key::Sm9EncMasterKey::master_key_generate() };
                let ke = from_limbs(&m.ke);
                if ref_g1(&m.ppube)? != r9::p1_mul(&ke) {
                    return Err("Ppub-e != [ke]P1".into());
                }
                Ok(ke)
            }
            Kind::Sm9Sign => {
                let m = super::c09::master(&BigUint::from(0xabcdef01u64 + op.seed % 2));
                let key = m.lib.extract_key(&id).ok_or("no key")?;
                let (h, s) = key.sign(&msg).map_err(|e| format!("{:?}", e))?;
                let rec = gm_sm9::verif_hooks::take_recorded();
                gm_sm9::verif_hooks::start_recording();
                let r = from_limbs(rec.last().ok_or("nothing recorded")?);
                let ds = r9::sign_key(&m.ks, &id).ok_or("no ref key")?;
                let want = r9::sign_with_r(&ds, &m.g, &msg, &r).ok_or("recorded r needs a retry")?;
                if from_limbs(&h) != want.0 || ref_g1(&s)? != want.1 {
                    return Err("(h, S) is not the signature for the recorded r".into());
                }
                for x in rec {
                    gm_sm9::verif_hooks::record_accepted(&x);
                }
                Ok(r)
            }
            Kind::Sm9Encrypt | Kind::Sm9Exch1a | Kind::Sm9Exch1b => {
                let m = super::c10::master(&BigUint::from(0x1234_5678u64 + op.seed % 2));
                let (point, hid): (gm_sm9::points::Point, u8) = match op.kind {
                    Kind::Sm9Encrypt => {
                        let ct = m.lib.encrypt(&id, &msg);
                        (gm_sm9::verif_hooks::point_from_bytes(&ct[..65]), 3)
                    }
                    Kind::Sm9Exch1a => (gm_sm9::key::exch_step_1a(&m.lib, &id).0, 2),
                    _ => {
                        let idb = b"responder".to_vec();
                        let kb = m.lib.extract_exch_key(&idb).ok_or("no key")?;
                        let ra = lib_g1(&r9::p1_mul(&BigUint::from(op.seed | 1)), &BigUint::one());
                        (gm_sm9::key::exch_step_1b(&m.lib, &id, &idb, &kb, &ra, [16usize, 1, 2, 8, 15, 17, 32, 48][(op.seed / 5 % 8) as usize]).map_err(|e| format!("{:?}", e))?.0, 2)
                    }
                };
                let rec = gm_sm9::verif_hooks::take_recorded();
                gm_sm9::verif_hooks::start_recording();
                let r = from_limbs(rec.last().ok_or("nothing recorded")?);
                let pr = r9::params();
                let q = pr.g1.add(&r9::p1_mul(&r9::h1(&id, hid)), &m.ppube);
                if ref_g1(&point)? != r9::g1_mul(&(&r % &pr.n), &q) {
                    return Err("C1 / R != [r]Q for the recorded r".into());
                }
                for x in rec {
                    gm_sm9::verif_hooks::record_accepted(&x);
                }
                Ok(r)
            }
        }
    });
    let recorded: Vec<BigUint> = if sm2 { gm_sm2::verif_hooks::take_recorded() } else { gm_sm9::verif_hooks::take_recorded() }.iter().map(|l| from_limbs(l)).collect();
    if sm2 {
        gm_sm2::verif_hooks::set_candidates(None);
    } else {
        gm_sm9::verif_hooks::set_candidates(None);
    }
    match res {
        Err(p) => {
            let exhausted = p.contains("candidate queue exhausted");
            Err(Fail { key: format!("entry={} outcome={}", name, if exhausted { "retry-budget-exhausted" } else { "panic" }), detail: p })
        }
        Ok(Err(e)) => Err(Fail { key: format!("entry={} outcome=scalar-not-confirmed", name), detail: e }),
        Ok(Ok(k)) => Ok((k, recorded)),
    }
}

fn check_history(h: &History) -> CaseResult {
    let mut seen = HashSet::new();
    for op in &h.ops {
        let (used, recorded) = run_op(op, &h.inject)?;
        let name = format!("{:?}", op.kind);
        ensure!(!recorded.is_empty(), format!("entry={} outcome=no-scalar-drawn", name), "the operation drew no scalar from the generator");
        ensure!(recorded.last() == Some(&used), format!("entry={} outcome=recorded!=used", name), "recorded {:x?}, used {:x}", recorded, used);
        let hi = op.kind.hi();
        ensure!(!used.is_zero() && used <= hi, format!("entry={} outcome=scalar-out-of-range", name), "scalar {:x} is outside [1, {:x}]{}", used, hi, if h.inject.is_empty() { "" } else { " (candidate injected at the byte source)" });
        if h.inject.is_empty() {
            ensure!(seen.insert(used.clone()), format!("entry={} outcome=scalar-repeated", name), "scalar {:x} used twice within one history", used);
            let mut l = [0u64; 4];
            for (i, d) in used.to_u64_digits().iter().enumerate() {
                l[i] = *d;
            }
            OBSERVED.lock().unwrap().push((op.kind, l));
        }
    }
    pass(true, if h.inject.is_empty() { "os-rng" } else { "injected" })
}

/// One Exchange object driven through several ephemeral-scalar-drawing steps (1 = exchange_1, 2 = exchange_2 with a fresh R_A).
#[derive(Serialize, Deserialize, Hash, Debug, Clone)]
pub struct Reuse {
    pub steps: Vec<u8>,
    pub seed: u64,
}

fn check_reuse(c: &Reuse) -> CaseResult {
    let n2 = &r2::params().n;
    let (da, db) = (sm2_key(c.seed % 5), sm2_key(c.seed % 5 + 7));
    let mk = |e: String| Fail { key: "harness: key construction".into(), detail: e };
    let (pa, pb) = (lib_pk(&r2::g_mul(&da)).map_err(mk)?, lib_pk(&r2::g_mul(&db)).map_err(mk)?);
    let ska = lib_sk(&da).map_err(mk)?;
    let klen = [16usize, 1, 2, 8, 15, 17, 32, 48][(c.seed / 5 % 8) as usize];
    let mut ex = Exchange::new(klen, Some("alice"), &pa, &ska, Some("bob"), &pb).map_err(|e| Fail { key: "entry=Exchange::new input=valid outcome=err".into(), detail: format!("{:?}", e) })?;
    let mut used: Vec<BigUint> = Vec::new();
    for (i, st) in c.steps.iter().enumerate() {
        gm_sm2::verif_hooks::start_recording();
        let name = if *st == 1 { "exchange_1" } else { "exchange_2" };
        let r = catch(|| {
            if *st == 1 {
                ex.exchange_1().map_err(|e| format!("{:?}", e))
            } else {
                let ra = lib_point(&r2::g_mul(&BigUint::from((c.seed << 8 | i as u64) | 1)), &BigUint::one());
                ex.exchange_2(&ra).map(|v| v.0).map_err(|e| format!("{:?}", e))
            }
        });
        let rec: Vec<BigUint> = gm_sm2::verif_hooks::take_recorded().iter().map(|l| from_limbs(l)).collect();
        let point = match r {
            Ok(Ok(p)) => p,
            Ok(Err(e)) => return fail(format!("entry=Exchange::{} input=valid outcome=err", name), e),
            Err(p) => return fail(format!("entry=Exchange::{} outcome=panic", name), p),
        };
        ensure!(!rec.is_empty(), format!("entry=Exchange::{} input=object-reused outcome=no-fresh-scalar-drawn", name), "step {} of {:?} on one Exchange object did not draw a scalar from the generator", i, c.steps);
        let k = rec.last().unwrap().clone();
        let pt = ref_point(&point).map_err(|e| Fail { key: format!("entry=Exchange::{} outcome=non-canonical", name), detail: e })?;
        ensure!(pt == r2::g_mul(&(&k % n2)), format!("entry=Exchange::{} input=object-reused outcome=recorded!=used", name), "step {}: the point sent is not [r]G for the scalar drawn in this step", i);
        ensure!(!used.contains(&k), format!("entry=Exchange::{} input=object-reused outcome=scalar-repeated", name), "step {} of {:?} reuses the ephemeral scalar {:x}", i, c.steps, k);
        used.push(k);
    }
    pass(true, format!("steps={:?}", c.steps))
}

#[derive(Serialize, Deserialize, Hash, Debug, Clone)]
pub struct Stat {
    pub kind: Kind,
}

/// exact P(bit i = 1) for the uniform law on [1, hi]
fn bit_prob(hi: &BigUint, i: u32) -> f64 {
    // count of x in [0, hi] with bit i set
    let period = BigUint::one() << (i + 1);
    let half = BigUint::one() << i;
    let total = hi + 1u32; // numbers 0..=hi
    let full = &total / &period;
    let rem = &total % &period;
    let ones = full * &half + if rem > half { rem - &half } else { BigUint::zero() };
    // x = 0 has no bit set, so the count over [1, hi] is the same
    let num = ones.to_u64_digits();
    let den = hi.to_u64_digits();
    let f = |d: &Vec<u64>| d.iter().rev().fold(0f64, |acc, x| acc * 18446744073709551616.0 + *x as f64);
    f(&num) / f(&den)
}

fn check_stats(s: &Stat) -> CaseResult {
    let obs: Vec<[u64; 4]> = OBSERVED.lock().unwrap().iter().filter(|(k, _)| *k == s.kind).map(|(_, v)| *v).collect();
    let m = obs.len();
    if m < 50 {
        return pass(false, "too-few-samples");
    }
    let name = format!("{:?}", s.kind);
    let hi = s.kind.hi();
    for i in 0..256u32 {
        let ones = obs.iter().filter(|v| (v[(i / 64) as usize] >> (i % 64)) & 1 == 1).count() as f64;
        let p = bit_prob(&hi, i);
        let sigma = (m as f64 * p * (1.0 - p)).sqrt();
        let dev = (ones - m as f64 * p).abs();
        ensure!(dev <= 8.0 * sigma + 1.0, format!("entry={} outcome=biased-bit", name), "bit {}: {} ones in {} scalars, expected {:.1} +- {:.1} (8 sigma)", i, ones, m, m as f64 * p, 8.0 * sigma);
    }
    // freshness across the whole run, all operations together
    pass(true, format!("{}/m>={}", name, (m / 100) * 100))
}

fn check_global_freshness(_: &u8) -> CaseResult {
    let obs = OBSERVED.lock().unwrap();
    let mut seen: BTreeMap<[u64; 4], Kind> = BTreeMap::new();
    for (k, v) in obs.iter() {
        if let Some(prev) = seen.insert(*v, *k) {
            return fail("entry=secret-scalar outcome=scalar-repeated", format!("{:x?} was used by {:?} and again by {:?}", v, prev, k));
        }
    }
    pass(obs.len() > 1, format!("distinct={}", (obs.len() / 1000) * 1000))
}

pub fn run(ctx: &Ctx) {
    ctx.set_rule(
        "histories are vectors of randomised operations (SM2: key generation, sign, encrypt, exchange step 1/2; SM9: the four master-key generators, sign, encrypt, exchange step 1a/1b) on distinct inputs. For every invocation the scalar is \
         observed through the hook AND confirmed by public evidence (k = s(1+d)+rd from the signature, C1 = [k]G, P = [d]G, R = [r]G, Ppub = [ks]P2, (h,S) = reference signature for r, C1/R = [r]Q); it must lie in [1, order-1] (SM2 private keys in [1,n-2]), \
         never repeat in the whole run, and each of the 256 bit positions must have a ones-count within 8 sigma of m*p_i for the exact uniform probability p_i. Injection histories put candidates {0, order-1, order, order+1, p-2, p-1, 2^256-1, small, valid} at the byte source: \
         whatever the operation ends up using must be in range. Non-trivial: every observed scalar.",
    );
    ctx.assume("this check is not a pure function of VERIF_SEED: its subject is the OS-seeded CSPRNG; the 8-sigma band (per-run false-alarm probability < 1e-11) keeps it stable");
    ctx.assume("that the bytes come from an OS-seeded CSPRNG is a property of the rand crate and is not observable by testing; biases smaller than 8 sigma / sqrt(m) are invisible");
    ctx.assume("hooks used: record + override at the point where 32 RNG bytes become a candidate in gm-sm2 random_u256 and gm-sm9 sm9_random_u256");

    OBSERVED.lock().unwrap().clear();
    let h = ctx.tier.pick(4_000u64, 40_000u64);
    ctx.generated("os_rng_histories", "proptest vec(op, 1..6): SM2 operations weighted 5:1 against SM9 operations; scalars confirmed, in range, distinct", h, || {
        let op = (prop_oneof![5 => 0..5usize, 1 => 5..13usize], any::<u64>()).prop_map(|(k, seed)| Op { kind: ALL_KINDS[k], seed });
        prop::collection::vec(op, 1..6).prop_map(|ops| History { ops, inject: vec![] })
    }, check_history);

    ctx.exhaustive("exchange_object_reuse", "one SM2 Exchange object driven through every sequence of 2..=3 scalar-drawing steps (exchange_1 / exchange_2 with fresh R_A): every step draws a fresh scalar and uses it", || {
        let mut v = Vec::new();
        for len in 2..=3u32 {
            for m in 0..(1u32 << len) {
                let steps: Vec<u8> = (0..len).map(|i| if m >> i & 1 == 1 { 2 } else { 1 }).collect();
                for seed in 0..3u64 {
                    v.push(Reuse { steps: steps.clone(), seed });
                }
            }
        }
        v
    }, check_reuse);

    ctx.listed("ephemeral_scalar_survives_a_failed_confirmation", "one initiator object: exchange_1 draws rA, a damaged S_B makes exchange_3 fail, then the genuine (R_B, S_B) arrives: the second exchange_3 must succeed with the key of GB/T 32918.3 for the rA that was drawn (an object that wiped or replaced its scalar would now be using a value no generator produced); also roles swapped and simultaneous start", || {
        let mut v = Vec::new();
        for kind in 0..3u8 {
            for i in 0..3u64 {
                v.push(super::c15::Reuse { kind, seed: 0x2e14 + i * 5 + kind as u64, klen: 16 + i as usize * 9 });
            }
        }
        v
    }, |c| super::c15::check_reuse(c).map_err(|mut f| { f.key = format!("{} input=object-reused", f.key); f }));

    ctx.listed("initiator_without_a_drawn_scalar", "an initiator object on which exchange_1 was never called is offered (R_B, S_B) forged for the ephemeral scalar 0 (R_A = O, x1 = y1 = 0; then U = [t_B]P_A needs no secret of the initiator): exchange_3 must not complete — it has no scalar that a generator produced. An error or a panic both count as refusal (the statement of C20 does not list the key exchange), Ok is the violation", || (0..6u64).collect::<Vec<u64>>(), |seed: &u64| {
        let pr = r2::params();
        let n = &pr.n;
        let (da, db) = (sm2_key(*seed % 5), sm2_key(*seed % 5 + 7));
        let (pa, pb) = (r2::g_mul(&da), r2::g_mul(&db));
        let mk = |e: String| Fail { key: "harness: key construction".into(), detail: e };
        let (lpa, lpb) = (lib_pk(&pa).map_err(mk)?, lib_pk(&pb).map_err(mk)?);
        let ska = lib_sk(&da).map_err(mk)?;
        let klen = [16usize, 1, 8, 32, 48, 17][(*seed % 6) as usize];
        let (ida, idb) = ("alice", "bob");
        let (za, zb) = (r2::za(ida.as_bytes(), &pa), r2::za(idb.as_bytes(), &pb));
        // the responder's side for R_A = O
        let rb = from_be(&expand_bytes(*seed ^ 0x14b, 32)) % (n - 1u32) + 1u32;
        let rb_pt = r2::g_mul(&rb);
        let (x2, y2) = r2::xy(&rb_pt).unwrap();
        let tb = (&db + r2::x_bar(&from_be(&x2)) * &rb) % n;
        let v = pr.curve.mul(&tb, &pa);
        let Some((xv, yv)) = r2::xy(&v) else { return pass(false, "V-is-infinity") };
        let zero = [0u8; 32];
        let inner = crate::refimpl::sm3::sm3_parts(&[&xv, &za, &zb, &zero, &zero, &x2, &y2]);
        let s_b = crate::refimpl::sm3::sm3_parts(&[&[0x02], &yv, &inner]);
        let mut alice = Exchange::new(klen, Some(ida), &lpa, &ska, Some(idb), &lpb).map_err(|e| Fail { key: "entry=Exchange::new input=valid outcome=err".into(), detail: format!("{:?}", e) })?;
        gm_sm2::verif_hooks::start_recording();
        let o = outcome(|| alice.exchange_3(&lib_point(&rb_pt, &BigUint::one()), s_b));
        let rec = gm_sm2::verif_hooks::take_recorded();
        match o {
            Outcome::Ok(_) => fail("entry=Exchange::exchange_3 input=no-exchange_1-before outcome=completed-without-a-scalar", format!("klen={}: exchange_3 on an object that never drew an ephemeral scalar accepted a confirmation forged for r_A = 0 ({} scalars drawn during the call)", klen, rec.len())),
            _ => pass(true, "refused"),
        }
    });

    ctx.listed_seq("bit_balance", "per operation: ones-count of every bit position within 8 sigma of the exact uniform expectation", || ALL_KINDS.iter().map(|k| Stat { kind: *k }).collect(), check_stats);
    ctx.listed_seq("global_freshness", "no scalar value occurs twice among all observed scalars of the run", || vec![0u8], check_global_freshness);

    ctx.exhaustive("injected_candidates", "every operation x candidate queues [bad..., valid] with bad in {0, order-1 (keys), order, order+1, p-2, p-1, 2^256-1}, all of them in a row, and runs of 12 / 40 / 200 out-of-range candidates before the first valid one", || {
        let mut v = Vec::new();
        for kind in ALL_KINDS {
            let (order, p) = if kind.is_sm2() { (r2::params().n.clone(), r2::params().p.clone()) } else { (r9::params().n.clone(), r9::params().p.clone()) };
            let valid = |s: u64| Hex(to32(&(from_be(&expand_bytes(s, 32)) % (&order - 3u32) + 1u32)).to_vec());
            let bads: Vec<BigUint> = vec![BigUint::zero(), &order - 1u32, order.clone(), &order + 1u32, &order + 12345u32, &p - 2u32, &p - 1u32, p.clone(), (BigUint::one() << 256) - 1u32, (BigUint::one() << 255) + (&order >> 1)];
            for (i, b) in bads.iter().enumerate() {
                // single bad candidate followed by valid ones
                v.push(History { ops: vec![Op { kind, seed: i as u64 }], inject: vec![Hex(to32(b).to_vec()), valid(i as u64 + 1), valid(i as u64 + 2), valid(i as u64 + 3)] });
            }
            // all bad ones in a row, then valid
            let mut q: Vec<Hex> = bads.iter().filter(|b| **b >= order || b.is_zero()).map(|b| Hex(to32(b).to_vec())).collect();
            q.extend([valid(100), valid(101), valid(102)]);
            v.push(History { ops: vec![Op { kind, seed: 99 }], inject: q });
            // long runs of out-of-range candidates (12, 40, 200 in a row), then valid ones: the sampler must keep rejecting, however long it takes
            for (j, run) in [12usize, 40, 200].iter().enumerate() {
                let mut q: Vec<Hex> = (0..*run).map(|t| Hex(to32(&((&order + (t as u32 * 7919 + 1)) % (BigUint::one() << 256))).to_vec())).collect();
                q.extend([valid(600 + j as u64), valid(601 + j as u64), valid(602 + j as u64)]);
                v.push(History { ops: vec![Op { kind, seed: 600 + j as u64 }], inject: q });
            }
            // boundary valid values must be usable or skipped, never cause a failure: 1, 2, order-2
            for (i, b) in [BigUint::one(), BigUint::from(2u32), &order - 2u32].iter().enumerate() {
                v.push(History { ops: vec![Op { kind, seed: 200 + i as u64 }], inject: vec![Hex(to32(b).to_vec()), valid(300 + i as u64), valid(400 + i as u64), valid(500 + i as u64)] });
            }
        }
        v
    }, check_history);
    let _ = mod_inv;
}
