//! C05 — SM2 public-key encryption round-trips and conforms to GB/T 32918.4; KDF.

use gm_sm2::key::Sm2Model;
use proptest::prelude::*;
use serde::{Deserialize, Serialize};

use super::sm2util::*;
use crate::corpus;
use crate::engine::*;
use crate::gen;
use crate::refimpl::field::{from_be, to32};
use crate::refimpl::sm2 as r2;
use crate::refimpl::sm3 as rsm3;

#[derive(Serialize, Deserialize, Hash, Debug, Clone)]
pub struct EncCase {
    pub d: Hex,
    pub msg_len: usize,
    pub msg_seed: u64,
    /// 0 random, 1 all zero, 2 all 0xFF, 3 random with leading zero bytes
    pub msg_class: u8,
    pub compressed: bool,
    pub c1c3c2: bool,
    pub k: Option<Hex>,
}

pub fn model(c1c3c2: bool) -> Sm2Model {
    if c1c3c2 {
        Sm2Model::C1C3C2
    } else {
        Sm2Model::C1C2C3
    }
}

impl EncCase {
    pub fn msg(&self) -> Vec<u8> {
        if self.msg_class & 0x0f == 4 {
            // the message equals the KDF stream for the case's own (d, k): C2 = M xor t is then all zero (needs a fixed k)
            if let Some(k) = &self.k {
                let pk = r2::g_mul(&from_be(&self.d));
                if let Some((x2, y2)) = r2::xy(&r2::params().curve.mul(&from_be(k), &pk)) {
                    return rsm3::kdf(&[&x2[..], &y2[..]].concat(), self.msg_len);
                }
            }
        }
        let mut m = match (self.msg_class & 0x0f) % 4 {
            1 => vec![0u8; self.msg_len],
            2 => vec![0xFF; self.msg_len],
            _ => expand_bytes(self.msg_seed, self.msg_len),
        };
        if (self.msg_class & 0x0f) % 4 == 3 {
            let z = (self.msg_seed % 4 + 1) as usize;
            for b in m.iter_mut().take(z) {
                *b = 0;
            }
        }
        m
    }
}

fn check_enc(c: &EncCase) -> CaseResult {
    let n = &r2::params().n;
    let d = from_be(&c.d);
    let msg = c.msg();
    let pk_ref = r2::g_mul(&d);
    let mut pk = lib_pk(&pk_ref).map_err(|e| Fail { key: "entry=Sm2PublicKey::new input=valid-point outcome=rejected".into(), detail: e })?;
    // high nibble of msg_class: the Jacobian representation in which the key object holds the recipient's point (not a different key)
    pk.point = point_in_rep(&pk_ref, Some(&d), c.msg_class >> 4, c.msg_seed);
    let sk = lib_sk(&d).map_err(|e| Fail { key: "entry=Sm2PrivateKey::new input=d-in-[1,n-2] outcome=rejected".into(), detail: e })?;
    let cfg = format!("{}/{}", if c.compressed { "compressed" } else { "uncompressed" }, if c.c1c3c2 { "C1C3C2" } else { "C1C2C3" });
    let ct = match &c.k {
        Some(kh) => {
            let k = from_be(kh);
            let k2 = from_be(&expand_bytes(c.msg_seed ^ 0x6b35, 32)) % (n - 1u32) + 1u32;
            let (r, left) = with_sm2_candidates(vec![to32(&k), to32(&k2)], || pk.encrypt(&msg, c.compressed, model(c.c1c3c2)));
            let ct = match r {
                Ok(Ok(v)) => v,
                Ok(Err(e)) => return fail("entry=Sm2PublicKey::encrypt input=valid outcome=err", format!("{:?}", e)),
                Err(p) => return fail(format!("entry=Sm2PublicKey::encrypt input=valid outcome=panic site={}", panic_site(&p)), p),
            };
            // exact comparison with the reference encryptor for the nonce the library actually used (the last candidate consumed)
            let consumed = 2 - left;
            ensure!(consumed >= 1, "entry=Sm2PublicKey::encrypt outcome=nonce-not-drawn", "no candidate consumed");
            let k_used = if consumed == 1 { &k } else { &k2 };
            let want = r2::encrypt_with_k(&pk_ref, &msg, k_used).ok_or_else(|| Fail { key: "entry=Sm2PublicKey::encrypt outcome=used-a-nonce-that-needs-retry".into(), detail: format!("k={:x}", k_used) })?;
            let want = want.encode(c.compressed, c.c1c3c2);
            ensure!(ct == want, "entry=Sm2PublicKey::encrypt outcome=wrong-ciphertext", "d={:x} k={:x} {} |M|={}: library {} standard {}", d, k, cfg, msg.len(), hexs::hx(&ct), hexs::hx(&want));
            ct
        }
        None => match outcome(|| pk.encrypt(&msg, c.compressed, model(c.c1c3c2))) {
            Outcome::Ok(v) => v,
            o => return fail(format!("entry=Sm2PublicKey::encrypt input=valid outcome={}", o.class()), o.describe()),
        },
    };
    // structure, judged by the independent decryptor (C1 on curve, C2 = M xor KDF, C3 = SM3(x2||M||y2))
    let c1len = if c.compressed { 33 } else { 65 };
    ensure!(ct.len() == c1len + 32 + msg.len(), "entry=Sm2PublicKey::encrypt outcome=wrong-length", "{} |M|={} -> {} bytes", cfg, msg.len(), ct.len());
    let rd = r2::decrypt(&d, &ct, c.compressed, c.c1c3c2);
    ensure!(rd.as_deref() == Some(&msg[..]), "entry=Sm2PublicKey::encrypt outcome=not-a-GB/T-32918.4-ciphertext", "d={:x} {} |M|={} ct={}: independent decryption gives {:?}", d, cfg, msg.len(), hexs::hx(&ct), rd.map(|v| hexs::hx(&v)));
    // round trip inside the library
    let back = outcome(|| sk.decrypt(&ct, c.compressed, model(c.c1c3c2)));
    ensure!(back == Outcome::Ok(msg.clone()), "entry=Sm2PrivateKey::decrypt input=own-ciphertext outcome=round-trip-failure", "d={:x} {} |M|={} ct={}: {}", d, cfg, msg.len(), hexs::hx(&ct), match &back { Outcome::Ok(v) => hexs::hx(v), o => o.describe() });
    let nt = c.compressed || msg.len() % 32 == 0 || msg.len() > 117;
    pass(nt, format!("{}/{}{}", cfg, if c.k.is_some() { "fixed-k" } else { "lib-rng" }, if msg.len() % 32 == 0 { "/klen%32=0" } else { "" }))
}

/// ciphertext produced by the reference encryptor must decrypt under the library
fn check_ref_enc(c: &EncCase) -> CaseResult {
    let d = from_be(&c.d);
    let msg = c.msg();
    let pk_ref = r2::g_mul(&d);
    let Some(w) = r2::encrypt_with_k(&pk_ref, &msg, &from_be(&c.k.as_ref().unwrap().0)) else { return pass(false, "retry-k") };
    let ct = w.encode(c.compressed, c.c1c3c2);
    let sk = lib_sk(&d).map_err(|e| Fail { key: "entry=Sm2PrivateKey::new input=d-in-[1,n-2] outcome=rejected".into(), detail: e })?;
    let got = outcome(|| sk.decrypt(&ct, c.compressed, model(c.c1c3c2)));
    ensure!(got == Outcome::Ok(msg.clone()), "entry=Sm2PrivateKey::decrypt input=conforming-ciphertext outcome=failure", "d={:x} |M|={} compressed={} c1c3c2={} ct={}: {}", d, msg.len(), c.compressed, c.c1c3c2, hexs::hx(&ct), got.describe());
    pass(true, "reference-encrypted")
}

#[derive(Serialize, Deserialize, Hash, Debug, Clone)]
pub struct EdgeC1 {
    pub d: Hex,
    pub point: usize,
    pub msg_len: usize,
    pub msg_seed: u64,
    pub compressed: bool,
    pub c1c3c2: bool,
}

/// a conforming ciphertext whose C1 is a boundary point of the curve (coordinates next to 0, n, p, powers of two, special limb patterns)
fn check_edge_c1(c: &EdgeC1) -> CaseResult {
    let eps = edge_points();
    let (label, x, y) = &eps[c.point % eps.len()];
    let d = from_be(&c.d);
    let msg = expand_bytes(c.msg_seed, c.msg_len.max(1));
    let Some(w) = r2::encrypt_to_c1(&d, &r2::pt(x, y), &msg) else { return pass(false, "retry") };
    let ct = w.encode(c.compressed, c.c1c3c2);
    if r2::decrypt(&d, &ct, c.compressed, c.c1c3c2).as_deref() != Some(&msg[..]) {
        return pass(false, "reference-disagrees-with-itself");
    }
    let sk = lib_sk(&d).map_err(|e| Fail { key: "entry=Sm2PrivateKey::new input=d-in-[1,n-2] outcome=rejected".into(), detail: e })?;
    let got = outcome(|| sk.decrypt(&ct, c.compressed, model(c.c1c3c2)));
    ensure!(got == Outcome::Ok(msg.clone()), "entry=Sm2PrivateKey::decrypt input=conforming-ciphertext outcome=failure",
        "C1 = edge point {} x={:x} y={:x}; d={:x} |M|={} compressed={} c1c3c2={} ct={}: {}", label, x, y, d, msg.len(), c.compressed, c.c1c3c2, hexs::hx(&ct), got.describe());
    pass(true, format!("edge-C1/{}", label.split(|ch| ch == '+' || ch == '-' || ch == '/').next().unwrap_or("")))
}

#[derive(Serialize, Deserialize, Hash, Debug, Clone)]
pub struct KdfCase {
    pub z_len: usize,
    pub z_seed: u64,
    pub klen: usize,
}

fn check_kdf(c: &KdfCase) -> CaseResult {
    let z = expand_bytes(c.z_seed, c.z_len);
    let want = rsm3::kdf(&z, c.klen);
    let got = catch(|| gm_sm2::util::kdf(&z, c.klen)).map_err(|p| Fail { key: "entry=util::kdf input=klen>=1 outcome=panic".into(), detail: p })?;
    ensure!(got == want, "entry=util::kdf outcome=wrong-output", "|Z|={} klen={}: library {} ({} bytes) standard {} ({} bytes)", z.len(), c.klen, hexs::hx(&got), got.len(), hexs::hx(&want), want.len());
    pass(c.klen % 32 == 0 || c.klen > 32, if c.klen % 32 == 0 { "klen%32=0" } else { "klen" })
}

#[derive(Serialize, Deserialize, Hash, Debug, Clone)]
pub struct Idx {
    pub key: usize,
    pub enc: usize,
}

fn enc_case(fixed_k: bool, maxlen: usize) -> impl Strategy<Value = EncCase> {
    let n = r2::params().n.clone();
    (
        gen::secret_scalar(&(&n - 2u32)),
        prop_oneof![3 => 1..=130usize, 1 => (1..=9usize).prop_map(|b| b * 32), 1 => 1..=maxlen],
        any::<u64>(),
        (prop_oneof![5 => Just(0u8), 1 => Just(1u8), 1 => Just(2u8), 1 => Just(3u8)], 0..6u8).prop_map(|(c, rep)| c | rep << 4),
        any::<bool>(),
        any::<bool>(),
        gen::secret_scalar(&(&n - 1u32)),
    )
        .prop_map(move |(d, msg_len, msg_seed, msg_class, compressed, c1c3c2, k)| EncCase { d, msg_len, msg_seed, msg_class, compressed, c1c3c2, k: if fixed_k { Some(k) } else { None } })
}

pub fn run(ctx: &Ctx) {
    let n = r2::params().n.clone();
    ctx.set_rule(
        "cases are (d, message length/seed/class, Jacobian representation of the recipient's point in the key object, compressed?, order, nonce k): every message length 1..=300 (klen mod 32 = 0 nine times) x 4 configurations with k injected through the RNG hook; \
         proptest cases with lengths to 2^12 (thorough 2^16), all-zero / all-0xFF / leading-zero messages, edge keys; the library's own RNG; reference-encrypted and OpenSSL-encrypted ciphertexts; conforming ciphertexts whose C1 is a boundary point of the curve; the \
         GM/T 0003.5 Annex example both ways; KDF for every klen 1..=300 and random klen/|Z|. Oracles: exact equality with the reference encryptor for the same k, independent decryption of every library \
         ciphertext (C1 on curve, C2 = M xor KDF, C3 = SM3(x2||M||y2)), round trip. Non-trivial: compressed C1, or klen mod 32 = 0, or |M| > 117.",
    );
    ctx.assume("reference encryptor/decryptor/KDF (harness/src/refimpl/{sm2,sm3}.rs) reproduce the GM/T 0003.5 Annex ciphertext bit for bit; OpenSSL 3.0.20 corpus is golden data");

    let seed = ctx.seed;
    ctx.exhaustive("lengths_1_300_fixed_k", "every |M| 1..=300 x {compressed, uncompressed} x {C1C2C3, C1C3C2}, nonce injected: exact ciphertext", move || {
        let mut v = Vec::new();
        for len in 1..=300usize {
            for cfg in 0..4u8 {
                let s = seed.wrapping_mul(7919) ^ ((len as u64) << 8 | cfg as u64);
                let key_sel = (len % 5) as u64; // five key pairs
                v.push(EncCase {
                    d: gen::hex32(&(from_be(&expand_bytes(seed ^ 0xd0 ^ key_sel, 32)) % (&n - 2u32) + 1u32)),
                    msg_len: len,
                    msg_seed: s,
                    msg_class: (if len % 11 == 0 { 1 } else { 0 }) | ((len % 6) as u8) << 4,
                    compressed: cfg & 1 == 1,
                    c1c3c2: cfg & 2 == 2,
                    k: Some(gen::hex32(&(from_be(&expand_bytes(s ^ 0x4b4b, 32)) % (&n - 1u32) + 1u32))),
                });
            }
        }
        v
    }, check_enc);

    let huge: Vec<usize> = ctx.tier.pick(vec![(1usize << 16) - 1, 1 << 16, (1 << 16) + 3, 100_000], vec![(1usize << 16) - 1, 1 << 16, (1 << 16) + 3, 100_000, (1 << 17) + 40, (1 << 18) + 8, (1 << 20) + 5]);
    let nh = r2::params().n.clone();
    ctx.listed("huge_messages", "messages of 2^16-1, 2^16, 2^16+3, 100000 bytes (thorough: up to 2^20+5), nonce injected, four configurations in rotation: exact ciphertext, independent decryption, round trip (size thresholds, chunked or parallel paths)", move || {
        huge.iter().enumerate().map(|(i, len)| EncCase {
            d: gen::hex32(&(from_be(&expand_bytes(seed ^ 0xd7, 32)) % (&nh - 2u32) + 1u32)),
            msg_len: *len,
            msg_seed: seed ^ *len as u64,
            msg_class: 0,
            compressed: i & 1 == 1,
            c1c3c2: i & 2 == 2,
            k: Some(gen::hex32(&(from_be(&expand_bytes(seed ^ 0x4b4c ^ *len as u64, 32)) % (&nh - 1u32) + 1u32))),
        }).collect::<Vec<_>>()
    }, check_enc);

    let maxlen = ctx.tier.pick(1usize << 12, 1usize << 16);
    ctx.generated("generated_fixed_k", "proptest cases with injected nonce: exact ciphertext, independent decryption, round trip", ctx.tier.pick(1_000, 30_000), move || enc_case(true, maxlen), check_enc);
    ctx.generated("generated_library_rng", "proptest cases, nonce from the library's RNG: independent decryption, round trip", ctx.tier.pick(1_500, 30_000), move || enc_case(false, maxlen), check_enc);
    ctx.generated("reference_encrypted", "ciphertexts made by the reference encryptor decrypt under the library", ctx.tier.pick(1_000, 20_000), move || enc_case(true, 600), check_ref_enc);

    ctx.exhaustive("message_equal_to_kdf_stream", "the message is chosen equal to t = KDF(x2||y2, |M|) for the case's own (d, k), so that C2 is all zero while t is not: every |M| in 1..=70 x 4 configurations: exact ciphertext, independent decryption, round trip; and the reference-made ciphertext decrypts", move || {
        let n = &r2::params().n;
        let mut v = Vec::new();
        for len in 1..=70usize {
            for cfg in 0..4u8 {
                let s = seed ^ 0x2e55 ^ ((len as u64) << 8 | cfg as u64);
                v.push(EncCase { d: gen::hex32(&(from_be(&expand_bytes(s ^ 1, 32)) % (n - 2u32) + 1u32)), msg_len: len, msg_seed: s, msg_class: 4 | ((len % 6) as u8) << 4, compressed: cfg & 1 == 1, c1c3c2: cfg & 2 == 2, k: Some(gen::hex32(&(from_be(&expand_bytes(s ^ 2, 32)) % (n - 1u32) + 1u32))) });
            }
        }
        v
    }, |c| { check_enc(c)?; check_ref_enc(c) });

    let two_byte = ctx.tier.pick(false, true);
    ctx.listed("crafted_zero_kdf", "one-byte (thorough: also two-byte) messages with a nonce k, found by walking k upwards with the reference, for which t = KDF(x2||y2, |M|) is all zero: GB/T 32918.4 step A5 sends the encryptor back to A1, so with candidates (k_bad, k_good) injected the ciphertext must be exactly the one for k_good (nothing of the abandoned attempt may leak into it); a one-byte message meets such a k once in 256 encryptions", move || {
        use rayon::prelude::*;
        let n = &r2::params().n;
        let mut v = Vec::new();
        for (j, msg_len) in [1usize, 1, 1, 1, 2].iter().enumerate() {
            if *msg_len == 2 && !two_byte {
                continue;
            }
            let d = from_be(&expand_bytes(seed ^ (0x2e50 + j as u64), 32)) % (n - 2u32) + 1u32;
            let pk = r2::g_mul(&d);
            let msg_seed = seed ^ (0x2e51 + j as u64);
            let msg = expand_bytes(msg_seed, *msg_len);
            let start = from_be(&expand_bytes(seed ^ (0x2e52 + j as u64), 24));
            let span = if *msg_len == 1 { 4096u64 } else { 1 << 19 };
            // encrypt_with_k returns None exactly when the standard demands another k
            let hit = (0..span).into_par_iter().find_first(|i| r2::encrypt_with_k(&pk, &msg, &(&start + *i)).is_none());
            if let Some(i) = hit {
                v.push(EncCase { d: gen::hex32(&d), msg_len: *msg_len, msg_seed, msg_class: ((j % 6) as u8) << 4, compressed: j & 1 == 1, c1c3c2: j & 2 == 2, k: Some(gen::hex32(&(&start + i))) });
            }
        }
        v
    }, |c| {
        if r2::encrypt_with_k(&r2::g_mul(&from_be(&c.d)), &c.msg(), &from_be(&c.k.as_ref().unwrap().0)).is_some() {
            return pass(false, "crafting-failed");
        }
        check_enc(c).map(|_| Pass { nt: true, class: format!("zero-KDF/mlen={}", c.msg_len) })
    });

    ctx.exhaustive("keys_and_nonces_with_zero_limbs", "d (resp. k) with an all-zero 64-bit limb below a non-zero limb and zero runs across limb boundaries: exact ciphertext, independent decryption, round trip (decryption multiplies C1 by d, encryption multiplies G and P by k)", move || {
        let n = &r2::params().n;
        let mut v = Vec::new();
        for (i, s) in gen::zero_limb_scalars().into_iter().enumerate() {
            if &s >= &(n - 2u32) || s.bits() == 0 {
                continue;
            }
            let other = gen::hex32(&(from_be(&expand_bytes(i as u64 ^ 0x2e4, 32)) % (n - 2u32) + 1u32));
            v.push(EncCase { d: gen::hex32(&s), msg_len: 1 + i % 60, msg_seed: i as u64, msg_class: ((i % 6) as u8) << 4, compressed: i & 1 == 1, c1c3c2: i & 2 == 2, k: Some(other.clone()) });
            v.push(EncCase { d: other, msg_len: 1 + i % 45, msg_seed: i as u64 ^ 0xff, msg_class: ((i % 6) as u8) << 4, compressed: i & 2 == 2, c1c3c2: i & 1 == 1, k: Some(gen::hex32(&s)) });
        }
        v
    }, check_enc);

    ctx.cold("cold_start_encrypt", "encrypt (nonce injected) as the first library operation of a fresh process, four configurations", move || {
        (0..4u8).map(|cfg| EncCase { d: gen::hex32(&(from_be(&expand_bytes(seed ^ 0xc05d ^ cfg as u64, 32)) % (&r2::params().n - 2u32) + 1u32)), msg_len: 20 + cfg as usize * 17, msg_seed: cfg as u64, msg_class: 0, compressed: cfg & 1 == 1, c1c3c2: cfg & 2 == 2,
            k: Some(gen::hex32(&(from_be(&expand_bytes(seed ^ 0xc05e ^ cfg as u64, 32)) % (&r2::params().n - 1u32) + 1u32))) }).collect()
    }, check_enc);
    ctx.cold("cold_start_decrypt", "decrypt of a reference-made ciphertext as the first library operation of a fresh process, four configurations", move || {
        (0..4u8).map(|cfg| EncCase { d: gen::hex32(&(from_be(&expand_bytes(seed ^ 0xc05f ^ cfg as u64, 32)) % (&r2::params().n - 2u32) + 1u32)), msg_len: 33 + cfg as usize * 9, msg_seed: cfg as u64, msg_class: 0, compressed: cfg & 1 == 1, c1c3c2: cfg & 2 == 2,
            k: Some(gen::hex32(&(from_be(&expand_bytes(seed ^ 0xc060 ^ cfg as u64, 32)) % (&r2::params().n - 1u32) + 1u32))) }).collect()
    }, check_ref_enc);

    ctx.listed("foreign_c1_edge_points", "conforming ciphertexts whose C1 is a boundary point (x next to 0, n, p, 2^256-p, powers of two, Montgomery limb patterns, y with a leading zero byte), built with [d]C1, x 4 configurations x 2 keys", move || {
        let mut v = Vec::new();
        for point in 0..edge_points().len() {
            for cfg in 0..4u8 {
                for key in 0..2u64 {
                    v.push(EdgeC1 {
                        d: gen::hex32(&(from_be(&expand_bytes(seed ^ 0xed6e ^ key, 32)) % (&r2::params().n - 2u32) + 1u32)),
                        point,
                        msg_len: 1 + (point * 7 + cfg as usize * 13) % 70,
                        msg_seed: seed ^ (point as u64) << 8 ^ cfg as u64,
                        compressed: cfg & 1 == 1,
                        c1c3c2: cfg & 2 == 2,
                    });
                }
            }
        }
        v
    }, check_edge_c1);

    ctx.listed("openssl_encrypted", "72 ciphertexts made by OpenSSL 3.0.20 (DER re-framed as 04||x||y||C3||C2) decrypt under the library and the reference", || {
        let mut v = Vec::new();
        for (key, k) in corpus::openssl()["sm2"].as_array().unwrap().iter().enumerate() {
            for enc in 0..k["encs"].as_array().unwrap().len() {
                v.push(Idx { key, enc });
            }
        }
        v
    }, |c| {
        let k = &corpus::openssl()["sm2"][c.key];
        let e = &k["encs"][c.enc];
        let d = from_be(&corpus::hexv(&k["d"]));
        let (msg, ct) = (corpus::hexv(&e["msg"]), corpus::hexv(&e["c1c3c2"]));
        ensure!(r2::decrypt(&d, &ct, false, true).as_deref() == Some(&msg[..]), "reference-vs-openssl sm2-decrypt", "reference cannot decrypt OpenSSL ciphertext {}/{}", c.key, c.enc);
        let sk = lib_sk(&d).map_err(|e| Fail { key: "entry=Sm2PrivateKey::new input=d-in-[1,n-2] outcome=rejected".into(), detail: e })?;
        let got = outcome(|| sk.decrypt(&ct, false, Sm2Model::C1C3C2));
        ensure!(got == Outcome::Ok(msg.clone()), "entry=Sm2PrivateKey::decrypt input=conforming-ciphertext outcome=failure", "OpenSSL ciphertext {}/{}: {}", c.key, c.enc, got.describe());
        pass(true, "openssl")
    });

    ctx.listed("annex_example", "GM/T 0003.5 encryption example: exact ciphertext with the Annex nonce, and decryption of the Annex ciphertext", || vec![0u8], |_| {
        let d = from_be(&hex::decode("3945208F7B2144B13F36E38AC6D39F95889393692860B51A42FB81EF4DF7C5B8").unwrap());
        let k: [u8; 32] = hex::decode("59276E27D506861A16680F3AD9C02DCCEF3CC1FA3CDBE4CE6D54B80DEAC1BC21").unwrap().try_into().unwrap();
        let want = hex::decode("0404EBFC718E8D1798620432268E77FEB6415E2EDE0E073C0F4F640ECD2E149A73E858F9D81E5430A57B36DAAB8F950A3C64E6EE6A63094D99283AFF767E124DF059983C18F809E262923C53AEC295D30383B54E39D609D160AFCB1908D0BD876621886CA989CA9C7D58087307CA93092D651EFA").unwrap();
        let pk = lib_pk(&r2::g_mul(&d)).map_err(|e| Fail { key: "entry=Sm2PublicKey::new input=valid-point outcome=rejected".into(), detail: e })?;
        let (r, _) = with_sm2_candidates(vec![k], || pk.encrypt(b"encryption standard", false, Sm2Model::C1C3C2));
        let ct = match r { Ok(Ok(v)) => v, o => return fail("entry=Sm2PublicKey::encrypt input=valid outcome=err", format!("{:?}", o.map(|x| x.map(hex::encode)))) };
        ensure!(ct == want, "entry=Sm2PublicKey::encrypt outcome=wrong-ciphertext", "Annex example: library {}", hex::encode_upper(&ct));
        let sk = lib_sk(&d).map_err(|e| Fail { key: "entry=Sm2PrivateKey::new input=d-in-[1,n-2] outcome=rejected".into(), detail: e })?;
        let got = outcome(|| sk.decrypt(&want, false, Sm2Model::C1C3C2));
        ensure!(got == Outcome::Ok(b"encryption standard".to_vec()), "entry=Sm2PrivateKey::decrypt input=conforming-ciphertext outcome=failure", "Annex ciphertext: {}", got.describe());
        pass(true, "annex")
    });

    ctx.exhaustive("kdf_klen_1_300", "util::kdf for every klen 1..=300 x |Z| in {0, 1, 64, 200}", || {
        let mut v = Vec::new();
        for klen in 1..=300usize {
            for z_len in [0usize, 1, 64, 200] {
                v.push(KdfCase { z_len, z_seed: (klen * 4 + z_len) as u64, klen });
            }
        }
        v
    }, check_kdf);

    let kh: Vec<usize> = ctx.tier.pick(vec![(1usize << 17) + 1], vec![(1 << 20) + 1, (1 << 21) + 32, 32 * 65537 + 5]);
    ctx.listed("kdf_huge_klen", "util::kdf at a few very large klen (counter beyond 2^16 blocks in the thorough tier)", move || kh.iter().map(|k| KdfCase { z_len: 64, z_seed: *k as u64, klen: *k }).collect::<Vec<_>>(), check_kdf);

    let kmax = ctx.tier.pick(1usize << 13, 1usize << 16);
    ctx.generated("kdf_generated", "util::kdf for random |Z| 0..=200 and klen up to 2^13 / 2^16 (multiples of 32 favoured)", ctx.tier.pick(3_000, 30_000), move || {
        (0..=200usize, any::<u64>(), prop_oneof![2 => 1..=400usize, 1 => (1..=(kmax / 32)).prop_map(|b| b * 32), 1 => 1..=kmax]).prop_map(|(z_len, z_seed, klen)| KdfCase { z_len, z_seed, klen })
    }, check_kdf);
}
