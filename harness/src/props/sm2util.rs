//! Glue between the big-integer reference and the gm-sm2 library types.

use gm_sm2::p256_ecc::Point;
use gm_sm2::u256::U256;
use num_bigint::BigUint;
use num_traits::{One, Zero};

use crate::refimpl::ec::Pt;
use crate::refimpl::field::{from_limbs, mod_inv, to_limbs, Fld, Fp};
use crate::refimpl::sm2 as r2;

pub fn r256() -> BigUint {
    BigUint::one() << 256
}

/// x * 2^256 mod p, as library limbs
pub fn to_mont(x: &BigUint) -> U256 {
    to_limbs(&((x << 256) % r2::p_static()))
}

/// library Montgomery limbs -> canonical integer
pub fn from_mont(l: &U256) -> BigUint {
    let p = r2::p_static();
    let rinv = mod_inv(&(r256() % p), p).unwrap();
    (from_limbs(l) * rinv) % p
}

/// Build a library point for the reference point `q` in the Jacobian representation with Z = lambda.
/// lambda = 0 is not allowed here (use `infinity_rep`).
pub fn lib_point(q: &Pt<Fp>, lambda: &BigUint) -> Point {
    let p = r2::p_static();
    match q {
        None => infinity_rep(lambda),
        Some((x, y)) => {
            let l = lambda % p;
            let l2 = (&l * &l) % p;
            let l3 = (&l2 * &l) % p;
            Point {
                x: to_mont(&((&x.v * &l2) % p)),
                y: to_mont(&((&y.v * &l3) % p)),
                z: to_mont(&l),
            }
        }
    }
}

/// (lambda^2, lambda^3, 0)
pub fn infinity_rep(lambda: &BigUint) -> Point {
    let p = r2::p_static();
    let l = lambda % p;
    let l2 = (&l * &l) % p;
    let l3 = (&l2 * &l) % p;
    Point { x: to_mont(&l2), y: to_mont(&l3), z: [0, 0, 0, 0] }
}

/// Decode a library point with big integers only (no library arithmetic involved).
/// Err(description) if a coordinate is not canonical (>= p).
pub fn ref_point(pt: &Point) -> Result<Pt<Fp>, String> {
    let p = r2::p_static();
    for (n, c) in [("x", &pt.x), ("y", &pt.y), ("z", &pt.z)] {
        if &from_limbs(c) >= p {
            return Err(format!("coordinate {} = {:x} is not reduced modulo p", n, from_limbs(c)));
        }
    }
    let z = from_mont(&pt.z);
    if z.is_zero() {
        return Ok(None);
    }
    let zi = mod_inv(&z, p).unwrap();
    let zi2 = (&zi * &zi) % p;
    let zi3 = (&zi2 * &zi) % p;
    let x = (from_mont(&pt.x) * zi2) % p;
    let y = (from_mont(&pt.y) * zi3) % p;
    Ok(Some((r2::fp(&x), r2::fp(&y))))
}

pub fn show(q: &Pt<Fp>) -> String {
    match q {
        None => "O".to_string(),
        Some((x, y)) => format!("({:?}, {:?})", x, y),
    }
}

pub fn show_lib(p: &Point) -> String {
    format!("[X={:x} Y={:x} Z={:x} (Montgomery)]", from_limbs(&p.x), from_limbs(&p.y), from_limbs(&p.z))
}

pub fn scalar_limbs(k: &BigUint) -> U256 {
    to_limbs(k)
}

/// Library private key object for d (through the public constructor).
pub fn lib_sk(d: &BigUint) -> Result<gm_sm2::key::Sm2PrivateKey, String> {
    match crate::engine::outcome(|| gm_sm2::key::Sm2PrivateKey::new(&crate::refimpl::field::to32(d))) {
        crate::engine::Outcome::Ok(k) => Ok(k),
        o => Err(o.describe()),
    }
}

/// Library public key object for the reference point (through the public byte constructor).
pub fn lib_pk(q: &Pt<Fp>) -> Result<gm_sm2::key::Sm2PublicKey, String> {
    match crate::engine::outcome(|| gm_sm2::key::Sm2PublicKey::new(&r2::encode_uncompressed(q))) {
        crate::engine::Outcome::Ok(k) => Ok(k),
        o => Err(o.describe()),
    }
}

/// is the affine reference point on the curve y^2 = x^3 + ax + b' for an arbitrary b'
pub fn on_curve_with_b(q: &Pt<Fp>, b: &Fp) -> bool {
    let pr = r2::params();
    match q {
        None => true,
        Some((x, y)) => y.sqr() == x.sqr().mul(x).add(&pr.curve.a.mul(x)).add(b),
    }
}

/// Intern a string so that it can be passed where the API wants `&'static str`.
pub fn intern(s: &str) -> &'static str {
    use std::collections::HashMap;
    use std::sync::Mutex;
    static POOL: Mutex<Option<HashMap<String, &'static str>>> = Mutex::new(None);
    let mut g = POOL.lock().unwrap();
    let m = g.get_or_insert_with(HashMap::new);
    if let Some(v) = m.get(s) {
        return v;
    }
    let leaked: &'static str = Box::leak(s.to_string().into_boxed_str());
    m.insert(s.to_string(), leaked);
    leaked
}

/// Run `f` with the SM2 RNG candidate queue set to `cands`; returns the result (panic captured)
/// and how many candidates were left unused.
pub fn with_sm2_candidates<T>(cands: Vec<[u8; 32]>, f: impl FnOnce() -> T) -> (Result<T, String>, usize) {
    gm_sm2::verif_hooks::set_candidates(Some(cands));
    let r = crate::engine::catch(f);
    let left = gm_sm2::verif_hooks::candidates_left();
    gm_sm2::verif_hooks::set_candidates(None);
    (r, left)
}

/// Pool of signer IDs (interned once): None is expressed by index 0.
pub fn id_pool() -> &'static Vec<Option<&'static str>> {
    use std::sync::OnceLock;
    static POOL: OnceLock<Vec<Option<&'static str>>> = OnceLock::new();
    POOL.get_or_init(|| {
        let mut v: Vec<Option<&'static str>> = vec![None, Some("1234567812345678"), Some(""), Some("A"), Some("alice@example.com")];
        for n in [15usize, 17, 31, 32, 33, 55, 56, 64, 100, 255, 256, 1000, 8191] {
            let s: String = (0..n).map(|i| (b'a' + (i % 26) as u8) as char).collect();
            v.push(Some(intern(&s)));
        }
        v.push(Some(intern("用户甲@例子.cn")));
        v.push(Some(intern("\u{0}\u{1}ctl\u{7f}")));
        // whitespace at the edges and blank IDs: an ID is a byte string, nothing may be trimmed or substituted
        for s in [" lead", "trail\n", "\tboth \r\n", "   ", "\n"] {
            v.push(Some(intern(s)));
        }
        // mailbox-style IDs in several capitalisations (an ID is a byte string: nothing may be folded), a string and its prefix
        for s in ["ALICE123@YAHOO.COM", "alice123@yahoo.com", "Alice@Example.COM", "alice@EXAMPLE.com", "node-2", "node", "a@B"] {
            v.push(Some(intern(s)));
        }
        v
    })
}

pub fn id_bytes(idx: usize) -> (&'static [u8], Option<&'static str>) {
    let pool = id_pool();
    let id = pool[idx % pool.len()];
    (id.unwrap_or("1234567812345678").as_bytes(), id)
}

/// Affine curve points whose coordinates sit at representation boundaries: x next to 0, p, n (both sides, so also n <= x < p),
/// 2^256 - p, powers of two (leading zero bytes / limbs), x whose Montgomery form has all-ones or all-zero limbs, and points
/// whose y has a leading zero byte. Found by walking x from the anchor until x^3 + ax + b is a square; both roots are listed.
pub fn edge_points() -> &'static Vec<(String, BigUint, BigUint)> {
    use std::sync::OnceLock;
    static V: OnceLock<Vec<(String, BigUint, BigUint)>> = OnceLock::new();
    V.get_or_init(|| {
        let pr = r2::params();
        let p = pr.p;
        let lift = |x: &BigUint| -> Option<BigUint> {
            let xf = r2::fp(x);
            xf.sqr().mul(&xf).add(&pr.curve.a.mul(&xf)).add(&pr.curve.b).sqrt_3mod4().map(|y| y.v)
        };
        let mut out: Vec<(String, BigUint, BigUint)> = Vec::new();
        let mut push = |label: String, x: &BigUint, y: &BigUint| {
            out.push((format!("{}/y", label), x.clone(), y.clone()));
            out.push((format!("{}/-y", label), x.clone(), (p - y) % p));
        };
        // walk: dir = +1 / -1, take `take` liftable abscissas
        let mut walk = |label: &str, start: BigUint, up: bool, take: usize| {
            let mut x = start;
            let mut found = 0;
            let mut steps = 0;
            while found < take && steps < 4000 {
                if &x < p {
                    if let Some(y) = lift(&x) {
                        push(format!("{}{}{}", label, if up { "+" } else { "-" }, steps), &x, &y);
                        found += 1;
                    }
                }
                if up {
                    x += 1u32;
                } else if x.is_zero() {
                    break;
                } else {
                    x -= 1u32;
                }
                steps += 1;
            }
        };
        let one = BigUint::one();
        walk("x=0", BigUint::zero(), true, 3);
        walk("x=p-1", p - 1u32, false, 4);
        walk("x=n", pr.n.clone(), true, 3);
        walk("x=n-1", &pr.n - 1u32, false, 3);
        walk("x=(n+p)/2", (&pr.n + p) >> 1, true, 2);
        walk("x=2^256-p", r256() - p, true, 2);
        walk("x=2^256-p-1", r256() - p - 1u32, false, 2);
        for e in [64u32, 128, 192, 224, 240, 248, 255] {
            walk(&format!("x=2^{}", e), &one << e, true, 1);
            walk(&format!("x=2^{}-1", e), (&one << e) - 1u32, false, 1);
        }
        // Montgomery-form limb patterns (least significant limb first); the free limbs are walked until the abscissa lifts
        let m = u64::MAX;
        let pats: [(&str, [Option<u64>; 4]); 8] = [
            ("mont=[M,M,*,*]", [Some(m), Some(m), None, None]),
            ("mont=[0,0,*,*]", [Some(0), Some(0), None, None]),
            ("mont=[*,M,M,*]", [None, Some(m), Some(m), None]),
            ("mont=[M,*,M,*]", [Some(m), None, Some(m), None]),
            ("mont=[*,*,M,*]", [None, None, Some(m), None]),
            ("mont=[M,M,M,*]", [Some(m), Some(m), Some(m), None]),
            ("mont=[*,0,0,0]", [None, Some(0), Some(0), Some(0)]),
            ("mont=[0,*,0,*]", [Some(0), None, Some(0), None]),
        ];
        for (label, pat) in pats.iter() {
            let mut found = 0;
            for t in 0..4000u64 {
                let fill = crate::engine::expand_bytes(0xed6e ^ crate::engine::hash64(label), 32);
                let mut limbs = [0u64; 4];
                for i in 0..4 {
                    limbs[i] = match pat[i] {
                        Some(v) => v,
                        None => {
                            let base = u64::from_le_bytes(fill[i * 8..i * 8 + 8].try_into().unwrap());
                            // keep the top limb below p's top limb so that the value is a residue
                            let base = if i == 3 { base >> 1 } else { base };
                            base.wrapping_add(t)
                        }
                    };
                }
                let mont = from_limbs(&limbs);
                if &mont >= p {
                    continue;
                }
                let x = from_mont(&limbs);
                if let Some(y) = lift(&x) {
                    push(label.to_string(), &x, &y);
                    found += 1;
                    if found == 2 {
                        break;
                    }
                }
            }
        }
        // abscissas for which an intermediate of the curve equation has a boundary Montgomery image: mont(x), mont(x^2), mont(x^3) next to 0 or p
        let mut seen = 0;
        for (label, x) in mont_edge_abscissas().iter() {
            if let Some(y) = lift(x) {
                push(label.clone(), x, &y);
                seen += 1;
                if seen == 12 {
                    break;
                }
            }
        }
        // plain limbs that tie with the limbs of p in some positions and differ in others (least significant limb first; None = walked until the
        // abscissa lifts): a comparison with p that walks the limbs in the wrong order, or compares halves, misjudges exactly these
        {
            let pl = to_limbs(p);
            let m = u64::MAX;
            let ties: [(&str, [Option<u64>; 4]); 8] = [
                ("limbs=[p0,>p1,*,<p3]", [Some(pl[0]), Some(pl[1] | 0x0000_0000_1234_5678), None, Some(pl[3] - 2)]),
                ("limbs=[p0,M,*,<p3]", [Some(pl[0]), Some(m), None, Some(pl[3] - 1)]),
                ("limbs=[p0,p1,p2,<p3]", [Some(pl[0]), Some(pl[1]), Some(pl[2]), None]),
                ("limbs=[*,p1,p2,p3]", [None, Some(pl[1]), Some(pl[2]), Some(pl[3])]),
                ("limbs=[M,<p1,p2,p3]", [Some(m), None, Some(pl[2]), Some(pl[3])]),
                ("limbs=[>p0?,p1,*,p3-1]", [Some(pl[0].wrapping_add(1)), Some(pl[1]), None, Some(pl[3] - 1)]),
                ("limbs=[0,0,*,p3]", [Some(0), Some(0), None, Some(pl[3])]),
                ("limbs=[p0,p1,*,0]", [Some(pl[0]), Some(pl[1]), None, Some(0)]),
            ];
            for (label, pat) in ties.iter() {
                for t in 0..4000u64 {
                    let mut limbs = [0u64; 4];
                    for i in 0..4 {
                        limbs[i] = match pat[i] {
                            Some(v) => v,
                            // walk downwards from just below the corresponding limb of p so that the value stays below p
                            None => pl[i].wrapping_sub(1 + t).wrapping_sub(if i == 1 { 0x1_0000_0000 } else { 0 }),
                        };
                    }
                    let x = from_limbs(&limbs);
                    if &x >= p {
                        continue;
                    }
                    if let Some(y) = lift(&x) {
                        push(label.to_string(), &x, &y);
                        break;
                    }
                }
            }
        }
        // y with a leading zero byte (one byte: about 1 abscissa in 128 has such a root)
        let mut x = from_limbs(&[0x1234_5678_9abc_def0, 0x0fed_cba9_8765_4321, 0x1111_2222_3333_4444, 0x5555_6666_7777_8888]);
        let mut found = 0;
        for _ in 0..20_000 {
            if let Some(y) = lift(&x) {
                let y2 = (p - &y) % p;
                if y.bits() <= 248 || y2.bits() <= 248 {
                    push("y-leading-zero-byte".to_string(), &x, &y);
                    found += 1;
                    if found == 3 {
                        break;
                    }
                }
            }
            x += 1u32;
        }
        out
    })
}

/// Field elements x for which x, x^2 or x^3 has a Montgomery image (value * 2^256 mod p) within a few units of 0 or of p, or equal to a power of two:
/// the places where a hand-written reduction after one step of the curve equation is most likely to be off. Not necessarily abscissas of curve points.
pub fn mont_edge_abscissas() -> &'static Vec<(String, BigUint)> {
    use std::sync::OnceLock;
    static V: OnceLock<Vec<(String, BigUint)>> = OnceLock::new();
    V.get_or_init(|| {
        let p = r2::p_static();
        let rinv = mod_inv(&(r256() % p), p).unwrap();
        let mut targets: Vec<(String, BigUint)> = Vec::new();
        for v in 1..=6u32 {
            targets.push((format!("{}", v), BigUint::from(v)));
            targets.push((format!("p-{}", v), p - v));
        }
        for e in [32u32, 64, 128, 192, 224] {
            targets.push((format!("2^{}", e), BigUint::one() << e));
        }
        targets.push(("2^256-p".into(), r256() - p));
        targets.push(("2^256-p-1".into(), r256() - p - 1u32));
        let cube_exp = if (p % 3u32) == BigUint::from(2u32) { Some((p * 2u32 - 1u32) / 3u32) } else { None };
        let mut out = Vec::new();
        for (name, v) in targets.iter() {
            let t = r2::fp(&(v * &rinv % p)); // the element whose Montgomery image is v
            out.push((format!("mont(x)={}", name), t.v.clone()));
            if let Some(r) = t.sqrt_any() {
                out.push((format!("mont(x^2)={}", name), r.v.clone()));
                out.push((format!("mont(x^2)={}/-x", name), (p - &r.v) % p));
            }
            if let Some(e) = &cube_exp {
                let c = t.pow(e);
                if c.sqr().mul(&c) == t {
                    out.push((format!("mont(x^3)={}", name), c.v.clone()));
                }
            }
        }
        out
    })
}

/// Points (x, y) that are NOT on the curve but satisfy a neighbouring equation y^2 = x^3 + (a + da) x + (b + db): what a curve-membership test with one
/// wrong constant, one missing reduction or one misplaced carry accepts. Abscissas: small values, values next to p, and `mont_edge_abscissas`.
pub fn near_curve_points() -> &'static Vec<(String, BigUint, BigUint)> {
    use std::sync::OnceLock;
    static V: OnceLock<Vec<(String, BigUint, BigUint)>> = OnceLock::new();
    V.get_or_init(|| {
        let pr = r2::params();
        let p = pr.p;
        let mut xs: Vec<(String, BigUint)> = Vec::new();
        for v in 1..=4u32 {
            xs.push((format!("x={}", v), BigUint::from(v)));
            xs.push((format!("x=p-{}", v), p - v));
        }
        xs.extend(mont_edge_abscissas().iter().cloned());
        let a = &pr.curve.a;
        let b = &pr.curve.b;
        let f = |v: i64| if v >= 0 { r2::fp(&BigUint::from(v as u64)) } else { r2::fp(&BigUint::from((-v) as u64)).neg() };
        // (label, a', b')
        let variants: Vec<(String, Fp, Fp)> = vec![
            ("a+1".into(), a.add(&f(1)), b.clone()),
            ("a-1".into(), a.add(&f(-1)), b.clone()),
            ("a+2".into(), a.add(&f(2)), b.clone()),
            ("a=0".into(), f(0), b.clone()),
            ("a=+3".into(), a.neg(), b.clone()),
            ("2a".into(), a.add(a), b.clone()),
            ("b+1".into(), a.clone(), b.add(&f(1))),
            ("b-1".into(), a.clone(), b.add(&f(-1))),
            ("b=0".into(), a.clone(), f(0)),
            ("-b".into(), a.clone(), b.neg()),
            ("a+1,b+1".into(), a.add(&f(1)), b.add(&f(1))),
            // a constant used in the wrong domain: plain where the Montgomery image belongs, and the other way round
            ("b*R^-1".into(), a.clone(), b.mul(&r2::fp(&mod_inv(&(r256() % p), p).unwrap()))),
            ("b*R".into(), a.clone(), b.mul(&r2::fp(&(r256() % p)))),
            ("a*R^-1".into(), a.mul(&r2::fp(&mod_inv(&(r256() % p), p).unwrap())), b.clone()),
            ("a*R".into(), a.mul(&r2::fp(&(r256() % p))), b.clone()),
        ];
        let mut out = Vec::new();
        for (xl, x) in xs.iter() {
            let xf = r2::fp(x);
            for (vl, a2, b2) in variants.iter() {
                let rhs = xf.sqr().mul(&xf).add(&a2.mul(&xf)).add(b2);
                if let Some(y) = rhs.sqrt_3mod4() {
                    if y.v.is_zero() || pr.curve.on_curve(&r2::pt(x, &y.v)) {
                        continue;
                    }
                    out.push((format!("{}/{}", xl, vl), x.clone(), y.v.clone()));
                }
            }
        }
        out
    })
}

/// Z of Q tied to Z of P for the relations 3..=8 (Q = P for odd, Q = -P for even relations): -Z (equal squares), w Z and w^2 Z with w a primitive
/// cube root of unity (equal cubes; when the field has none, 2Z). The X / Y scalings of the two representations then agree in one coordinate only.
pub fn tied_lambda(lp: &BigUint, relation: u8, p: &'static BigUint) -> BigUint {
    let cube = || -> Option<BigUint> {
        let s = Fp::new(p - 3u32, p).sqrt_any()?;
        let half = mod_inv(&BigUint::from(2u32), p)?;
        Some(((p - 1u32 + s.v) * half) % p)
    };
    match (relation - 3) / 2 {
        0 => (p - lp % p) % p,
        1 => match cube() { Some(w) => lp * w % p, None => lp * 2u32 % p },
        _ => match cube() { Some(w) => lp * &w % p * &w % p, None => lp * 3u32 % p },
    }
}

/// The reference point `q` as a library object in representation `kind`: 0 affine; 1 what the library computes itself ([k]G by g_mul, when
/// k is known — otherwise affine); 2 Z = 2; 3 pseudo-random Z; 4 Z whose Montgomery limbs are the plain integer 1 (field element R^-1); 5 Z = p - 1.
pub fn point_in_rep(q: &Pt<Fp>, k: Option<&BigUint>, kind: u8, seed: u64) -> Point {
    let p = r2::p_static();
    let rinv = mod_inv(&(r256() % p), p).unwrap();
    match (kind % 6, k) {
        (1, Some(k)) => gm_sm2::p256_ecc::g_mul(&to_limbs(k)),
        (2, _) => lib_point(q, &BigUint::from(2u32)),
        (3, _) => lib_point(q, &(crate::refimpl::field::from_be(&crate::engine::expand_bytes(seed ^ 0x2e1, 32)) % (p - 2u32) + 2u32)),
        (4, _) => lib_point(q, &rinv),
        (5, _) => lib_point(q, &(p - 1u32)),
        _ => lib_point(q, &BigUint::one()),
    }
}
