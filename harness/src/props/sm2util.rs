//! Glue between the big-integer reference and the gm-sm2 library types.

use gm_sm2::p256_ecc::Point;
use gm_sm2::u256::U256;
use num_bigint::BigUint;
use num_traits::{One, Zero};

use crate::refimpl::ec::Pt;
use crate::refimpl::field::{from_limbs, mod_inv, to_limbs, Fld, Fp};
use crate::refimpl::sm2 as r2;

pub fn r256() -> BigUint {
    BigUint::one() << 256
}

/// x * 2^256 mod p, as library limbs
pub fn to_mont(x: &BigUint) -> U256 {
    to_limbs(&((x << 256) % r2::p_static()))
}

/// library Montgomery limbs -> canonical integer
pub fn from_mont(l: &U256) -> BigUint {
    let p = r2::p_static();
    let rinv = mod_inv(&(r256() % p), p).unwrap();
    (from_limbs(l) * rinv) % p
}

/// Build a library point for the reference point `q` in the Jacobian representation with Z = lambda.
/// lambda = 0 is not allowed here (use `infinity_rep`).
pub fn lib_point(q: &Pt<Fp>, lambda: &BigUint) -> Point {
    let p = r2::p_static();
    match q {
        None => infinity_rep(lambda),
        Some((x, y)) => {
            let l = lambda % p;
            let l2 = (&l * &l) % p;
            let l3 = (&l2 * &l) % p;
            Point {
                x: to_mont(&((&x.v * &l2) % p)),
                y: to_mont(&((&y.v * &l3) % p)),
                z: to_mont(&l),
            }
        }
    }
}

/// (lambda^2, lambda^3, 0)
pub fn infinity_rep(lambda: &BigUint) -> Point {
    let p = r2::p_static();
    let l = lambda % p;
    let l2 = (&l * &l) % p;
    let l3 = (&l2 * &l) % p;
    Point { x: to_mont(&l2), y: to_mont(&l3), z: [0, 0, 0, 0] }
}

/// Decode a library point with big integers only (no library arithmetic involved).
/// Err(description) if a coordinate is not canonical (>= p).
pub fn ref_point(pt: &Point) -> Result<Pt<Fp>, String> {
    let p = r2::p_static();
    for (n, c) in [("x", &pt.x), ("y", &pt.y), ("z", &pt.z)] {
        if &from_limbs(c) >= p {
            return Err(format!("coordinate {} = {:x} is not reduced modulo p", n, from_limbs(c)));
        }
    }
    let z = from_mont(&pt.z);
    if z.is_zero() {
        return Ok(None);
    }
    let zi = mod_inv(&z, p).unwrap();
    let zi2 = (&zi * &zi) % p;
    let zi3 = (&zi2 * &zi) % p;
    let x = (from_mont(&pt.x) * zi2) % p;
    let y = (from_mont(&pt.y) * zi3) % p;
    Ok(Some((r2::fp(&x), r2::fp(&y))))
}

pub fn show(q: &Pt<Fp>) -> String {
    match q {
        None => "O".to_string(),
        Some((x, y)) => format!("({:?}, {:?})", x, y),
    }
}

pub fn show_lib(p: &Point) -> String {
    format!("[X={:x} Y={:x} Z={:x} (Montgomery)]", from_limbs(&p.x), from_limbs(&p.y), from_limbs(&p.z))
}

pub fn scalar_limbs(k: &BigUint) -> U256 {
    to_limbs(k)
}

/// Library private key object for d (through the public constructor).
pub fn lib_sk(d: &BigUint) -> Result<gm_sm2::key::Sm2PrivateKey, String> {
    match crate::engine::outcome(|| gm_sm2::key::Sm2PrivateKey::new(&crate::refimpl::field::to32(d))) {
        crate::engine::Outcome::Ok(k) => Ok(k),
        o => Err(o.describe()),
    }
}

/// Library public key object for the reference point (through the public byte constructor).
pub fn lib_pk(q: &Pt<Fp>) -> Result<gm_sm2::key::Sm2PublicKey, String> {
    match crate::engine::outcome(|| gm_sm2::key::Sm2PublicKey::new(&r2::encode_uncompressed(q))) {
        crate::engine::Outcome::Ok(k) => Ok(k),
        o => Err(o.describe()),
    }
}

/// is the affine reference point on the curve y^2 = x^3 + ax + b' for an arbitrary b'
pub fn on_curve_with_b(q: &Pt<Fp>, b: &Fp) -> bool {
    let pr = r2::params();
    match q {
        None => true,
        Some((x, y)) => y.sqr() == x.sqr().mul(x).add(&pr.curve.a.mul(x)).add(b),
    }
}

/// Intern a string so that it can be passed where the API wants `&'static str`.
pub fn intern(s: &str) -> &'static str {
    use std::collections::HashMap;
    use std::sync::Mutex;
    static POOL: Mutex<Option<HashMap<String, &'static str>>> = Mutex::new(None);
    let mut g = POOL.lock().unwrap();
    let m = g.get_or_insert_with(HashMap::new);
    if let Some(v) = m.get(s) {
        return v;
    }
    let leaked: &'static str = Box::leak(s.to_string().into_boxed_str());
    m.insert(s.to_string(), leaked);
    leaked
}

/// Run `f` with the SM2 RNG candidate queue set to `cands`; returns the result (panic captured)
/// and how many candidates were left unused.
pub fn with_sm2_candidates<T>(cands: Vec<[u8; 32]>, f: impl FnOnce() -> T) -> (Result<T, String>, usize) {
    gm_sm2::verif_hooks::set_candidates(Some(cands));
    let r = crate::engine::catch(f);
    let left = gm_sm2::verif_hooks::candidates_left();
    gm_sm2::verif_hooks::set_candidates(None);
    (r, left)
}

/// Pool of signer IDs (interned once): None is expressed by index 0.
pub fn id_pool() -> &'static Vec<Option<&'static str>> {
    use std::sync::OnceLock;
    static POOL: OnceLock<Vec<Option<&'static str>>> = OnceLock::new();
    POOL.get_or_init(|| {
        let mut v: Vec<Option<&'static str>> = vec![None, Some("1234567812345678"), Some(""), Some("A"), Some("alice@example.com")];
        for n in [15usize, 17, 31, 32, 33, 55, 56, 64, 100, 255, 256, 1000, 8191] {
            let s: String = (0..n).map(|i| (b'a' + (i % 26) as u8) as char).collect();
            v.push(Some(intern(&s)));
        }
        v.push(Some(intern("用户甲@例子.cn")));
        v.push(Some(intern("\u{0}\u{1}ctl\u{7f}")));
        v
    })
}

pub fn id_bytes(idx: usize) -> (&'static [u8], Option<&'static str>) {
    let pool = id_pool();
    let id = pool[idx % pool.len()];
    (id.unwrap_or("1234567812345678").as_bytes(), id)
}
