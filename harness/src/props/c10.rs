//! C10 — SM9 encryption round-trips, conforms to GM/T 0044.4, and is tamper-evident.

use gm_sm9::key::Sm9EncMasterKey;
use gm_sm9::fields::FieldElement;
use gm_sm9::verif_hooks as hk;
use num_bigint::BigUint;
use num_traits::One;
use proptest::prelude::*;
use serde::{Deserialize, Serialize};
use std::collections::HashMap;
use std::sync::{Arc, Mutex};

use super::multi::{self, Multi};
use super::sm9util::*;
use crate::engine::*;
use crate::gen;
use crate::refimpl::ec::Pt;
use crate::refimpl::field::{big, from_be, to32, to_limbs, Fp};
use crate::refimpl::sm3 as rsm3;
use crate::refimpl::sm9::{self as r9, F12};

pub struct Master {
    pub ke: BigUint,
    pub ppube: Pt<Fp>,
    pub g: F12,
    pub lib: Sm9EncMasterKey,
}

pub fn master(ke: &BigUint) -> Arc<Master> {
    static CACHE: Mutex<Option<HashMap<BigUint, Arc<Master>>>> = Mutex::new(None);
    if let Some(m) = CACHE.lock().unwrap().get_or_insert_with(HashMap::new).get(ke) {
        return m.clone();
    }
    let ppube = r9::p1_mul(ke);
    let g = r9::pairing(&ppube, &r9::params().p2);
    let lib = Sm9EncMasterKey { ke: to_limbs(ke), ppube: lib_g1(&ppube, &BigUint::one()) };
    let m = Arc::new(Master { ke: ke.clone(), ppube, g, lib });
    let mut c = CACHE.lock().unwrap();
    let map = c.get_or_insert_with(HashMap::new);
    if map.len() > 256 {
        map.clear();
    }
    map.insert(ke.clone(), m.clone());
    m
}

#[derive(Serialize, Deserialize, Hash, Debug, Clone, PartialEq, Eq)]
pub struct Base {
    pub ke: Hex,
    /// 0: ke as given; 1: ke := H1(ID||03) (Q_B = [h1]P1 + Ppub-e becomes a doubling); 2: ke := 2*H1; 3: ke := H1 - 1
    #[serde(default)]
    pub ke_rel: u8,
    pub id_len: usize,
    pub id_seed: u64,
    pub msg_len: usize,
    pub msg_seed: u64,
    pub r: Hex,
}

impl Base {
    fn ke(&self) -> BigUint {
        let n = &r9::params().n;
        let h1 = r9::h1(&self.id(), 0x03);
        let k = match self.ke_rel & 0x0f {
            1 => h1,
            2 => (h1 * 2u32) % n,
            3 => (h1 + n - 1u32) % n,
            // 4: the negative of the key "as given"
            4 => n - (from_be(&self.ke) % (n - 1u32) + 1u32),
            _ => from_be(&self.ke) % (n - 1u32) + 1u32,
        };
        if k == BigUint::from(0u32) { BigUint::one() } else { k }
    }
    /// the master key object handed to the library, Ppub-e in the representation selected by the high nibble of `ke_rel`
    /// (0 affine, 1 as computed by Point::g_mul, 2 Z = 2, 3 pseudo-random Z, 4 Z with Montgomery limbs [1,0,0,0])
    fn lib_master(&self, m: &Master) -> Sm9EncMasterKey {
        let mut l = m.lib;
        l.ppube = g1_in_rep(&m.ppube, Some(&m.ke), (self.ke_rel >> 4) & 7, self.id_seed ^ self.msg_seed);
        l
    }
    /// what a *sender* holds: the public parameters only — the same object with ke replaced by a placeholder when bit 7 of `ke_rel` is set
    fn lib_sender(&self, m: &Master) -> Sm9EncMasterKey {
        let mut l = self.lib_master(m);
        if self.ke_rel & 0x80 != 0 {
            l.ke = match self.msg_seed % 3 {
                0 => [0, 0, 0, 0],
                1 => [1, 0, 0, 0],
                _ => to_limbs(&(from_be(&expand_bytes(self.msg_seed ^ 0x9c, 32)) % &r9::params().n)),
            };
        }
        l
    }
    /// the user's decryption key in a representation derived from the same selector (0/1: as extracted by the library)
    fn lib_user_key(&self, key: gm_sm9::key::Sm9EncKey, de_ref: &Pt<crate::refimpl::field::Fp2>) -> gm_sm9::key::Sm9EncKey {
        match (self.ke_rel >> 4) & 7 {
            0 | 1 => key,
            k => gm_sm9::key::Sm9EncKey { de: g2_in_rep(de_ref, None, k, self.id_seed ^ 0xde), ..key },
        }
    }
    fn r(&self) -> BigUint {
        from_be(&self.r) % (&r9::params().n - 2u32) + 1u32
    }
    fn id(&self) -> Vec<u8> {
        identity(self.id_seed, self.id_len)
    }
    fn msg(&self) -> Vec<u8> {
        expand_bytes(self.msg_seed, self.msg_len.clamp(1, 255))
    }
}

fn check_encrypt(b: &Base) -> CaseResult {
    let n = &r9::params().n;
    let m = master(&b.ke());
    let (id, msg, r) = (b.id(), b.msg(), b.r());
    let Some(de_ref) = r9::enc_key(&m.ke, &id) else { return pass(false, "extraction-undefined") };
    let r2 = from_be(&expand_bytes(b.msg_seed ^ 0x1005, 32)) % (n - 2u32) + 1u32;
    let libm = b.lib_master(&m);
    let sender = b.lib_sender(&m);
    let (res, left) = with_sm9_candidates(vec![to32(&r), to32(&r2)], || sender.encrypt(&id, &msg));
    let ct = match res {
        Ok(v) => v,
        Err(p) => return fail(format!("entry=Sm9EncMasterKey::encrypt input=valid outcome=panic site={}", panic_site(&p)), p),
    };
    let consumed = 2 - left;
    ensure!(consumed >= 1, "entry=Sm9EncMasterKey::encrypt outcome=nonce-not-drawn", "no candidate consumed");
    let r_used = if consumed == 1 { &r } else { &r2 };
    let want = r9::encrypt_with_r(&m.ppube, &m.g, &id, &msg, r_used).ok_or_else(|| Fail { key: "entry=Sm9EncMasterKey::encrypt outcome=used-a-nonce-that-needs-retry".into(), detail: format!("r={:x}", r_used) })?.encode();
    if ct != want {
        let part = if ct.len() != want.len() { "length" } else if ct[..65] != want[..65] { "C1" } else if ct[65..97] != want[65..97] { "C3" } else { "C2" };
        return fail(format!("entry=Sm9EncMasterKey::encrypt outcome=wrong-ciphertext part={}", part),
            format!("ke={:x} |ID|={} |M|={} r={:x}:\nlibrary   {}\nGM/T 0044.4 {}", m.ke, id.len(), msg.len(), r_used, hex::encode(&ct), hex::encode(&want)));
    }
    // independent decryption, and the library's own
    ensure!(r9::decrypt(&de_ref, &id, &ct).as_deref() == Some(&msg[..]), "entry=Sm9EncMasterKey::encrypt outcome=not-a-GM/T-0044.4-ciphertext", "independent decryption fails");
    let key = catch(|| libm.extract_key(&id)).map_err(|p| Fail { key: "entry=Sm9EncMasterKey::extract_key outcome=panic".into(), detail: p })?.ok_or_else(|| Fail { key: "entry=Sm9EncMasterKey::extract_key input=valid outcome=none".into(), detail: "".into() })?;
    let key = b.lib_user_key(key, &de_ref);
    let back = outcome(|| key.decrypt(&id, &ct));
    ensure!(back == Outcome::Ok(msg.clone()), "entry=Sm9EncKey::decrypt input=own-ciphertext outcome=round-trip-failure", "ke={:x} |ID|={} |M|={}: {}", m.ke, id.len(), msg.len(), back.describe());
    pass(true, format!("fixed-r/{}", if msg.len() % 32 == 0 { "mlen%32=0" } else { "mlen" }))
}

#[derive(Serialize, Deserialize, Hash, Debug, Clone, PartialEq, Eq)]
pub enum Tamper {
    None,
    FlipBit(u32),
    Truncate(u16),
    Extend(u16, u8),
    OtherIdentity,
    /// the identity with the case of its ASCII letters swapped (only when it has letters): another identity
    IdentityCase,
    /// the genuine components in another order: 0 C1||C2||C3 (the 2016 draft layout), 1 C3||C1||C2 with the prefix byte kept in front, 2 C1||C3||reversed C2
    Reordered(u8),
    /// C1 = (x, y+1): off the curve; C3/C2 left alone
    C1Nudged,
    /// C1 off the curve, with C2/C3 forged consistently from the *library's* pairing value e(C1', de)
    C1OffCurveForged(u64),
    /// like C1OffCurveForged with point #i of sm9util::g1_near_curve_points (on a neighbouring equation with one constant changed, boundary abscissas)
    C1NearCurveForged(u16),
    Prefix(u8),
    /// x + p when it fits (non-canonical alias of the genuine C1)
    C1XPlusP,
    /// y + p when it fits
    C1YPlusP,
    /// a multi-byte alteration (see props/multi.rs) of region 0: C3, 1: C2, 2: the x coordinate of C1, 3: everything after the prefix byte
    Multi(u8, Multi),
    /// the ciphertext is untouched but the recipient uses the key -de (same x coordinate as de)
    NegatedKey,
    /// C1 whose coordinates are special values #i, #j of {0, 1, p-1, p, N, 2^256-1}; C3/C2 left alone ((0,0) is how some encoders write infinity)
    C1Special(u8, u8),
    /// like C1OffCurveForged, with the special coordinates #i, #j of {0, 1, p-1, 2, N mod p, 3}: (0,0) is the affine image of a normalised point at infinity
    C1SpecialForged(u8, u8),
}

#[derive(Serialize, Deserialize, Hash, Debug, Clone)]
pub struct TCase {
    pub base: Base,
    pub tamper: Tamper,
}

pub fn check_tamper(c: &TCase) -> CaseResult {
    let pr = r9::params();
    let b = &c.base;
    let m = master(&b.ke());
    let (mut id, msg, r) = (b.id(), b.msg(), b.r());
    let Some(de_ref) = r9::enc_key(&m.ke, &id) else { return pass(false, "extraction-undefined") };
    let Some(base_ct) = r9::encrypt_with_r(&m.ppube, &m.g, &id, &msg, &r) else { return pass(false, "retry-r") };
    let mut ct = base_ct.encode();
    let key = catch(|| b.lib_master(&m).extract_key(&id)).map_err(|p| Fail { key: "entry=Sm9EncMasterKey::extract_key outcome=panic".into(), detail: p })?.ok_or_else(|| Fail { key: "entry=Sm9EncMasterKey::extract_key input=valid outcome=none".into(), detail: "".into() })?;
    let key = b.lib_user_key(key, &de_ref);
    let class: &'static str;
    match &c.tamper {
        Tamper::None => class = "untouched",
        Tamper::FlipBit(i) => {
            let i = *i as usize % (ct.len() * 8);
            ct[i / 8] ^= 0x80 >> (i % 8);
            class = if i / 8 == 0 { "flip-prefix" } else if i / 8 < 65 { "flip-C1" } else if i / 8 < 97 { "flip-C3" } else { "flip-C2" };
        }
        Tamper::Truncate(l) => {
            let l = *l as usize % ct.len();
            ct.truncate(l);
            class = if l < 98 { "truncated-short" } else { "truncated" };
        }
        Tamper::Extend(n, byte) => {
            ct.extend(std::iter::repeat(*byte).take(1 + *n as usize % 400));
            class = if ct.len() > 97 + 255 { "extended-long" } else { "extended" };
        }
        Tamper::OtherIdentity => {
            id.push(0x21);
            class = "other-identity";
        }
        Tamper::Reordered(kind) => {
            if ct.len() < 98 {
                return pass(false, "too-short-to-reorder");
            }
            let (c1, c3, c2) = (ct[..65].to_vec(), ct[65..97].to_vec(), ct[97..].to_vec());
            let new = match kind % 3 {
                0 => [&c1[..], &c2[..], &c3[..]].concat(),
                1 => [&c1[..1], &c3[..], &c1[1..], &c2[..]].concat(),
                _ => { let mut r = c2.clone(); r.reverse(); [&c1[..], &c3[..], &r[..]].concat() }
            };
            if new == ct {
                return pass(false, "reordering-is-identity");
            }
            ct = new;
            class = "components-reordered";
        }
        Tamper::IdentityCase => {
            match case_variant(&id) {
                Some(v) => id = v,
                None => return pass(false, "identity-has-no-letters"),
            }
            class = "other-identity";
        }
        Tamper::C1Nudged => {
            let y = (from_be(&ct[33..65]) + 1u32) % pr.p;
            ct[33..65].copy_from_slice(&to32(&y));
            class = "C1-off-curve";
        }
        Tamper::C1OffCurveForged(_) | Tamper::C1SpecialForged(_, _) | Tamper::C1NearCurveForged(_) => {
            let (x, y) = match &c.tamper {
                Tamper::C1SpecialForged(i, j) => {
                    let vals: Vec<BigUint> = vec![BigUint::from(0u32), BigUint::one(), pr.p - 1u32, BigUint::from(2u32), &pr.n % pr.p, BigUint::from(3u32)];
                    (vals[*i as usize % vals.len()].clone(), vals[*j as usize % vals.len()].clone())
                }
                Tamper::C1OffCurveForged(seed) => (from_be(&expand_bytes(*seed, 32)) % pr.p, from_be(&expand_bytes(seed ^ 0xf0, 32)) % pr.p),
                Tamper::C1NearCurveForged(i) => {
                    let pts = g1_near_curve_points();
                    let (_, x, y) = &pts[*i as usize % pts.len()];
                    (x.clone(), y.clone())
                }
                _ => unreachable!(),
            };
            let q = Some((r9::fp(&x), r9::fp(&y)));
            if pr.g1.on_curve(&q) {
                return pass(false, "accidentally-on-curve");
            }
            // what the library's pairing computes for this non-point — the attacker's view if no curve check exists
            let c1_lib = lib_g1(&q, &BigUint::one());
            let w = match catch(|| hk::pairing(&key.de, &c1_lib).to_bytes_be()) {
                Ok(w) => w,
                Err(_) => return pass(false, "pairing-panics-on-non-point"),
            };
            let mut c1b = to32(&x).to_vec();
            c1b.extend_from_slice(&to32(&y));
            let k = rsm3::kdf(&[&c1b[..], &w[..], &id[..]].concat(), msg.len() + 32);
            let c2: Vec<u8> = msg.iter().zip(k.iter()).map(|(a, b)| a ^ b).collect();
            let c3 = r9::mac(&k[msg.len()..], &c2);
            ct = vec![4u8];
            ct.extend_from_slice(&c1b);
            ct.extend_from_slice(&c3);
            ct.extend_from_slice(&c2);
            class = "invalid-curve-forged";
        }
        Tamper::Prefix(p) => {
            if *p == 4 {
                return pass(false, "same-prefix");
            }
            ct[0] = *p;
            class = "prefix";
        }
        Tamper::C1XPlusP => {
            let x = from_be(&ct[1..33]) + pr.p;
            if x.bits() > 256 {
                return pass(false, "x+p-does-not-fit");
            }
            ct[1..33].copy_from_slice(&to32(&x));
            class = "C1-x+p";
        }
        Tamper::C1YPlusP => {
            let y = from_be(&ct[33..65]) + pr.p;
            if y.bits() > 256 {
                return pass(false, "y+p-does-not-fit");
            }
            ct[33..65].copy_from_slice(&to32(&y));
            class = "C1-x+p";
        }
        Tamper::NegatedKey => class = "negated-key",
        Tamper::C1Special(i, j) => {
            let vals: Vec<BigUint> = vec![BigUint::from(0u32), BigUint::one(), pr.p - 1u32, pr.p.clone(), pr.n.clone(), (BigUint::one() << 256) - 1u32];
            ct[1..33].copy_from_slice(&to32(&vals[*i as usize % vals.len()]));
            ct[33..65].copy_from_slice(&to32(&vals[*j as usize % vals.len()]));
            class = "C1-special-coordinates";
        }
        Tamper::Multi(region, m) => {
            let n = ct.len();
            let (lo, hi, name) = match region % 4 {
                0 => (65, 97, "multi-C3"),
                1 => (97, n, "multi-C2"),
                2 => (1, 33, "multi-C1x"),
                _ => (1, n, "multi-body"),
            };
            if !multi::apply(&mut ct[lo..hi], m) {
                return pass(false, "multi-noop");
            }
            class = name;
        }
    }
    // the reference decryptor uses the key of the identity the caller names
    let negated = matches!(c.tamper, Tamper::NegatedKey);
    let de_for = if negated { pr.g2.neg(&de_ref) } else { de_ref };
    let want = r9::decrypt(&de_for, &id, &ct);
    let key = if negated { gm_sm9::key::Sm9EncKey { de: key.de.point_neg(), ..key } } else { key };
    let got = outcome(|| key.decrypt(&id, &ct));
    match (&got, &want) {
        (Outcome::Panic(p), _) => return fail(format!("entry=Sm9EncKey::decrypt input={} outcome=panic", class), format!("tamper={:?} |ct|={}: {}", c.tamper, ct.len(), p)),
        (Outcome::Ok(mm), Some(w)) => ensure!(mm == w && *mm == msg, "entry=Sm9EncKey::decrypt outcome=wrong-plaintext", "tamper={:?}: {} vs {}", c.tamper, hexs::hx(mm), hexs::hx(w)),
        (Outcome::Err(_), None) => {}
        (Outcome::Ok(mm), None) => return fail(format!("entry=Sm9EncKey::decrypt input={} outcome=accepted-invalid", class), format!("tamper={:?} ct={}: library returns plaintext {} (original {}), GM/T 0044.4 decryption reports an error", c.tamper, hexs::hx(&ct), hexs::hx(mm), hexs::hx(&msg))),
        (Outcome::Err(e), Some(_)) => return fail(format!("entry=Sm9EncKey::decrypt input={} outcome=rejected-valid", class), format!("tamper={:?}: {}", c.tamper, e)),
    }
    pass(want.is_none(), class)
}

/// ciphertexts made by the reference must decrypt
fn check_ref_encrypted(b: &Base) -> CaseResult {
    let m = master(&b.ke());
    let (id, msg, r) = (b.id(), b.msg(), b.r());
    if r9::enc_key(&m.ke, &id).is_none() {
        return pass(false, "extraction-undefined");
    }
    let Some(ct) = r9::encrypt_with_r(&m.ppube, &m.g, &id, &msg, &r) else { return pass(false, "retry-r") };
    let key = catch(|| m.lib.extract_key(&id)).map_err(|p| Fail { key: "entry=Sm9EncMasterKey::extract_key outcome=panic".into(), detail: p })?.ok_or_else(|| Fail { key: "entry=Sm9EncMasterKey::extract_key input=valid outcome=none".into(), detail: "".into() })?;
    let got = outcome(|| key.decrypt(&id, &ct.encode()));
    ensure!(got == Outcome::Ok(msg.clone()), "entry=Sm9EncKey::decrypt input=conforming-ciphertext outcome=failure", "ke={:x} |ID|={} |M|={}: {}", m.ke, id.len(), msg.len(), got.describe());
    pass(true, "reference-encrypted")
}

#[derive(Serialize, Deserialize, Hash, Debug, Clone)]
pub struct EdgeC1 {
    pub point: usize,
    pub id_len: usize,
    pub msg_len: usize,
}

/// a conforming ciphertext whose C1 is a boundary point of G1 (coordinates next to 0, N, p, powers of two, special limb patterns)
fn check_edge_c1(c: &EdgeC1) -> CaseResult {
    let eps = g1_edge_points();
    let (label, x, y) = &eps[c.point % eps.len()];
    let m = master(&BigUint::from(0x1234_5678u64));
    let id = expand_bytes(c.point as u64 ^ 0xed10, c.id_len.max(1));
    let msg = expand_bytes(c.point as u64 ^ 0xed11, c.msg_len.clamp(1, 255));
    let Some(de_ref) = r9::enc_key(&m.ke, &id) else { return pass(false, "extraction-undefined") };
    let c1 = Some((r9::fp(x), r9::fp(y)));
    let Some(w) = r9::encrypt_to_c1(&de_ref, &id, &c1, &msg) else { return pass(false, "retry") };
    let ct = w.encode();
    if r9::decrypt(&de_ref, &id, &ct).as_deref() != Some(&msg[..]) {
        return pass(false, "reference-disagrees-with-itself");
    }
    let key = catch(|| m.lib.extract_key(&id)).map_err(|p| Fail { key: "entry=Sm9EncMasterKey::extract_key outcome=panic".into(), detail: p })?.ok_or_else(|| Fail { key: "entry=Sm9EncMasterKey::extract_key input=valid outcome=none".into(), detail: "".into() })?;
    let got = outcome(|| key.decrypt(&id, &ct));
    ensure!(got == Outcome::Ok(msg.clone()), "entry=Sm9EncKey::decrypt input=conforming-ciphertext outcome=failure", "C1 = edge point {} x={:x} y={:x} |ID|={} |M|={} ct={}: {}", label, x, y, id.len(), msg.len(), hex::encode(&ct), got.describe());
    pass(true, "edge-C1")
}

fn base_strategy() -> impl Strategy<Value = Base> {
    let n = r9::params().n.clone();
    (
        prop_oneof![4 => (0u64..6).prop_map(|i| gen::hex32(&(BigUint::from(i) * 0x0fed_cba9_8765_4321u64))), 1 => gen::scalar256(&n)],
        prop_oneof![4 => 1..=16usize, 1 => 0..=64usize],
        any::<u64>(),
        prop_oneof![3 => 1..=255usize, 1 => (1..=7usize).prop_map(|b| b * 32)],
        any::<u64>(),
        gen::scalar256(&n),
    )
        .prop_map(|(ke, id_len, id_seed, msg_len, msg_seed, r)| Base { ke, ke_rel: ((msg_seed % 5) as u8) << 4 | (((msg_seed >> 8) & 1) as u8) << 7, id_len, id_seed, msg_len, msg_seed, r })
}

pub fn tamper_strategy() -> impl Strategy<Value = Tamper> {
    prop_oneof![
        6 => any::<u32>().prop_map(Tamper::FlipBit),
        3 => any::<u16>().prop_map(Tamper::Truncate),
        2 => (any::<u16>(), any::<u8>()).prop_map(|(n, b)| Tamper::Extend(n, b)),
        1 => Just(Tamper::OtherIdentity),
        1 => Just(Tamper::C1Nudged),
        3 => any::<u64>().prop_map(Tamper::C1OffCurveForged),
        2 => any::<u16>().prop_map(Tamper::C1NearCurveForged),
        2 => (0..3u8).prop_map(Tamper::Reordered),
        2 => any::<u8>().prop_map(Tamper::Prefix),
        1 => Just(Tamper::C1XPlusP),
        1 => Just(Tamper::C1YPlusP),
        1 => Just(Tamper::NegatedKey),
        1 => (0..6u8, 0..6u8).prop_map(|(i, j)| Tamper::C1Special(i, j)),
        1 => (0..6u8, 0..6u8).prop_map(|(i, j)| Tamper::C1SpecialForged(i, j)),
        1 => Just(Tamper::None),
        6 => (prop_oneof![3 => Just(0u8), 1 => Just(1u8), 1 => Just(2u8), 1 => Just(3u8)], multi::strategy()).prop_map(|(r, m)| Tamper::Multi(r, m)),
    ]
}

fn fixed_bases(seed: u64, count: usize) -> Vec<Base> {
    (0..count)
        .map(|i| {
            let s = seed.wrapping_mul(9001) + i as u64;
            Base { ke: gen::hex32(&BigUint::from(0x1234_5678u64 + (i as u64 % 2))), ke_rel: ((i % 5) as u8) << 4, id_len: [3usize, 5, 0, 17][i % 4], id_seed: s ^ 1, msg_len: [20usize, 1, 32, 7][i % 4], msg_seed: s ^ 2, r: Hex(expand_bytes(s ^ 3, 32)) }
        })
        .collect()
}

pub fn run(ctx: &Ctx) {
    ctx.set_rule(
        "encryption cases are (ke — for half of the cases the encrypting object carries a placeholder instead of ke: a sender knows only Ppub-e —, representation of Ppub-e and of the user key de: affine / as computed by the library / Z = 2 / random Z / Z with Montgomery limbs [1,0,0,0], identity, message of 1..255 bytes, r): every message length 1..=255 with r injected through the RNG hook, plus generated master keys / identities; tampering cases are (reference-made ciphertext, tampering): \
         every single-bit flip incl. the prefix byte (sampled in the quick tier, all in the thorough tier), every truncation length, extensions (also beyond 97+255 bytes), another identity, C1 nudged off the curve, C1 replaced by an off-curve point with \
         C3/C2 forged from the library's own pairing value on that non-point (the invalid-curve forgery), every other prefix byte, the x+p alias of C1, multi-byte alterations of C3 / C2 / C1.x that preserve the xor, the sum or the multiset of the bytes or words (a folded or partial MAC comparison accepts them), wholesale replacements of C3. Oracles: exact equality with the reference encryptor (C1 || C3 || C2, MAC(K2, C2) = SM3(C2 || K2), \
         K = KDF(C1 || w || ID, |M| + 32)); independent decryption; round trip; reference-made and Annex ciphertexts decrypt, also with C1 a boundary point of G1; for tamperings the reference decryptor decides, a panic is a violation. Non-trivial: fixed-r comparison, or a rejected tampering.",
    );
    ctx.assume("reference encryptor/decryptor (harness/src/refimpl/sm9.rs) reproduce the GM/T 0044.5 Annex C ciphertext (KDF/XOR variant) bit for bit");
    ctx.assume("the wire format is the library's: 04 || x || y || C3 || C2 (the standard leaves the encoding of C1 to the application); hooks: RNG candidate override, pairing wrapper (only to forge the invalid-curve ciphertext)");

    ctx.listed("annex_example", "GM/T 0044.5 Annex C: exact ciphertext for the published r, and decryption of the published ciphertext", || vec![0u8], |_| {
        let ke = big("0001EDEE 3778F441 F8DEA3D9 FA0ACC4E 07EE36C9 3F9A0861 8AF4AD85 CEDE1C22");
        let m = master(&ke);
        let r: [u8; 32] = to32(&big("0000AAC0 541779C8 FC45E3E2 CB25C12B 5D2576B2 129AE8BB 5EE2CBE5 EC9E785C"));
        let want = hex::decode("042445471164490618E1EE20528FF1D545B0F14C8BCAA44544F03DAB5DAC07D8FF42FFCA97D57CDDC05EA405F2E586FEB3A6930715532B8000759F13059ED59AC0BA672387BCD6DE5016A158A52BB2E7FC429197BCAB70B25AFEE37A2B9DB9F3671B5F5B0E951489682F3E64E1378CDD5DA9513B1C").unwrap();
        let key = catch(|| m.lib.extract_key(b"Bob")).map_err(|p| Fail { key: "entry=Sm9EncMasterKey::extract_key outcome=panic".into(), detail: p })?.unwrap();
        let got = outcome(|| key.decrypt(b"Bob", &want));
        ensure!(got == Outcome::Ok(b"Chinese IBE standard".to_vec()), "entry=Sm9EncKey::decrypt input=conforming-ciphertext outcome=failure", "Annex C ciphertext: {}", got.describe());
        let (res, _) = with_sm9_candidates(vec![r], || m.lib.encrypt(b"Bob", b"Chinese IBE standard"));
        let ct = res.map_err(|p| Fail { key: "entry=Sm9EncMasterKey::encrypt input=valid outcome=panic".into(), detail: p })?;
        ensure!(ct == want, "entry=Sm9EncMasterKey::encrypt outcome=wrong-ciphertext part=annex", "Annex C: library {}", hex::encode_upper(&ct));
        pass(true, "annex")
    });

    let seed = ctx.seed;
    ctx.exhaustive("message_lengths_1_255", "every message length 1..=255 with r injected: exact ciphertext, independent decryption, round trip", move || {
        (1..=255usize).map(|l| Base { ke: gen::hex32(&BigUint::from(0x1234_5678u64)), ke_rel: ((l % 5) as u8) << 4 | ((l / 5 % 2) as u8) << 7, id_len: 1 + l % 11, id_seed: seed ^ l as u64, msg_len: l, msg_seed: seed.wrapping_mul(17) ^ l as u64, r: Hex(expand_bytes(seed ^ 0x1010 ^ l as u64, 32)) }).collect()
    }, check_encrypt);
    let huge: Vec<usize> = ctx.tier.pick(vec![(1usize << 16) - 1, 1 << 16, (1 << 16) + 3, 100_000], vec![(1usize << 16) - 1, 1 << 16, (1 << 16) + 3, 100_000, (1 << 17) + 40, (1 << 18) + 8, (1 << 20) + 5]);
    ctx.listed("huge_messages", "messages of 2^16-1, 2^16, 2^16+3, 100000 bytes (thorough: up to 2^20+5) with r injected: exact ciphertext, independent decryption, round trip (size thresholds, chunked or parallel paths)", move || {
        huge.iter().map(|l| Base { ke: gen::hex32(&BigUint::from(0x1234_5679u64)), ke_rel: 0, id_len: 5, id_seed: seed ^ *l as u64, msg_len: *l, msg_seed: seed.wrapping_mul(19) ^ *l as u64, r: Hex(expand_bytes(seed ^ 0x1011 ^ *l as u64, 32)) }).collect::<Vec<_>>()
    }, check_encrypt);
    ctx.listed("structured_identities", "recipient identities as applications write them (names, mailbox-style strings in several capitalisations, non-ASCII text, blanks at the edges, the empty string): exact ciphertext with r injected, independent decryption, round trip; and decryption attempted under the identity with the case of its letters swapped, which must fail", move || {
        let mut v = Vec::new();
        for i in 0..structured_identities().len() {
            let b = Base { ke: gen::hex32(&BigUint::from(0x1234_567bu64)), ke_rel: ((i % 5) as u8) << 4, id_len: STRUCTURED_ID + i, id_seed: 0, msg_len: 10 + i, msg_seed: seed ^ (0x51d0 + i as u64), r: Hex(expand_bytes(seed ^ 0x1013 ^ i as u64, 32)) };
            v.push(TCase { base: b.clone(), tamper: Tamper::None });
            v.push(TCase { base: Base { ke_rel: 0, ..b }, tamper: Tamper::IdentityCase });
        }
        v
    }, |c: &TCase| if c.tamper == Tamper::None { check_encrypt(&c.base) } else { check_tamper(c) });

    ctx.listed("long_identities", "recipient identities of 122..129, 250..257, 1000, 4096, 8191, 8192, 65535, 65536, 70000 bytes with r injected: exact ciphertext, independent decryption, round trip (an identity is a byte string of any length)", move || {
        [122usize, 123, 127, 128, 129, 250, 251, 255, 256, 257, 1000, 4096, 8191, 8192, 65535, 65536, 70_000].iter().enumerate().map(|(i, l)| Base { ke: gen::hex32(&BigUint::from(0x1234_567au64)), ke_rel: ((i % 5) as u8) << 4, id_len: *l, id_seed: seed ^ (0x1d00 + i as u64), msg_len: 20 + i, msg_seed: seed.wrapping_mul(23) ^ i as u64, r: Hex(expand_bytes(seed ^ 0x1012 ^ i as u64, 32)) }).collect::<Vec<_>>()
    }, check_encrypt);
    let nrel = ctx.tier.pick(6u64, 40u64);
    ctx.listed("master_key_related_to_h1", "master keys crafted from the identity: ke = H1(ID||03) (Q_B becomes a doubling), ke = 2*H1, ke = H1 - 1: exact ciphertext and round trip; reference ciphertext decrypts", move || {
        let mut v = Vec::new();
        for i in 0..nrel {
            for rel in 1..=3u8 {
                v.push(Base { ke: gen::hex32(&BigUint::one()), ke_rel: rel | ((i % 5) as u8) << 4, id_len: 1 + (i as usize % 20), id_seed: seed ^ (0x5e1 + i), msg_len: 1 + (i as usize * 11) % 60, msg_seed: seed ^ i, r: Hex(expand_bytes(seed ^ 0x5e2 ^ i, 32)) });
            }
        }
        v
    }, |b| { check_encrypt(b)?; check_ref_encrypted(b) });

    let two_byte = ctx.tier.pick(false, true);
    ctx.listed("crafted_zero_k1", "one- and two-byte messages with an r (found by walking r upwards with the reference) for which K1 = KDF(...)[..|M|] is all zero: GM/T 0044.4 step A6 sends the encryptor back to A2, so with candidates (r_bad, r_good) injected the ciphertext must be the one for r_good; a one-byte message meets such an r once in 256 encryptions", move || {
        use rayon::prelude::*;
        let mut v = Vec::new();
        for (j, msg_len) in [1usize, 1, 1, 2].iter().enumerate() {
            let b0 = Base { ke: gen::hex32(&BigUint::from(0x1234_5678u64 - 1)), ke_rel: 0, id_len: 2 + j, id_seed: seed ^ (0x2e70 + j as u64), msg_len: *msg_len, msg_seed: seed ^ (0x2e71 + j as u64), r: Hex(vec![0; 32]) };
            let m = master(&b0.ke());
            let (id, msg) = (b0.id(), b0.msg());
            let start = from_be(&expand_bytes(seed ^ (0x2e72 + j as u64), 24));
            let span = if *msg_len == 1 { 4096u64 } else { 1 << 18 };
            if *msg_len == 2 && !two_byte {
                continue; // the two-byte search needs about 2^16 reference encryptions: thorough tier only
            }
            let hit = (0..span).into_par_iter().find_first(|i| r9::encrypt_with_r(&m.ppube, &m.g, &id, &msg, &(&start + *i)).is_none());
            if let Some(i) = hit {
                let mut b = b0.clone();
                b.r = gen::hex32(&(&start + i - 1u32)); // Base::r() maps the stored value v to v mod (N-2) + 1
                v.push(b);
            }
        }
        v
    }, |b| {
        let m = master(&b.ke());
        if r9::encrypt_with_r(&m.ppube, &m.g, &b.id(), &b.msg(), &b.r()).is_some() {
            return pass(false, "crafting-failed");
        }
        check_encrypt(b).map(|_| Pass { nt: true, class: format!("zero-K1/mlen={}", b.msg_len) })
    });

    ctx.generated("generated_fixed_r", "proptest (ke, identity, message, r): exact ciphertext", ctx.tier.pick(250, 8_000), base_strategy, check_encrypt);
    ctx.generated("reference_encrypted", "ciphertexts made by the reference decrypt under the library", ctx.tier.pick(300, 8_000), base_strategy, check_ref_encrypted);

    let nb = ctx.tier.pick(2usize, 16usize);
    let step = ctx.tier.pick(5usize, 1usize);
    ctx.exhaustive("bit_flips", "single-bit flips of each base ciphertext: every 5th bit (rotating offset) in the quick tier, all in the thorough tier", move || {
        let mut v = Vec::new();
        for (bi, b) in fixed_bases(seed, nb).into_iter().enumerate() {
            let len = 97 + b.msg_len.clamp(1, 255);
            for i in (((seed as usize + bi) % step)..len * 8).step_by(step) {
                v.push(TCase { base: b.clone(), tamper: Tamper::FlipBit(i as u32) });
            }
            for i in 0..8u32 {
                v.push(TCase { base: b.clone(), tamper: Tamper::FlipBit(i) });
            }
        }
        v
    }, check_tamper);

    let nb2 = ctx.tier.pick(2usize, 16usize);
    ctx.listed("c1_near_curve_points", "C1 replaced by every point of the G1 near-curve family — off y^2 = x^3 + 5 but on a neighbouring equation (b = 4, 6, 0, -5, 10, 5R, 5R^-1; a' = 1, -1, -3), abscissas 1..4, p-4..p-1 and those where the Montgomery image of x, x^2 or x^3 is within 6 of 0 or p, a power of two or 2^256-p — with C2/C3 forged for what the library's own pairing computes on that non-point: an invalid-curve forgery aimed at a membership test that is wrong in one constant, reduction or carry", move || {
        let mut v = Vec::new();
        for b in fixed_bases(seed ^ 0x4e, 1) {
            for i in 0..g1_near_curve_points().len() {
                v.push(TCase { base: b.clone(), tamper: Tamper::C1NearCurveForged(i as u16) });
            }
        }
        v
    }, check_tamper);

    ctx.exhaustive("truncations_prefixes_extensions", "every truncation length, every prefix byte, extensions by 1..4 and to beyond 352 bytes, other identity, nudged / x+p C1 — per base", move || {
        let mut v = Vec::new();
        for b in fixed_bases(seed ^ 0x55, nb2) {
            let len = 97 + b.msg_len.clamp(1, 255);
            for l in 0..len as u16 {
                v.push(TCase { base: b.clone(), tamper: Tamper::Truncate(l) });
            }
            for p in (0..=255u8).step_by(3) {
                v.push(TCase { base: b.clone(), tamper: Tamper::Prefix(p) });
            }
            for n in [0u16, 1, 2, 3, 254, 255, 256, 300] {
                v.push(TCase { base: b.clone(), tamper: Tamper::Extend(n, 0x5c) });
            }
            for t in [Tamper::None, Tamper::OtherIdentity, Tamper::C1Nudged, Tamper::C1XPlusP, Tamper::Reordered(0), Tamper::Reordered(1), Tamper::Reordered(2)] {
                v.push(TCase { base: b.clone(), tamper: t });
            }
            for j in 0..6u64 {
                v.push(TCase { base: b.clone(), tamper: Tamper::C1OffCurveForged(j) });
            }
            for i in 0..6u8 {
                for j in 0..6u8 {
                    v.push(TCase { base: b.clone(), tamper: Tamper::C1Special(i, j) });
                    v.push(TCase { base: b.clone(), tamper: Tamper::C1SpecialForged(i, j) });
                }
            }
        }
        v
    }, check_tamper);

    ctx.listed("related_key_sequences", "on one thread inside one case: decrypt with -de (must fail), then with de (must succeed), then -de again; encrypt + decrypt under ke, N-ke, ke, ke+1 — anything the library remembers between calls (memoised pairing values) is carried over", move || {
        let mut v: Vec<Vec<TCase>> = Vec::new();
        for b in fixed_bases(seed ^ 0x5e9, 3) {
            v.push(vec![
                TCase { base: b.clone(), tamper: Tamper::NegatedKey }, TCase { base: b.clone(), tamper: Tamper::None }, TCase { base: b.clone(), tamper: Tamper::NegatedKey },
                TCase { base: b.clone(), tamper: Tamper::None }, TCase { base: b.clone(), tamper: Tamper::FlipBit(70 * 8) }, TCase { base: b.clone(), tamper: Tamper::NegatedKey },
            ]);
            let mut neg = b.clone();
            neg.ke_rel = 4 | (b.ke_rel & 0xf0);
            v.push(vec![TCase { base: b.clone(), tamper: Tamper::None }, TCase { base: neg.clone(), tamper: Tamper::None }, TCase { base: b.clone(), tamper: Tamper::None }, TCase { base: neg.clone(), tamper: Tamper::NegatedKey }, TCase { base: b.clone(), tamper: Tamper::NegatedKey }]);
        }
        v
    }, |steps: &Vec<TCase>| seq(steps, |c| { check_tamper(c)?; if matches!(c.tamper, Tamper::None) { check_encrypt(&c.base) } else { pass(true, "") } }));

    let zl_step = ctx.tier.pick(6usize, 1usize);
    ctx.listed("nonces_with_zero_limbs", "r with an all-zero 64-bit limb below a non-zero limb (every 6th pattern in the quick tier): exact ciphertext, round trip", move || {
        let n = &r9::params().n;
        gen::zero_limb_scalars().into_iter().enumerate().filter(|(i, k)| i % zl_step == 0 && k < &(n - 1u32) && k > &BigUint::one())
            .map(|(i, k)| Base { ke: gen::hex32(&BigUint::from(0x1234_5678u64)), ke_rel: ((i % 5) as u8) << 4, id_len: 3, id_seed: seed ^ 0x2e2, msg_len: 11, msg_seed: seed ^ i as u64, r: gen::hex32(&(&k - 1u32)) }).collect::<Vec<_>>()
    }, check_encrypt);

    ctx.cold("cold_start_encrypt", "SM9 encrypt (r injected) as the first library operation of a fresh process", move || fixed_bases(seed ^ 0xc10d, 2), check_encrypt);
    ctx.cold("cold_start_decrypt", "SM9 decrypt as the first library operation of a fresh process: untouched, C3 / C2 bit flips, a cancelling C3 alteration, another identity", move || {
        let mut v = Vec::new();
        for b in fixed_bases(seed ^ 0xc10e, 2) {
            for t in [Tamper::None, Tamper::FlipBit(66 * 8), Tamper::FlipBit(98 * 8 + 1), Tamper::Multi(0, Multi::XorPair(0, 1, 1)), Tamper::OtherIdentity] {
                v.push(TCase { base: b.clone(), tamper: t });
            }
        }
        v
    }, check_tamper);

    ctx.listed("foreign_c1_edge_points", "conforming ciphertexts whose C1 is a boundary point of G1 (x next to 0, N, p, 2^256-p, powers of two, Montgomery limb patterns, y with a leading zero byte), w = e(C1, de) from the reference pairing", || {
        (0..g1_edge_points().len()).map(|point| EdgeC1 { point, id_len: 1 + point % 9, msg_len: 1 + (point * 7) % 50 }).collect()
    }, check_edge_c1);

    let nbm = ctx.tier.pick(1usize, 8usize);
    let dense = ctx.tier.pick(false, true);
    ctx.exhaustive("c3_multi_byte_alterations", "alterations of C3 that keep the xor / sum / multiset of its bytes or words (byte pairs at word distances in the quick tier, all pairs in the thorough tier, x 3 masks; sum-preserving pairs, rotations, word shuffles, partial keeps), 400 wholesale replacements; the word-distance family on C2 — for each base", move || {
        let mut v = Vec::new();
        for b in fixed_bases(seed ^ 0x66, nbm) {
            for m in multi::family(32, dense, 400) {
                v.push(TCase { base: b.clone(), tamper: Tamper::Multi(0, m) });
            }
            for m in multi::family(b.msg_len.clamp(1, 255), false, 8) {
                v.push(TCase { base: b.clone(), tamper: Tamper::Multi(1, m) });
            }
        }
        v
    }, check_tamper);

    let nal = ctx.tier.pick(12usize, 60usize);
    ctx.listed("noncanonical_c1_aliases", "x+p and y+p encodings of the genuine C1 (each fits in 32 bytes for about 29% of the coordinates) over many bases", move || {
        let mut v = Vec::new();
        for b in fixed_bases(seed ^ 0x77, nal) {
            v.push(TCase { base: b.clone(), tamper: Tamper::C1XPlusP });
            v.push(TCase { base: b.clone(), tamper: Tamper::C1YPlusP });
        }
        v
    }, check_tamper);

    ctx.generated("generated_tamperings", "proptest (base, tampering)", ctx.tier.pick(300, 8_000), || (base_strategy(), tamper_strategy()).prop_map(|(base, tamper)| TCase { base, tamper }), check_tamper);
}
