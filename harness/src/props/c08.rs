//! C08 — ZUC keystream matches the specification however it is requested.

use proptest::prelude::*;
use serde::{Deserialize, Serialize};

use crate::engine::*;
use crate::refimpl::zuc as rzuc;

#[derive(Serialize, Deserialize, Hash, Debug, Clone)]
pub struct Split {
    pub key: Hex,
    pub iv: Hex,
    /// sizes of successive keystream requests on one generator
    pub requests: Vec<u32>,
}

fn arr16(b: &[u8]) -> [u8; 16] {
    let mut a = [0u8; 16];
    a.copy_from_slice(&b[..16]);
    a
}

pub fn check_split(c: &Split) -> CaseResult {
    let (key, iv) = (arr16(&c.key), arr16(&c.iv));
    let total: usize = c.requests.iter().map(|r| *r as usize).sum();
    let want = rzuc::keystream(&key, &iv, total);
    let got = catch(|| {
        let mut z = gm_zuc::ZUC::new(&key, &iv);
        let mut out: Vec<u32> = Vec::with_capacity(total);
        let mut lens = Vec::new();
        for r in &c.requests {
            let v = z.generate_keystream(*r as usize);
            lens.push(v.len());
            out.extend_from_slice(&v);
        }
        (out, lens)
    });
    let (out, lens) = match got {
        Ok(v) => v,
        Err(p) => return fail("entry=ZUC::generate_keystream outcome=panic", p),
    };
    for (i, (l, r)) in lens.iter().zip(c.requests.iter()).enumerate() {
        ensure!(*l == *r as usize, "entry=ZUC::generate_keystream outcome=wrong-count", "request #{} asked for {} words, got {}", i, r, l);
    }
    if out != want {
        let first = out.iter().zip(want.iter()).position(|(a, b)| a != b).unwrap_or(0);
        return fail(
            "entry=ZUC::generate_keystream outcome=wrong-keystream",
            format!("key={} iv={} requests={:?}: first difference at word {} (library {:08x}, specification {:08x})",
                hex::encode(key), hex::encode(iv), &c.requests[..c.requests.len().min(20)], first, out[first], want[first]),
        );
    }
    // metamorphic: identical to a single request on a fresh generator
    let single = catch(|| gm_zuc::ZUC::new(&key, &iv).generate_keystream(total)).map_err(|p| Fail { key: "entry=ZUC::generate_keystream outcome=panic".into(), detail: p })?;
    ensure!(single == out, "entry=ZUC::generate_keystream outcome=split-dependent", "split {:?} differs from a single request of {}", c.requests, total);
    let zero = c.requests.iter().any(|r| *r == 0);
    let nt = c.requests.len() >= 2 || zero || total > 2;
    pass(nt, format!("reqs={}{}{}", c.requests.len().min(9), if zero { "/zero" } else { "" }, if total > 2000 { "/long" } else { "" }))
}

fn key_iv() -> impl Strategy<Value = (Hex, Hex)> {
    let v16 = || {
        prop_oneof![
            5 => prop::array::uniform16(any::<u8>()).prop_map(|a| a.to_vec()),
            1 => Just(vec![0u8; 16]),
            1 => Just(vec![0xFFu8; 16]),
            1 => (0..128usize).prop_map(|i| { let mut v = vec![0u8; 16]; v[i / 8] = 0x80 >> (i % 8); v }),
        ]
    };
    (v16().prop_map(Hex), v16().prop_map(Hex))
}

/// all compositions of n into positive parts, in a fixed order
fn compositions(n: u32) -> Vec<Vec<u32>> {
    if n == 0 {
        return vec![vec![]];
    }
    let mut out = Vec::new();
    for first in 1..=n {
        for mut rest in compositions(n - first) {
            let mut v = vec![first];
            v.append(&mut rest);
            out.push(v);
        }
    }
    out
}

/// One request of `words` words (2^27 and more: the bit count of the request no longer fits 32 bits), then a small one on the same generator.
/// Compared piecewise (2^20 words at a time, so that no second copy is held) with the same stream drawn in pieces from a second generator of the
/// library — the property's own statement — whose first 4096 words are anchored on the reference.
#[derive(Serialize, Deserialize, Hash, Debug, Clone)]
pub struct Giant {
    pub words: u64,
    pub seed: u64,
}

pub fn check_giant(c: &Giant) -> CaseResult {
    let (key, iv) = (arr16(&expand_bytes(c.seed ^ 0x61a, 16)), arr16(&expand_bytes(c.seed ^ 0x61b, 16)));
    let n = c.words as usize;
    let mut big = gm_zuc::ZUC::new(&key, &iv);
    let out = match catch(std::panic::AssertUnwindSafe(|| big.generate_keystream(n))) {
        Ok(v) => v,
        Err(p) => return fail("entry=ZUC::generate_keystream input=giant-request outcome=panic", format!("{} words: {}", n, p)),
    };
    ensure!(out.len() == n, "entry=ZUC::generate_keystream outcome=wrong-count", "one request for {} words returned {}", n, out.len());
    let want = rzuc::keystream(&key, &iv, 4096);
    ensure!(out[..4096] == want[..], "entry=ZUC::generate_keystream outcome=wrong-keystream", "a request for {} words: the first 4096 differ from the specification", n);
    let mut pieces = gm_zuc::ZUC::new(&key, &iv);
    let mut pos = 0usize;
    while pos < n {
        let step = (1usize << 20).min(n - pos);
        let v = pieces.generate_keystream(step);
        if v[..] != out[pos..pos + step] {
            let off = v.iter().zip(out[pos..].iter()).position(|(a, b)| a != b).unwrap_or(0);
            return fail("entry=ZUC::generate_keystream outcome=split-dependent", format!("one request of {} words differs from the same stream drawn in 2^20-word pieces at word {}", n, pos + off));
        }
        pos += step;
    }
    let (a, b) = (big.generate_keystream(5), pieces.generate_keystream(5));
    ensure!(a == b, "entry=ZUC::generate_keystream outcome=split-dependent", "the request after a {}-word request gives {:08x?}, after the pieces {:08x?}", n, a, b);
    pass(true, "giant-request")
}

#[derive(Serialize, Deserialize, Hash, Debug, Clone)]
pub struct Golden {
    pub index: usize,
    pub split: u32,
}

pub fn run(ctx: &Ctx) {
    ctx.set_rule(
        "cases are (key, iv, request sizes): all 4095 compositions of every total <= 12 into positive parts for 3 (key, iv) pairs, the same with \
         zero-length requests inserted (front, back, doubled, between all parts); proptest splits of totals up to 4096 (thorough 65536) words with \
         random zero-length requests; official vectors incl. the 2000-word one; two stored (key, iv) found off-line with the reference where the LFSR \
         feedback is congruent to 0 (word index 22306 / 38385); (key, iv) crafted so that the first initialisation step feeds back t mod 2^31-1 for t at both edges {0..8, 2^31-9..2^31-2}. Oracle: reference ZUC from the specification (64-bit arithmetic mod 2^31-1, algebraically \
         generated S-boxes) and the library's own single-request keystream. Non-trivial: >= 2 requests, or a zero-length request, or total > 2 words.",
    );
    ctx.assume("reference ZUC (harness/src/refimpl/zuc.rs) anchored on the four official ZUC vectors (incl. word 2000), EEA3 test set 1 and EIA3 test sets");
    ctx.assume("the feedback==0 branch (probability 2^-31 per step) is reached only through the two stored golden inputs, not by the random generator");

    let h = |s: &str| Hex(hex::decode(s).unwrap());
    let fixed: Vec<(Hex, Hex)> = vec![
        (Hex(vec![0; 16]), Hex(vec![0; 16])),
        (h("3d4c4be96a82fdaeb58f641db17b455b"), h("84319aa8de6915ca1f6bda6bfbd8c766")),
        (Hex(expand_bytes(ctx.seed ^ 0xc08, 16)), Hex(expand_bytes(ctx.seed ^ 0xc09, 16))),
    ];

    let fx = fixed.clone();
    ctx.exhaustive(
        "compositions_le_12",
        "every composition of every total 0..=12 into positive request sizes x 3 (key, iv)",
        move || {
            let mut v = Vec::new();
            for (k, iv) in &fx {
                for n in 0..=12u32 {
                    for c in compositions(n) {
                        v.push(Split { key: k.clone(), iv: iv.clone(), requests: c });
                    }
                }
            }
            v
        },
        check_split,
    );

    let fx = fixed.clone();
    ctx.exhaustive(
        "compositions_with_zero_requests",
        "every composition of totals 0..=9 with zero-length requests inserted at the front, the back, doubled at the front, and between all parts",
        move || {
            let mut v = Vec::new();
            for (k, iv) in &fx {
                for n in 0..=9u32 {
                    for c in compositions(n) {
                        let mut front = vec![0];
                        front.extend(&c);
                        let mut back = c.clone();
                        back.push(0);
                        let mut dbl = vec![0, 0];
                        dbl.extend(&c);
                        let mut between = Vec::new();
                        for p in &c {
                            between.push(*p);
                            between.push(0);
                        }
                        for r in [front, back, dbl, between] {
                            v.push(Split { key: k.clone(), iv: iv.clone(), requests: r });
                        }
                    }
                }
            }
            v
        },
        check_split,
    );

    let max_total = ctx.tier.pick(4096u32, 65536u32);
    ctx.generated(
        "generated_splits",
        "proptest (key, iv, vec of request sizes incl. zeros) with totals up to 4096 / 65536 words",
        ctx.tier.pick(30_000, 400_000),
        move || {
            (key_iv(), prop::collection::vec(prop_oneof![2 => Just(0u32), 6 => 1..40u32, 2 => 1..(max_total / 4)], 0..12))
                .prop_map(move |((key, iv), mut requests)| {
                    // keep the total within the bound
                    let mut tot = 0u64;
                    for r in requests.iter_mut() {
                        if tot + *r as u64 > max_total as u64 {
                            *r = (max_total as u64 - tot) as u32;
                        }
                        tot += *r as u64;
                    }
                    Split { key, iv, requests }
                })
        },
        check_split,
    );

    ctx.listed(
        "official_vectors",
        "the four official ZUC test vectors, each in one request and split word by word",
        || {
            let mut v = Vec::new();
            for (k, iv, n) in [
                (vec![0u8; 16], vec![0u8; 16], 2u32),
                (vec![0xff; 16], vec![0xff; 16], 2),
                (hex::decode("3d4c4be96a82fdaeb58f641db17b455b").unwrap(), hex::decode("84319aa8de6915ca1f6bda6bfbd8c766").unwrap(), 2),
                (hex::decode("4d320bfad4c285bfd6b8bd00f39d8b41").unwrap(), hex::decode("52959daba0bf176ece2dc315049eb574").unwrap(), 2000),
            ] {
                v.push(Split { key: Hex(k.clone()), iv: Hex(iv.clone()), requests: vec![n] });
                v.push(Split { key: Hex(k.clone()), iv: Hex(iv.clone()), requests: vec![1; n as usize] });
            }
            v
        },
        |c| {
            let r = check_split(c)?;
            // and the published numbers themselves
            let (key, iv) = (arr16(&c.key), arr16(&c.iv));
            let total: usize = c.requests.iter().map(|r| *r as usize).sum();
            let z = catch(|| gm_zuc::ZUC::new(&key, &iv).generate_keystream(total)).map_err(|p| Fail { key: "entry=ZUC::generate_keystream outcome=panic".into(), detail: p })?;
            let expect: &[(usize, u32)] = match hex::encode(key).as_str() {
                "00000000000000000000000000000000" => &[(0, 0x27bede74), (1, 0x018082da)],
                "ffffffffffffffffffffffffffffffff" => &[(0, 0x0657cfa0), (1, 0x7096398b)],
                "3d4c4be96a82fdaeb58f641db17b455b" => &[(0, 0x14f1c272), (1, 0x3279c419)],
                _ => &[(0, 0xed4400e7), (1, 0x0633e5c5), (1999, 0x7a574cdb)],
            };
            for (i, w) in expect {
                ensure!(z[*i] == *w, "entry=ZUC::generate_keystream outcome=wrong-keystream", "official vector word {}: library {:08x}, published {:08x}", i, z[*i], w);
            }
            Ok(r)
        },
    );

    let huge: Vec<u32> = ctx.tier.pick(vec![(1u32 << 16) + 5], vec![(1 << 20) + 5, (1 << 22) + 17]);
    ctx.listed("huge_requests", "one very large request followed by small ones (2^16+5 words in the quick tier; up to 2^22+17 in the thorough tier)", move || {
        huge.iter().map(|n| Split { key: Hex(expand_bytes(*n as u64 ^ 0x8a, 16)), iv: Hex(expand_bytes(*n as u64 ^ 0x8b, 16)), requests: vec![*n, 1, 0, 17] }).collect::<Vec<_>>()
    }, check_split);

    let giants: Vec<u64> = ctx.tier.pick(vec![(1u64 << 27) + 5], vec![(1u64 << 27) - 1, 1 << 27, (1 << 27) + 5, (1 << 28) + 3]);
    ctx.listed_seq("single_request_of_2_pow_27_words", "one request of 2^27+5 words (512 MiB; thorough: 2^27-1, 2^27, 2^27+5, 2^28+3) — the request's bit count no longer fits 32 bits — then 5 more: word count, first 4096 words == reference, whole stream == the same stream drawn in 2^20-word pieces from a second generator", move || {
        giants.iter().map(|w| Giant { words: *w, seed: *w }).collect::<Vec<_>>()
    }, check_giant);

    ctx.exhaustive("bulk_request_then_more", "request sizes [T + j, 3, 0, 1] for T in {64, 256, 1024, 4096, 65536} and j = 0..=9 (every residue of an unroll factor up to 8 above a bulk threshold), the words after the bulk request included", || {
        let mut v = Vec::new();
        for t in [64u32, 256, 1024, 4096, 65536] {
            for j in 0..=9u32 {
                v.push(Split { key: Hex(expand_bytes((t + j) as u64 ^ 0xb01c, 16)), iv: Hex(expand_bytes((t + j) as u64 ^ 0xb01d, 16)), requests: vec![t + j, 3, 0, 1] });
            }
        }
        v
    }, check_split);

    ctx.exhaustive("long_request_then_more", "request sizes [n, m, 1] for every n in 0..=70 and m in {0, 1, 5, 16, 17} (a request that ends inside a 16-word block of the LFSR, followed by further requests) x 2 (key, iv) pairs", || {
        let mut v = Vec::new();
        for draw in 0..2u64 {
            for n in 0..=70u32 {
                for m in [0u32, 1, 5, 16, 17] {
                    v.push(Split { key: Hex(expand_bytes(draw ^ 0x10c8, 16)), iv: Hex(expand_bytes(draw ^ 0x10c9, 16)), requests: vec![n, m, 1] });
                }
            }
        }
        v
    }, check_split);

    let seed = ctx.seed;
    ctx.cold("cold_start_keystream", "keystream generation as the first library operation of a fresh process", move || {
        (0..4u64).map(|i| Split { key: Hex(expand_bytes(seed ^ 0xc08d ^ i, 16)), iv: Hex(expand_bytes(seed ^ 0xc08e ^ i, 16)), requests: if i % 2 == 0 { vec![9] } else { vec![0, 1, 3, 5] } }).collect()
    }, check_split);

    ctx.listed(
        "crafted_first_feedback_edges",
        "(key, iv) solved (meet in the middle over key/iv bytes 0 and 4) so that the first LFSR initialisation step feeds back a value congruent to t mod 2^31-1 for t in {0 (the 0 -> 2^31-1 rule), 1..8, 2^31-9..2^31-2}: a lazily or partially reduced sum leaves the cell out of range exactly there; 2 base draws each, one request and word-by-word",
        move || {
            let m = (1u64 << 31) - 1;
            let mut targets: Vec<u64> = (0..=8).collect();
            targets.extend((1..=8).map(|d| m - d));
            let mut v = Vec::new();
            for (ti, t) in targets.iter().enumerate() {
                for draw in 0..2u64 {
                    let base = expand_bytes(seed ^ 0xfeed ^ ((ti as u64) << 8) ^ draw, 32);
                    for (k, iv) in rzuc::craft_first_feedback(&arr16(&base[..16]), &arr16(&base[16..]), *t).into_iter().take(2) {
                        v.push(Split { key: Hex(k.to_vec()), iv: Hex(iv.to_vec()), requests: vec![40] });
                        v.push(Split { key: Hex(k.to_vec()), iv: Hex(iv.to_vec()), requests: vec![1, 0, 1, 2, 36] });
                    }
                }
            }
            v
        },
        |c| {
            let f = rzuc::first_feedback(&arr16(&c.key), &arr16(&c.iv));
            let m = (1u64 << 31) - 1;
            if !(f <= 8 || f >= m - 8) {
                return pass(false, "crafting-failed");
            }
            check_split(c).map(|_| Pass { nt: true, class: format!("first-feedback={}", if f <= 8 { format!("{}", f) } else { format!("M-{}", m - f) }) })
        },
    );

    ctx.listed(
        "golden_zero_feedback",
        "stored (key, iv) whose keystream passes through the LFSR feedback == 0 case; compared over 40000 words, in one request and split around the event",
        || vec![Golden { index: 0, split: 0 }, Golden { index: 0, split: 1 }, Golden { index: 1, split: 0 }, Golden { index: 1, split: 1 }],
        |g| {
            let text = std::fs::read_to_string(format!("{}/corpus/zuc_zero_feedback.json", VERIF_ROOT)).map_err(|e| Fail { key: "corpus-missing".into(), detail: e.to_string() })?;
            let v: serde_json::Value = serde_json::from_str(&text).unwrap();
            let e = &v[g.index];
            let key = hex::decode(e["key"].as_str().unwrap()).unwrap();
            let iv = hex::decode(e["iv"].as_str().unwrap()).unwrap();
            let word = e["word"].as_u64().unwrap() as u32;
            // the reference really takes the branch on this input
            let mut z = rzuc::Zuc::new(&arr16(&key), &arr16(&iv));
            z.generate(word as usize + 40);
            ensure!(z.zero_feedback_hits > 0, "golden-input-stale", "reference no longer hits feedback==0 on the golden input");
            let requests = if g.split == 0 { vec![word + 40] } else { vec![word - 1, 1, 1, 0, 1, 37] };
            check_split(&Split { key: Hex(key), iv: Hex(iv), requests })
        },
    );
}
