#![no_main]
use libfuzzer_sys::fuzz_target;
use std::sync::OnceLock;

static KNOWN: OnceLock<gmverif::engine::known::KnownFindings> = OnceLock::new();

fuzz_target!(|data: &[u8]| {
    // the library's panics are captured and classified by the check itself; the hook keeps them silent
    static INIT: std::sync::Once = std::sync::Once::new();
    INIT.call_once(|| {
        let default = std::panic::take_hook();
        gmverif::engine::install_silent_panic_hook();
        let silent = std::panic::take_hook();
        // panics raised by this target itself (violations) must stay visible to libFuzzer
        std::panic::set_hook(Box::new(move |info| {
            let msg = info.payload().downcast_ref::<String>().cloned().unwrap_or_default();
            if msg.starts_with("VIOLATION") {
                default(info);
            } else {
                silent(info);
            }
        }));
    });
    if let Err(f) = gmverif::fuzzdec::run_target("c01_sm3", data) {
        let known = KNOWN.get_or_init(gmverif::engine::known::KnownFindings::load);
        let prop = gmverif::fuzzdec::property_of("c01_sm3").unwrap();
        if !known.is_open(prop, &f.key) {
            panic!("VIOLATION key={} detail={}", f.key, f.detail);
        }
    }
});
