#!/usr/bin/env python3
"""Line-ending preserving exact string replacement: edit.py FILE  (reads OLD/NEW from a python file given as argv[2])
Usage from python: from edit import sub; sub(path, old, new)"""
import sys
def sub(path, old, new, count=1):
    s = open(path, newline='').read()
    crlf = '\r\n' in s
    if crlf:
        old = old.replace('\r\n', '\n').replace('\n', '\r\n')
        new = new.replace('\r\n', '\n').replace('\n', '\r\n')
    n = s.count(old)
    if n != count:
        raise SystemExit(f"{path}: expected {count} occurrence(s) of old string, found {n}")
    s = s.replace(old, new)
    open(path, 'w', newline='').write(s)
