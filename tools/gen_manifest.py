#!/usr/bin/env python3
"""Regenerate /verif/MANIFEST.json from the table below (single source of truth for what is claimed)."""
import json, subprocess, os
ROOT = '/verif'
props = [json.loads(l) for l in open(f'{ROOT}/properties.jsonl')]
ids = [p['id'] for p in props]

# id -> (technique, level text, level note, design ref)
CLAIMED = {
 'C01': ('property-based differential testing: exhaustive length enumeration + proptest-generated messages and threaded histories against an independent streaming SM3; OpenSSL golden corpus; libFuzzer differential target in the thorough tier',
         'Generated-input search with an independent reference as oracle: every length 0..=4096 in four content classes, all single-bit 192-byte messages, boundary-biased random messages, interleaved two-thread histories (purity) and a 2^29+3-byte message (bit length beyond 32 bits) are hashed by the library and compared byte for byte with a from-the-standard SM3. Exploration, not proof: it decides the property on what was generated.',
         'Trusted: harness/src/refimpl/sm3.rs (anchored on the GB/T 32905 Annex vectors and 309 OpenSSL digests). Not reached: messages beyond 2^32+1 bytes.', '5/C01'),
 'C02': ('property-based differential and round-trip testing: exhaustive structured (key, block) families, S-box-lane-targeted and inverted-key-schedule constructions, proptest random pairs and stateful call histories against an independent SM4; OpenSSL golden corpus',
         'Generated-input search with an independent reference as oracle, both directions plus both round trips on every case: 128x128 single-bit and 256x256 repeated-byte (key, block) pairs exhaustively, every S-box input value through every lane of round 1 (data path and key schedule), keys built by inverting the key schedule from structured final round keys, 2*10^5 (thorough 4*10^6) proptest pairs, and call histories on one cipher object compared step by step with a fresh object, the reference and its own clone.',
         'Trusted: harness/src/refimpl/sm4.rs (S-box generated algebraically and checked bijective, CK from its formula; anchored on GB/T 32907 examples 1 and 2 and 256 OpenSSL ECB triples).', '5/C02'),
 'C07': ('property-based differential and round-trip testing of the four modes: exhaustive data lengths 0..=200, carry-IV family, crafted CBC final-byte ciphertexts, IV-length error grid, proptest random cases against textbook modes over an independent SM4; OpenSSL golden corpus',
         'Generated-input search against independent textbook CBC(PKCS#7)/CFB-128/OFB/CTR(128-bit BE counter) over the reference SM4: exact ciphertext, round trip and output length for every length 0..=200 per mode, IVs with 1..16 trailing 0xFF bytes (carry through every byte and wrap-around) over >= 4 blocks, random data to 2^12 (thorough 2^14) bytes; decryption of arbitrary byte strings judged by the reference (CBC: empty and ragged lengths and every final plaintext byte 0..255 crafted with unpadded CBC); IV lengths 0..=40 except 16 must be Err in both directions.',
         'Trusted: reference modes anchored on 868 OpenSSL enc -sm4-{cbc,cfb,ofb,ctr} ciphertexts. Only Ok/Err classes are compared for the error clause; inconsistent padding bytes before a valid final byte are not asserted either way.', '5/C07'),
 'C08': ('model-based testing of request histories: exhaustive compositions of totals <= 12 (with zero-length requests inserted), proptest splits, official vectors and stored golden inputs for the feedback==0 branch, against a from-the-specification ZUC and the single-request keystream (metamorphic)',
         'A history is a vector of request sizes interpreted on one library generator; the concatenated output must equal the reference keystream prefix and the single-request keystream. All 4095 compositions of totals 0..=12 x 3 (key, iv), the same with zero-length requests at the front/back/doubled/between parts, 3*10^4 (thorough 4*10^5) generated splits up to 4096 (65536) words, the four official vectors, and two golden (key, iv) pairs that drive the LFSR through its feedback==0 case.',
         'Trusted: harness/src/refimpl/zuc.rs (64-bit arithmetic mod 2^31-1, S0/S1 generated algebraically; anchored on the official vectors incl. word 2000). The 2^-31 feedback==0 event is reached only through the stored golden inputs.', '5/C08'),
 'C18': ('property-based differential and metamorphic testing: exhaustive LENGTH grid 0..=600 over all bearers and directions, proptest parameters/lengths, against from-the-specification EEA3/EIA3; involution, zero-tail and MAC-invariance relations; official test sets',
         'Every LENGTH 1..=600 (EEA3) and 0..=600 (EIA3) x 4 parameter draws covering all 32 bearers and both directions, plus 3*10^4 (thorough 3*10^5) generated cases per function with lengths to 2^16 (2^20) bits, COUNT edge values, exact and surplus message words: output == reference; EEA3 returns ceil(LENGTH/32) words with zero bits beyond LENGTH and is an involution on the first LENGTH bits; EIA3 is unchanged by garbage beyond LENGTH and equals the reference after a bit flip inside.',
         'Trusted: reference EEA3/EIA3 anchored on the official test sets. Inputs respect the stated preconditions (BEARER < 32, DIRECTION < 2, enough message words).', '5/C18'),
 'C11': ('property-based differential testing against affine big-integer arithmetic: constructed Jacobian representations (equal/opposite points with different Z, infinity forms), exhaustive single-byte fixed-base scalars and table entries, nibble/edge scalars, all pairs of boundary-limb field operands, operands crafted to land on reduction boundaries; proptest-generated rest',
         'Points are [k]G from the affine reference, rewritten by the harness into chosen Jacobian/Montgomery representations; every library result is decoded with big integers only and compared with the affine group law (add incl. P=Q and P=-Q with equal and different Z and infinity operands, double, negate, variable-base and fixed-base multiplication incl. scalars >= n, affine conversion, SEC1 encodings, validity predicates with off-curve perturbations). All 8160 table entries and all 8160 single-byte fixed-base scalars exhaustively; 1.5*10^6 field-operation cases on boundary limbs per run plus crafted Montgomery/add/sub corner cases.',
         'Trusted: harness/src/refimpl/{field,ec,sm2}.rs over num-bigint (G has order n; GM/T 0003.5 Annex examples reproduced). Field operands are canonical (< modulus). Dead code (fp_div2, fn_inv) is not a subject. Hooks used: re-exports of fields::{fp64,fn64} and of the table.', '5/C11'),
 'C03': ('property-based differential testing with injected nonces: proptest (key, ID, message, k) against a reference GB/T 32918.2 signer/verifier on affine big-integer arithmetic; cross-verification in both directions; OpenSSL-signed golden corpus; Annex example',
         'With the nonce injected through the RNG hook the 64 signature bytes must equal the reference signer\'s output and the retry rule must consume the same number of candidates; every signature (also with the library\'s own RNG) must have r,s in [1,n-1], satisfy the independent verification equation and be accepted by the library under the matching key/ID; signatures made by the reference (random k) and by OpenSSL must be accepted. Keys and nonces come from an edge-biased generator (1, 2, n-2, 2^i, 2^i-1, boundary limbs), IDs from None/empty/1..8191 bytes/UTF-8, messages 0..4096 bytes.',
         'Trusted: harness/src/refimpl/sm2.rs (reproduces the GM/T 0003.5 Annex signature, ciphertext and key-exchange values), OpenSSL 3.0.20 corpus. Hook: RNG candidate override (the library\'s own rejection loop still runs). Retry branches with probability ~2^-256 (r = 0, r + k = n, s = 0) are not reachable.', '5/C03'),
 'C04': ('structure-aware tampering of reference-made signatures (exhaustive 512 bit flips and all lengths 0..=130 per base, component substitutions, message/ID/key changes, random pairs, stored golden small-r/small-s signatures) judged two-sidedly by an independent reference verifier',
         'Every case is (valid base signature made by the reference signer, tampering); the library must return Ok exactly when the reference verifier accepts and must never panic. Exhaustive per base: all 512 single-bit flips of r||s, every length 0..=130 (truncation, extension with zeros/0xFF/random); r/s in {0,1,n-1,n,n+1,2^256-1,p,2^255}, s=n-r, swap, r+n/s+n (through golden inputs found by a 2^32 search so that they fit in 32 bytes), message flip/truncate/extend, other ID, other key.',
         'Trusted: reference verifier. Rejection is decided for the generated tamperings; not a proof of unforgeability. Deleting the r-range check or comparing fewer bytes of r is unobservable for any black-box test (the final comparison is on canonical values / needs a 2^-248 coincidence) and is not claimed.', '5/C04'),
 'C05': ('property-based differential and round-trip testing with injected nonces: every |M| 1..=300 x 4 configurations exactly equal to a reference GB/T 32918.4 encryptor; independent decryption of every library ciphertext; reference- and OpenSSL-made ciphertexts; KDF differential for every klen 1..=300',
         'With k injected the whole ciphertext must equal the reference encryptor\'s byte for byte (all four compressed/uncompressed x C1C2C3/C1C3C2 configurations, every length 1..=300 incl. klen mod 32 = 0, random lengths to 2^12/2^16, zero/0xFF/leading-zero messages); every library ciphertext (also with its own RNG) must decrypt under the independent decryptor (C1 on curve, C2 = M xor KDF, C3 = SM3(x2||M||y2)) and round-trip in the library; reference-made and 72 OpenSSL-made ciphertexts and the Annex example must decrypt; util::kdf equals the reference KDF.',
         'Trusted: reference encryptor/decryptor/KDF (Annex ciphertext reproduced bit for bit), OpenSSL corpus. Hook: RNG candidate override. The all-zero-KDF retry (probability 2^-8|M|) is only reachable for 1-byte messages by chance.', '5/C05'),
 'C06': ('structure-aware tampering of reference-made ciphertexts (exhaustive bit flips, truncations and prefix bytes per base; invalid-curve forgeries with consistent C2/C3; non-residue, nudged and non-canonical C1) judged by an independent strict decryptor',
         'Every case is (valid base ciphertext made by the reference encryptor, tampering); whatever the reference decryptor rejects the library must reject with Err (a plaintext or a panic is a violation), and an accepted ciphertext must give the original plaintext. Exhaustive per base: every single-bit flip incl. the prefix byte, every truncation length, all 256 prefix bytes; C1 replaced by off-curve points with C2/C3 forged through the group law of the curve y^2=x^3+ax+b\' the point lies on (the invalid-curve attack in its sensitive form), by x+p encodings of small-x points, by non-residue compressed x, by the other SEC1 form; 600 (thorough 20000) parity-only flips of compressed C1.',
         'Trusted: reference decryptor with strict SEC1 decoding. Rejection is decided for the generated tamperings only.', '5/C06'),
 'C15': ('model-based testing of protocol histories: the four key-agreement steps with injected ephemeral scalars, interpreted side by side with a GB/T 32918.3 reference; every subset of the four messages tampered (valid/negated/off-curve points, bit-flipped confirmations, same point in another representation)',
         'A history is (keys, IDs, klen, rA, rB, subset of {R_A,R_B,S_B,S_A} altered in transit). For honest histories R_A, R_B, K_B, S_B, K_A, S_A are compared exactly with the reference (w = 127, one-byte tags; GM/T 0003.5 Annex example included) and both confirmations must succeed; for tampered histories A must report failure iff R_A, R_B or S_B changed, B must accept iff R_A and S_A did not, off-curve points must be rejected at once, and re-randomised Jacobian representations of the same point must change nothing. All 16 subsets x 4 alteration kinds exhaustively plus generated histories.',
         'Trusted: reference key agreement (reproduces the Annex K, S_B, S_A). Hooks: RNG candidate override for rA/rB, accessor for the crate-private derived key.', '5/C15'),
 'C19': ('round-trip and differential property testing of every encoding (SEC1, hex, SPKI/PKCS#8/SEC1 DER, PEM, GM/T 0009 ASN.1 ciphertext) against an independent strict DER/PEM codec and OpenSSL documents; stored and walked keys/nonces with leading-zero coordinates; exhaustive malformed lengths, truncations and bit flips of encodings',
         'Every key (edge scalars, stored scalars whose point has 2-3 leading zero bytes, a walk of 1200 consecutive scalars, generated ones) is encoded and decoded through all forms in both directions, against documents written by the reference codec (with/without parameters and public key) and by OpenSSL; decoders must reject, without panicking, every wrong length 0..=70, wrong prefix, off-curve or >= p coordinate, malformed hex and every truncation of DER documents, and whatever they accept from bit-flipped documents must be a valid key. encrypt_asn1 with injected k (C1 coordinates with 0..3 leading zero bytes, top bit set, all four flag combinations) must yield exactly SEQUENCE{INTEGER x, INTEGER y, OCTET STRING C3, OCTET STRING C2} of the reference ciphertext and round-trip; 72 OpenSSL documents must decrypt.',
         'Trusted: harness/src/refimpl/der.rs (reproduces OpenSSL 3.0.20 SPKI, PKCS#8 and SM2Cipher documents byte for byte). For corrupted DER only no-panic and validity-of-what-is-accepted are asserted.', '5/C19'),
 'C13': ('property-based differential testing of the SM9 tower (Fp, Fp2, Fp4, Fp12), mod-N arithmetic, Booth recoding and G1/G2 group operations against a polynomial-basis / affine big-integer reference; exhaustive zero-component masks, table entries and single-window scalars; constructed Jacobian representations',
         'Every tower operation (add, sub, mul, sqr, neg, halve, invert, pow, four Frobenius maps, conjugations, sparse/line products, u- and v-multiplications) is compared with Fp[w]/(w^12+2) arithmetic on operands whose components are zero with probability 0.3 or edge-biased, plus every subset of zero components (4/16/4096 masks) for inversion, squaring, halving and multiplication; mod-N add/sub/mul on all pairs of boundary-limb values, inv/pow around N and p; Booth recodings for w = 5, 7; all 2368 fixed-base table entries, every single-window fixed-base scalar and every 5-bit window value x position x carry for variable-base multiplication; G1 and G2 add/sub/double/neg/equality/scalar multiplication on equal, opposite and generic points in chosen Jacobian representations, compared with the affine group law in both directions.',
         'Trusted: harness/src/refimpl/{field,ec,sm9}.rs (self-checks: a*a^-1 = 1, Frobenius formula == x^p, [N]P1 = [N]P2 = O, all GM/T 0044.5 Annex vectors reproduced). Operands are canonical. Hooks: constructors/accessors for Fp2/Fp4/Fp12, crate-private operations, table. One open known finding (TwistPoint::point_equals) is excluded by exact signature.', '5/C13'),
 'C12': ('property-based differential testing of the pairing against an independent textbook R-ate pairing (affine Miller loop over Fp[w]/(w^12+2), final exponent (p^12-1)/N) on generated multiples of the generators in generated Jacobian representations; bilinearity/order/non-degeneracy relations evaluated inside the library',
         'For generated (a, b, Z_P, Z_Q) the 384-byte value of the library pairing of [b]P1 and [a]P2, written by the harness into affine, random-Z and purely-imaginary-Z Jacobian representations, must equal the reference pairing exactly (1500 cases quick, 20000 thorough, plus the 7x7 grid of small and near-order scalars); inside the library e([b]P1,[a]P2) == e(P1,P2)^(ab mod N) on more pairs, e(P1,P2) != 1, g^N = 1; the Annex value of e(P1,Ppub-s).',
         'Trusted: harness/src/refimpl/sm9.rs pairing (reproduces the Annex g and, through it, the Annex signature, ciphertext and exchange key; bilinear on its own). Hooks: wrappers for the crate-private pairing, Fp12::pow and Fp12 accessors. Infinity is not a pairing argument.', '5/C12'),
 'C16': ('property-based differential testing of hash-to-range and key extraction: constructed 40-byte Ha values on the quotient-estimate edges (q(N-1)+r), top-limb-ones and generated values against BigUint; H1/H2 and the three extraction functions against the reference, incl. master keys crafted so that extraction must fail',
         'mod_n_from_hash == (Ha mod (N-1)) + 1 for Ha = q(N-1)+r with r in {0..3, N-4..N-2} and q in {0..3, random, q_max-3..q_max}, for 4*10^5 (thorough 4*10^6) generated values incl. top-64-bits-all-ones and boundary-limb patterns; hooked H1/H2 equal the reference for identities/messages of 0..300 bytes and hid 1..3; signing, encryption and exchange keys extracted for edge and generated master keys equal [k (H1+k)^-1]P1 / P2 computed on the affine reference (Annex ds_A and de_B included), and extraction returns None exactly for master keys crafted as N - H1(ID||hid).',
         'Trusted: reference H1/H2/extraction (Annex values reproduced). Hooks: wrappers for the private sm9_u256_hash1/hash2.', '5/C16'),
}
PENDING_REASON = 'check not implemented yet in this commit (work in progress; planned in DESIGN.md section 5) — not claimed until its machinery exists and is silent on the unchanged tree'

hook_commits = []
try:
    out = subprocess.run(['git', '-C', '/repo', 'log', '--format=%H %s'], capture_output=True, text=True).stdout
    hook_commits = [l.split()[0] for l in out.splitlines() if 'verif hooks' in l or 'verif hook' in l]
except Exception:
    pass

checks = []
for i in ids:
    if i not in CLAIMED: continue
    tech, text, note, ref = CLAIMED[i]
    checks.append({
        'property_id': i,
        'quick_cmd': f'./check {i} quick',
        'thorough_cmd': f'./check {i} thorough',
        'evidence_file': f'/verif/evidence/{i}.json',
        'replay_cmd_template': './check --replay {path}',
        'engine': 'gmverif',
        'level_claimed': {'category': 'exploration', 'text': text, 'design_ref': f'DESIGN.md section {ref}'},
        'level_note': note,
        'technique': tech,
    })
m = {
 'version': 1,
 'setup_cmd': 'cd /verif/harness && CARGO_NET_OFFLINE=true cargo build --release --offline',
 'hooks': {
   'guard': '--cfg gm_rs_verif',
   'enable': 'harness/.cargo/config.toml sets rustflags = ["--cfg", "gm_rs_verif"]; the harness depends on /repo/gm-* by path, so every ./check rebuilds from the current working tree',
   'baseline_off_cmd': 'cd /repo && cargo test --workspace --lib --no-fail-fast --offline',
   'source_commits': hook_commits,
   'add_only': True,
 },
 'engines': [
   {'name': 'gmverif', 'path': 'harness/', 'serves_properties': sorted(CLAIMED), 'kind_free_text': 'proptest 1.11 driven from a binary (seeded TestRunner batches on 16 threads, shrinking, replay files), exhaustive enumerations, independent reference implementations, golden corpora'},
 ],
 'checks': checks,
 'not_applicable': [{'property_id': i, 'reason': PENDING_REASON} for i in ids if i not in CLAIMED],
 'notes': 'See DESIGN.md. Known findings: KNOWN_FINDINGS.txt. Seeded mutants: seeded/.',
}
json.dump(m, open(f'{ROOT}/MANIFEST.json', 'w'), indent=1)
print('claimed', sorted(CLAIMED), 'pending', len(m['not_applicable']))
