#!/usr/bin/env python3
"""Sensitivity protocol: apply each hand-written mutant of a property to /repo, confirm the repository's
own 41 tests still pass (optional), run the property's check, expect exit 1 + VIOLATION, revert.

  tools/run_mutants.py C01 [--tier quick|thorough] [--only name] [--no-repo-tests]

Mutants live in mutants/<ID>.json: [{"name":..., "file":..., "old":..., "new":..., "note":...}, ...]
(multi-edit: "edits":[{"file","old","new"},...]). /repo must be clean before and is restored after."""
import json, subprocess, sys, os, time
sys.path.insert(0, '/verif/tools')
from edit import sub
ROOT = '/verif'
def sh(cmd, **kw):
    return subprocess.run(cmd, shell=True, capture_output=True, text=True, **kw)
def main():
    args = sys.argv[1:]
    pid = args[0]
    tier = 'quick'; only = None; repo_tests = True
    i = 1
    while i < len(args):
        if args[i] == '--tier': tier = args[i+1]; i += 2
        elif args[i] == '--only': only = args[i+1]; i += 2
        elif args[i] == '--no-repo-tests': repo_tests = False; i += 1
        else: raise SystemExit('bad arg ' + args[i])
    if sh('git -C /repo status --porcelain').stdout.strip():
        raise SystemExit('/repo is not clean')
    muts = json.load(open(f'{ROOT}/mutants/{pid}.json'))
    results = []
    for m in muts:
        if only and m['name'] != only: continue
        edits = m.get('edits') or [{'file': m['file'], 'old': m['old'], 'new': m['new'], 'count': m.get('count', 1)}]
        try:
            for e in edits:
                sub('/repo/' + e['file'], e['old'], e['new'], e.get('count', 1))
            t0 = time.time()
            rt = 'skipped'
            if repo_tests:
                r = sh('cd /repo && cargo test --workspace --lib --no-fail-fast --offline 2>&1 | grep -E "^test result|FAILED|error(\\[|:)"')
                rt = 'pass' if ('FAILED' not in r.stdout and 'error' not in r.stdout and 'test result: ok' in r.stdout) else 'FAIL'
            r = sh(f'cd {ROOT} && ./check {pid} {tier}', env={**os.environ, 'VERIF_EVIDENCE_DIR': '/tmp/mutant-evidence'})
            viol = [l for l in r.stdout.splitlines() if l.startswith('VIOLATION')]
            subs = [l.strip() for l in r.stdout.splitlines() if l.strip().startswith('sub=')]
            status = 'KILLED' if (r.returncode == 1 and viol) else ('INCONCLUSIVE' if r.returncode not in (0, 1) else 'SURVIVED')
            results.append((m['name'], rt, status, r.returncode, len(viol), '; '.join(subs[:3]), round(time.time() - t0, 1)))
            print(f"{pid} {m['name']:<40} repo-tests={rt:<7} {status:<12} exit={r.returncode} violations={len(viol)} {subs[:2]} {round(time.time()-t0,1)}s", flush=True)
            if status == 'INCONCLUSIVE':
                print(r.stdout[-1500:])
        finally:
            sh('git -C /repo checkout -- .')
            sh(f'cd {ROOT} && git checkout -- evidence/{pid}.json 2>/dev/null; rm -f {ROOT}/replays/{pid}-*.json')
    os.makedirs(f'{ROOT}/mutants/results', exist_ok=True)
    with open(f'{ROOT}/mutants/results/{pid}.{tier}.txt', 'a' if only else 'w') as f:
        for r in results:
            f.write(' | '.join(str(x) for x in r) + '\n')
main()
