#!/usr/bin/env python3
"""Re-run the property's own quick check against every stored seeded change (seeded/<ID>[-x]/patch.diff) with the current harness.
   tools/seed_recheck.py [ID-variant ...]   -> writes seeded/RECHECK.json, prints one line per seed. Requires a clean /repo."""
import json, os, subprocess, sys, time
def sh(cmd): return subprocess.run(cmd, shell=True, capture_output=True, text=True)
assert not sh('git -C /repo status --porcelain').stdout.strip(), '/repo not clean'
names = sys.argv[1:] or sorted(d for d in os.listdir('/verif/seeded') if os.path.exists(f'/verif/seeded/{d}/patch.diff'))
out_path = '/verif/seeded/RECHECK.json'
res = json.load(open(out_path)) if os.path.exists(out_path) else {}
head = sh('git -C /verif rev-parse --short HEAD').stdout.strip()
for name in names:
    pid = name.split('-')[0]
    patch = f'/verif/seeded/{name}/patch.diff'
    if os.path.exists(f'/verif/seeded/{name}/patch.rebased.diff'): patch = f'/verif/seeded/{name}/patch.rebased.diff'
    how = 'apply'
    a = sh(f'git -C /repo apply {patch}')
    if a.returncode != 0:
        a = sh(f'git -C /repo apply --3way {patch}'); sh('git -C /repo reset -q'); how = '3way'
    if a.returncode != 0:
        sh('git -C /repo checkout -- .')
        res[name] = {'result': 'PATCH-DOES-NOT-APPLY', 'harness': head, 'note': a.stderr.strip()[-200:]}
        print(name, 'patch does not apply'); continue
    t0 = time.time()
    r = sh(f'cd /verif && ./check {pid} quick')
    viol = [l for l in r.stdout.splitlines() if l.startswith('VIOLATION')]
    subs = sorted(set(l.strip().split(' key=')[0].replace('sub=', '') for l in r.stdout.splitlines() if l.strip().startswith('sub=')))
    sh('git -C /repo checkout -- .')
    sh(f'cd /verif && git checkout -- evidence/{pid}.json; rm -f /verif/replays/{pid}-*.json')
    verdict = 'CAUGHT' if r.returncode == 1 and viol else ('INCONCLUSIVE' if r.returncode == 2 else 'MISSED')
    res[name] = {'result': verdict, 'exit': r.returncode, 'sub_checks': subs[:8], 'harness': head, 'applied': how, 'wall_s': round(time.time() - t0, 1)}
    print(name, verdict, subs[:3], flush=True)
    json.dump(res, open(out_path, 'w'), indent=1, sort_keys=True)
print('summary:', {v: sum(1 for x in res.values() if x['result'] == v) for v in set(x['result'] for x in res.values())})
