#!/usr/bin/env python3
"""Confirm a sub-agent's seeded change in its scratch worktree, store it under /verif/seeded/<ID>/, and run our checks against it.
   tools/seed_eval.py <ID> <crate> <test-name> [--release] [--checks C09,C13] [--tier quick|thorough] [--variant name]"""
import json, os, shutil, subprocess, sys, time
def sh(cmd, **kw):
    return subprocess.run(cmd, shell=True, capture_output=True, text=True, **kw)
pid, crate, test = sys.argv[1:4]
rel = '--release' if '--release' in sys.argv else ''
checks = [pid]; tier = 'quick'; variant = ''
for i, a in enumerate(sys.argv):
    if a == '--checks': checks = sys.argv[i+1].split(',')
    if a == '--tier': tier = sys.argv[i+1]
    if a == '--variant': variant = sys.argv[i+1]
wt = f'/tmp/seed-{pid}{("-" + variant) if variant else ""}'
dst = f'/verif/seeded/{pid}{("-" + variant) if variant else ""}'
ran = []
def step(desc, cmd, expect_fail=None):
    r = sh(cmd)
    ok = (r.returncode != 0) if expect_fail else (r.returncode == 0)
    tail = (r.stdout + r.stderr).strip().splitlines()[-3:]
    ran.append({'what': desc, 'cmd': cmd, 'exit': r.returncode, 'as_expected': ok, 'tail': tail})
    print(('OK  ' if ok else 'BAD ') + desc, '| exit', r.returncode, '|', tail[-1] if tail else '')
    return ok, r
assert os.path.exists(f'{wt}/SEED/patch.diff'), 'no patch'
democmd = f'cd {wt} && cargo test -p {crate} --test {test} {rel} --offline'
# state: patch applied. 1) demo fails  2) 41 tests pass  3) revert -> demo passes  4) re-apply
ok1, _ = step('demo fails with the change', democmd, expect_fail=True)
ok2, r = step('existing suite passes with the change', f'cd {wt} && cargo test --workspace --lib --no-fail-fast --offline 2>&1 | grep -E "^test result" ')
n_pass = sum(int(l.split()[3]) for l in r.stdout.splitlines() if l.startswith('test result: ok'))
ok2 = ok2 and n_pass == 41 and 'FAILED' not in r.stdout
print('   existing tests passed:', n_pass)
sh(f'cd {wt} && git apply -R SEED/patch.diff')
ok3, _ = step('demo passes without the change', democmd)
sh(f'cd {wt} && git apply SEED/patch.diff')
confirmed = ok1 and ok2 and ok3
os.makedirs(dst, exist_ok=True)
shutil.copy(f'{wt}/SEED/patch.diff', f'{dst}/patch.diff')
if os.path.isdir(f'{wt}/SEED/demo'):
    shutil.copytree(f'{wt}/SEED/demo', f'{dst}/demo', dirs_exist_ok=True)
if os.path.exists(f'{wt}/SEED/patch.rebased.diff'):
    # the sub-agent's worktree predates a later fix: commit in /repo that touches the same lines; the same change re-expressed on the current tree
    shutil.copy(f'{wt}/SEED/patch.rebased.diff', f'{dst}/patch.rebased.diff')
if os.path.exists(f'{wt}/SEED/README.md'):
    shutil.copy(f'{wt}/SEED/README.md', f'{dst}/README.agent.md')
# our checks against it
assert not sh('git -C /repo status --porcelain').stdout.strip(), '/repo not clean'
results = {}
try:
    a = sh(f'git -C /repo apply {dst}/patch.rebased.diff') if os.path.exists(f'{dst}/patch.rebased.diff') else sh(f'git -C /repo apply {dst}/patch.diff')
    if a.returncode != 0:
        # /repo has moved on since the worktree was made (hook / fix commits): fall back to a three-way merge of the same change
        a = sh(f'git -C /repo apply --3way {dst}/patch.diff')
        sh('git -C /repo reset -q')
        print('   (patch applied with --3way)')
    assert a.returncode == 0, a.stderr
    for c in checks:
        t0 = time.time()
        r = sh(f'cd /verif && ./check {c} {tier}')
        viol = [l for l in r.stdout.splitlines() if l.startswith('VIOLATION')]
        subs = sorted(set(l.strip() for l in r.stdout.splitlines() if l.strip().startswith('sub=')))
        results[c] = {'tier': tier, 'exit': r.returncode, 'violations': len(viol), 'subs': subs[:6], 'wall_s': round(time.time() - t0, 1)}
        print(f'   check {c} {tier}: exit={r.returncode} violations={len(viol)} {subs[:2]}')
finally:
    sh('git -C /repo checkout -- .')
    for c in checks:
        sh(f'cd /verif && git checkout -- evidence/{c}.json; rm -f /verif/replays/{c}-*.json')
meta_path = f'{dst}/meta.json'
meta = json.load(open(meta_path)) if os.path.exists(meta_path) else {}
meta.update({'property': pid, 'variant': variant, 'confirmed_in_scratch_worktree': confirmed, 'demo_command': democmd.replace(wt, '<worktree>'), 'confirmation_steps': ran})
meta.setdefault('detection', {}).update(results)
json.dump(meta, open(meta_path, 'w'), indent=1)
print('confirmed:', confirmed, '| detection:', {k: ('CAUGHT' if v['exit'] == 1 and v['violations'] else 'MISSED') for k, v in results.items()})
