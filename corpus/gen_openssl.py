#!/usr/bin/env python3
"""Generate the golden OpenSSL corpus (run once; the result openssl.json is committed and only
read by the checks). Uses /usr/bin/openssl 3.0.x. Deterministic inputs (seeded PRNG); SM2 keys,
signatures and ciphertexts are of course randomised by OpenSSL."""
import json, os, random, subprocess, tempfile, sys
OPENSSL = '/usr/bin/openssl'
rnd = random.Random(20261003)
tmp = tempfile.mkdtemp(prefix='gmcorpus')
def run(args, data=None):
    r = subprocess.run([OPENSSL] + args, input=data, capture_output=True)
    if r.returncode != 0:
        raise SystemExit(f"openssl {' '.join(args)} failed: {r.stderr.decode()}")
    return r.stdout
def rb(n): return bytes(rnd.getrandbits(8) for _ in range(n))
def parse(b, i=0):
    t = b[i]; l = b[i+1]; i += 2
    if l & 0x80:
        n = l & 0x7f; l = int.from_bytes(b[i:i+n], 'big'); i += n
    return t, b[i:i+l], i+l

out = {'openssl_version': run(['version']).decode().strip()}

# ---- SM3
sm3 = []
lens = list(range(0, 301)) + [511, 512, 513, 1000, 4095, 4096, 4097, 65536]
for n in lens:
    m = rb(n)
    d = run(['dgst', '-sm3', '-binary'], m)
    sm3.append({'msg': m.hex(), 'digest': d.hex()})
out['sm3'] = sm3

# ---- SM4 ECB single blocks
ecb = []
keys = [bytes(16), b'\xff'*16, bytes.fromhex('0123456789abcdeffedcba9876543210')] + [rb(16) for _ in range(61)]
for k in keys:
    for blk in [bytes(16), b'\xff'*16, rb(16), rb(16)]:
        c = run(['enc', '-sm4-ecb', '-K', k.hex(), '-nopad'], blk)
        ecb.append({'key': k.hex(), 'pt': blk.hex(), 'ct': c.hex()})
out['sm4_ecb'] = ecb

# ---- SM4 modes
modes = []
ivs = [bytes(16), b'\xff'*16, bytes(15)+b'\xff', bytes(8)+b'\xff'*8, b'\x12'+b'\xff'*15, b'\xff'*15+b'\xfe']
for mode in ['cbc', 'cfb', 'ofb', 'ctr']:
    for n in range(0, 201):
        k = rb(16)
        iv = ivs[n % len(ivs)] if n % 3 == 0 else rb(16)
        pt = rb(n)
        c = run(['enc', '-sm4-' + mode, '-K', k.hex(), '-iv', iv.hex()], pt)
        modes.append({'mode': mode, 'key': k.hex(), 'iv': iv.hex(), 'pt': pt.hex(), 'ct': c.hex()})
    # carry IVs with >= 4 blocks
    for t in range(1, 17):
        k = rb(16)
        iv = rb(16 - t) + b'\xff' * t
        pt = rb(70)
        c = run(['enc', '-sm4-' + mode, '-K', k.hex(), '-iv', iv.hex()], pt)
        modes.append({'mode': mode, 'key': k.hex(), 'iv': iv.hex(), 'pt': pt.hex(), 'ct': c.hex()})
out['sm4_modes'] = modes

# ---- SM2 keys, signatures, ciphertexts
sm2 = []
ids = ['1234567812345678', 'A', 'alice@example.com', 'x' * 100, '']
for ki in range(12):
    kp = os.path.join(tmp, f'k{ki}.pem'); pp = os.path.join(tmp, f'p{ki}.pem')
    run(['genpkey', '-algorithm', 'SM2', '-out', kp])
    run(['pkey', '-in', kp, '-pubout', '-out', pp])
    txt = run(['pkey', '-in', kp, '-text', '-noout']).decode()
    # parse priv / pub hex dumps
    def grab(label):
        lines = txt.split('\n'); i = [j for j, l in enumerate(lines) if l.startswith(label)][0] + 1
        h = ''
        while i < len(lines) and lines[i].startswith('    '):
            h += lines[i].strip().replace(':', ''); i += 1
        return h
    d = grab('priv:'); pub = grab('pub:')
    d = d[-64:].rjust(64, '0')
    pk8_der = run(['pkey', '-in', kp, '-outform', 'DER'])
    spki_der = run(['pkey', '-in', kp, '-pubout', '-outform', 'DER'])
    ent = {'d': d, 'pub': pub, 'pkcs8_pem': open(kp).read(), 'spki_pem': open(pp).read(),
           'pkcs8_der': pk8_der.hex(), 'spki_der': spki_der.hex(), 'sigs': [], 'encs': []}
    for si in range(6):
        idv = ids[(ki + si) % len(ids)]
        m = rb([0, 1, 13, 32, 100, 1000][si])
        mp = os.path.join(tmp, 'm.bin'); open(mp, 'wb').write(m)
        sp = os.path.join(tmp, 's.der')
        args = ['pkeyutl', '-sign', '-in', mp, '-rawin', '-digest', 'sm3', '-inkey', kp, '-out', sp]
        if idv != '':
            args += ['-pkeyopt', 'distid:' + idv]
        else:
            args += ['-pkeyopt', 'hexdistid:']
        try:
            run(args)
        except SystemExit as e:
            if idv == '':
                continue
            raise
        b = open(sp, 'rb').read(); t, body, _ = parse(b); t, r, i = parse(body, 0); t, s, _ = parse(body, i)
        sig = int.from_bytes(r, 'big').to_bytes(32, 'big') + int.from_bytes(s, 'big').to_bytes(32, 'big')
        # sanity: OpenSSL verifies its own
        vargs = ['pkeyutl', '-verify', '-in', mp, '-rawin', '-digest', 'sm3', '-pubin', '-inkey', pp, '-sigfile', sp]
        vargs += ['-pkeyopt', 'distid:' + idv] if idv != '' else ['-pkeyopt', 'hexdistid:']
        run(vargs)
        ent['sigs'].append({'id': idv, 'msg': m.hex(), 'sig': sig.hex(), 'sig_der': b.hex()})
    for ei in range(6):
        m = rb([1, 2, 31, 32, 33, 200][ei])
        mp = os.path.join(tmp, 'm.bin'); open(mp, 'wb').write(m)
        cp = os.path.join(tmp, 'c.der')
        run(['pkeyutl', '-encrypt', '-pubin', '-inkey', pp, '-in', mp, '-out', cp])
        b = open(cp, 'rb').read(); t, body, _ = parse(b)
        t, x, i = parse(body, 0); t, y, i = parse(body, i); t, c3, i = parse(body, i); t, c2, i = parse(body, i)
        raw = b'\x04' + int.from_bytes(x, 'big').to_bytes(32, 'big') + int.from_bytes(y, 'big').to_bytes(32, 'big') + c3 + c2
        ent['encs'].append({'msg': m.hex(), 'der': b.hex(), 'c1c3c2': raw.hex()})
    sm2.append(ent)
out['sm2'] = sm2
json.dump(out, open(os.path.join(os.path.dirname(os.path.abspath(__file__)), 'openssl.json'), 'w'), indent=0)
print('ok', {k: (len(v) if isinstance(v, list) else v) for k, v in out.items()})
